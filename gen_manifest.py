#!/usr/bin/env python3
"""Regenerates MANIFEST.json from the table below (keeps it valid at all times).
Run: python3 gen_manifest.py"""
import json, os

HERE = os.path.dirname(os.path.abspath(__file__))
props = [json.loads(l) for l in open(os.path.join(HERE, "properties.jsonl"))]

LEVEL_TEXT = ("Static analysis of /repo's current source (go/packages + go/ssa, nothing is executed): structural necessary "
              "conditions of the property are decided over ALL paths of the anchored functions - {what}. A tree violating a rule has an "
              "input/schedule/history on which the property fails; the value-level clauses listed in DESIGN.md section 5 are not decided. "
              "Level 'other': stronger than sampling for the clauses it covers (every path, every schedule), silent on the rest.")

# id -> (technique, what is decided, design_ref)
CLAIMED = {
    "C17": ("sibling rule over the six context-aware I/O functions (discovered by signature): must-pass-through / dominance inside the watcher closure, post-dominance of close(done);wg.Wait() after the I/O call, lockset at Wait, provenance of the returned count and error",
            "force past deadline only after ctx fired, wait, restore zero deadline of the same direction on every path, Done afterwards; no deadline manipulation outside the watcher; close+Wait on every path before the mutex is released; n is the wrapped call's n, ctx error only if n == 0; per-direction mutexes; closed test first",
            "DESIGN.md section 3 C17"),
    "C18": ("taint (copies), shape rule for Pipe's cross-wiring and per-end closed channel, guard rule for the returned length, mirror comparison (canonical serialisation) of the two directions of every Bridge method, must-pass reset of the reorder stack, pairing rule for Tick's hand-over on an unbuffered channel",
            "dpipe copies, cross-wires, closes only its own end once, reports min(len) bytes; Bridge copies, treats both directions identically, empties the reorder stack after flushing it into the queue, hands over exactly the head it then removes",
            "DESIGN.md section 3 C18"),
    "C20": ("build-constraint partition over the full truth table of tags x GOARCH suffixes, SSA shape of the delegating definition, stand-alone type check + structural loop/argument rules for legacy files, per-configuration evaluation in the thorough tier",
            "exactly one XorBytes per build configuration; the active one is return subtle.XORBytes(dst, a, b); legacy files: n = min, early return, arms get (dst,a,b,n), loops partition [0,n)",
            "DESIGN.md section 3 C20"),
    "C04": ("symbolic evaluation of all acyclic paths of Check/accept as exact linear forms with store-to-load forwarding (abstract interpretation over branch literals, no concrete inputs, no solver), index-agreement of Bit/SetBit, affine mask-width check, purity (effects) of Check",
            "accepting paths carry seq<=max and newer-or-(in-window and bit clear at that distance); refusing paths carry a legitimate reason; exact fold boundaries; SetBit once at the tested distance; head moves only for newer numbers after the matching shift; word access guarded by i<n; truncation mask width >= n%64",
            "DESIGN.md section 3 C04"),
    "C05": ("same path-literal engine as C04: both directions of the acceptance predicate per path, purity of Check (effects), accept's result on the head-moving path",
            "Check writes nothing; acceptance predicate of every path equals the sliding-window rule (literal sets), unsigned distances in the plain detector, exact half-space fold in the wrapping one; accept returns true exactly when it moved the head (wrapping detector). Late-zero 'latest' and 2^64 overflow deviations are value-level and not decided",
            "DESIGN.md section 3 C05"),
    "C01": ("taint (payload), per-call/per-iteration path counting of forwards, drop-edge classification against a frozen table, FIFO shape + call-graph single consumer, provenance/dominance of delivered and pushed chunks, channel discipline of wake-up and receive queues, no-goroutine rule on the datagram path, plus the NAT rules of C02/C03",
            "copy-on-write; at most one forward per datagram per hop; loss only on enumerated edges; FIFO + single consumer; demultiplexing by destination; NAT result is what is forwarded; wake-up token and send-after-close discipline; synchronous hand-over; NAT mapping/filtering rules",
            "DESIGN.md section 3 C01"),
    "C13": ("dominance (not-present edge, subnet test, ownership test), edge-cut reachability for the two bind branches, lockset with caller-holds inference (allocator under router mutex, binders hold the host mutex exclusively), predicate agreement insert/find, must-pass of the release",
            "auto address only when absent from the NIC table; registration only inside the subnet; bind only for owned addresses after ephemeral search 5000-5999 or negative conflict lookup, atomically; conflict and match predicates agree; Close releases the own address once; delivery to the covering socket",
            "DESIGN.md section 3 C13"),
    "C02": ("enum switch tables (exhaustive, value classes), key-shape agreement of all table operations followed through helpers, effects + call-graph reachability for the expiry, dominance (not-expired edge, free-probe edge), affine port-range check, mirror rule for the 1:1 helpers",
            "mapping key classes per behaviour; table keys agree and are separated; both tables updated together; expiry written only on outbound paths and always on reuse; mappings handed out only when not expired; external port in range and free; 1:1 pairing with port preserved",
            "DESIGN.md section 3 C02"),
    "C03": ("enum switch tables compared across the two translations, dominance of the rewrite by mapping-found and exact permission lookup, must-pass of permission recording, effects closure of the inbound path, provenance of the rewritten destination and pushed chunk",
            "filter key classes agree outbound/inbound; admission only after mapping found and exact key present; destination rewritten to the mapping's .local on the returned clone; permission recorded on every outbound success path; inbound path writes nothing but the clone; router pushes only on nil error; unpaired 1:1 refused",
            "DESIGN.md section 3 C03"),
    "C14": ("belief-contradiction rule over all peek() sites, dominance (due edge), must-pass-through with infeasible-edge pruning (timer re-arm), provenance of the due time, exact linear form of the router cut-off, FIFO shape of the queue",
            "peek results guarded before use; pop/forward only when due; one forward per pop of the wrapped chunk; due time = Now()+delay at arrival; only timedChunk pushed; timer re-armed on every path after tick/Stop; router pops only when timestamp <= now-minDelay and stamps at enqueue; FIFO queue",
            "DESIGN.md section 3 C14"),
    "C15": ("effects on the token counter (cap shape), who-may-forward, dominance of the tokens>=size test, per-iteration path counting pairing pop/decrement/forward, call-graph single consumer, FIFO shape",
            "token stores capped by min(maxBurst,.) or decreasing; refill clips on every path; one forwarding site guarded by tokens>=size of the peeked head, paired with one pop and one decrement; no pop without forward; arriving chunk always offered to the queue; single consumer; FIFO queue",
            "DESIGN.md section 3 C15"),
    "C16": ("shape + decision-structure truth table over linear atoms for the drop test, path counting of draw and forward, effects",
            "one rand.Intn(100) per datagram; drop iff draw < chance on the int chance stored unchanged; at most one forward of the received chunk; no other effect",
            "DESIGN.md section 3 C16"),
    "C10": ("sibling rule over all owners of SetReadDeadline (discovered by method set), must-pass-through, select-structure rules (pre-check and Done() case), value analysis of timeout-class errors, plus the Deadline typestate rules",
            "every owner arms a level-triggered deadline.Deadline (or delegates to one it reads from) with its argument; no one-shot timer channel on any read path; non-blocking pre-check dominates every blocking wait, which has a Done() case; Done() branches return timeout-class errors and nothing else does; Deadline bookkeeping",
            "DESIGN.md section 3 C10"),
    "C11": ("key-agreement of all connection-table operations, provenance of (address, payload, conn), dominance/edge rules for registration, call-graph single-dispatcher rule, taint of the reused receive buffer, plus the packet-buffer integrity rules of C06",
            "table keyed consistently by the remote address; datagram written to the conn returned for its own address; same read/batch index; registration only on not-found + accepting + filter-true + enqueue-success edges under connLock; one dispatcher goroutine; receive buffer not retained; Close unregisters its own key; no routing cache; buffer integrity",
            "DESIGN.md section 3 C11"),
    "C12": ("who-may-call + dominance + lockset rules over the WaitGroup reference count, sync.Once closures, backlog enqueue/drain and close sites",
            "single socket close site after Wait; Done only once-protected or undoing the same path's Add; Add only in the constructor or under connLock on the accepting edge before the enqueue in one critical section; drained/refused/accepted conns accounted; Conn.Close closes the buffer; listener Close ordering (flag, doneCh, lock, drain, own Done); Accept fails after Close",
            "DESIGN.md section 3 C12"),
    "C06": ("taint (caller-owned slice), guard dominance, never-after reachability, header byte-order agreement, wrap-test-after-advance must-pass rule, path-sensitive linear normal forms of the ring helpers (available/size/grow)",
            "copy-on-write; size/closed guards dominate all stores; refusal store-free; growth re-linearises into a fresh strictly larger array; header written/read with the same byte order; head advanced by the decoded length; ErrShortBuffer exactly on copied<length; fresh wrap test after every advance; count pairing; one byte kept free",
            "DESIGN.md section 3 C06"),
    "C07": ("decision-structure extraction of the limit test compared with the specification by a complete truth table over linear atoms; dominance; effects; lockset; exact linear forms of occupancy/free-space helpers; growth-cap guards",
            "refuse iff (limitCount>0 & count+1>limitCount) | (limitSize>0 & size+2+len>limitSize); stores after the test; refusal store-free; Count/Size/SetLimit* under the mutex on the right fields; growth capped at limitSize+1, 4 MiB only without a limit; count pairing",
            "DESIGN.md section 3 C07"),
    "C08": ("must-pass-through / dominance / edge-sensitive reachability on the SSA of Buffer.Write/Read/Close, channel discipline (capacity, close-once, send-vs-close ordering), baton-pass rule, lockset; plus the Deadline typestate rules of C09 for the read deadline",
            "token posted on every success path of Write under the lock; capacity>=1; re-test under lock after wake-up; EOF only on empty-then-closed; close exactly once with the flag; sends ordered with close; baton pass when data remains; deadline tested before and while waiting; lock balance; Deadline bookkeeping",
            "DESIGN.md section 3 C08"),
    "C09": ("typestate / counting analysis by exhaustive enumeration of the acyclic paths of Deadline.Set and the timer callback over abstract entry state x Stop() outcome x argument class",
            "delta(pending) = #arms - [Stop()==true]; Stop exactly when started; arm xor close by argument class with the right final state; fresh done channel iff entry state exceeded; callback signals only when last and started, on the channel read under the lock",
            "DESIGN.md section 3 C09"),
    "C19": ("lockset analysis (flow-sensitive must-locksets with caller-holds inference) + atomic/package-variable discipline + verified exemption table + lock balance",
            "guarded-by discipline for every field written after construction in vnet/packetio/deadline/udp/dpipe, atomic words never accessed plainly, run-time-written package variables synchronised, exemptions verified, locks balanced",
            "DESIGN.md section 3 C19"),
}

NOT_YET = "not claimed"

checks, na = [], []
for p in props:
    pid = p["id"]
    if pid in CLAIMED:
        tech, what, ref = CLAIMED[pid]
        checks.append({
            "property_id": pid,
            "quick_cmd": "./run.sh %s quick" % pid,
            "thorough_cmd": "./run.sh %s thorough" % pid,
            "evidence_file": "/verif/evidence/%s.json" % pid,
            "replay_cmd_template": "cat {path}; ./run.sh %s quick" % pid,
            "engine": "vcheck",
            "level_claimed": {"category": "other", "text": LEVEL_TEXT.format(what=what), "design_ref": ref},
            "level_note": "Trusted base: go/types + go/ssa (x/tools v0.29.0) model the program; sync, sync/atomic, channels, time.Timer behave as documented; user-supplied callbacks/NICs are outside the call graph; the exemption and drop-edge tables inside the checker are justified line by line in DESIGN.md.",
            "technique": "static analysis: " + tech,
        })
    else:
        na.append({"property_id": pid, "reason": NOT_YET})

man = {
    "version": 1,
    "setup_cmd": "./setup.sh",
    "hooks": {
        "guard": "verif",
        "enable": "none needed: the checks read /repo's sources (go/packages + go/ssa) and never build or run them; there are no hook commits",
        "baseline_off_cmd": "cd /repo && GOFLAGS=-mod=mod GOPROXY=off GOSUMDB=off GOTOOLCHAIN=local go test -vet=off -count=1 -timeout 25m ./...",
        "source_commits": [],
        "add_only": True,
    },
    "engines": [{
        "name": "vcheck",
        "path": "/verif/vcheck",
        "serves_properties": sorted(CLAIMED.keys()),
        "kind_free_text": "repository-specific static analyser over go/ssa (lockset, dominance / must-pass-through, effects, taint, path counting, mirror comparison, affine checks); one binary, one rule file per property",
    }],
    "checks": checks,
    "not_applicable": na,
    "notes": "Static analysis only; see DESIGN.md. Genuine defects found by the rules on the pinned tree were repaired by 15 'fix:' commits in /repo and are recorded as fixed: entries in known_findings.json (which suppresses nothing).",
}
json.dump(man, open(os.path.join(HERE, "MANIFEST.json"), "w"), indent=1)
print("claimed:", sorted(CLAIMED.keys()), "not claimed:", len(na))
