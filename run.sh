#!/bin/sh
# usage: run.sh <property id> <quick|thorough>
# Rebuilds the checker if needed (cached build, < 1 s) and decides the property on
# /repo's current working tree.
cd "$(dirname "$0")" || exit 2
export GOFLAGS=-mod=mod GOPROXY=off GOSUMDB=off GOTOOLCHAIN=local CGO_ENABLED=0
unset GOWORK
mkdir -p bin evidence
if ! (cd vcheck && go build -o ../bin/vcheck . ) >/tmp/vcheck-build.$$ 2>&1; then
  cat /tmp/vcheck-build.$$; rm -f /tmp/vcheck-build.$$
  if [ ! -x bin/vcheck ]; then echo "cannot build checker"; exit 2; fi
fi
rm -f /tmp/vcheck-build.$$
exec ./bin/vcheck -prop "$1" -tier "${2:-quick}"
