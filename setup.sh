#!/bin/sh
# Build the checker offline from files on disk only.
set -e
cd "$(dirname "$0")"
export GOFLAGS=-mod=mod GOPROXY=off GOSUMDB=off GOTOOLCHAIN=local CGO_ENABLED=0
unset GOWORK
mkdir -p bin evidence
cd vcheck && go build -o ../bin/vcheck .
