#!/usr/bin/env python3
"""Confirms every behaviour-preserving refactoring under /verif/refactors: the patch applies to a scratch
copy of /repo, the module builds and the complete existing test suite passes. Writes refactors/CONFIRM.json."""
import json, os, shutil, subprocess, sys, tempfile, concurrent.futures
VERIF = os.path.dirname(os.path.abspath(__file__))
ROOT = os.path.join(VERIF, "refactors")
ENV = dict(os.environ, GOFLAGS="-mod=mod", GOPROXY="off", GOSUMDB="off", GOTOOLCHAIN="local")
ENV.pop("GOWORK", None)
def run(name):
    work = tempfile.mkdtemp(prefix="rc-" + name + "-", dir="/tmp")
    try:
        repo = os.path.join(work, "repo")
        shutil.copytree("/repo", repo, ignore=shutil.ignore_patterns(".git"))
        r = subprocess.run(["patch", "-p1", "-s", "-d", repo, "-i", os.path.join(ROOT, name, "patch.diff")], capture_output=True, text=True)
        if r.returncode != 0:
            return name, {"applies": False}
        b = subprocess.run(["go", "build", "./..."], cwd=repo, env=ENV, capture_output=True, text=True)
        if b.returncode != 0:
            return name, {"applies": True, "build": False, "out": b.stderr[-300:]}
        for attempt in range(3):
            t = subprocess.run(["go", "test", "-count=1", "./..."], cwd=repo, env=ENV, capture_output=True, text=True)
            if t.returncode == 0:
                break
        return name, {"applies": True, "build": True, "tests_pass": t.returncode == 0, "attempts": attempt + 1,
                      "out": "" if t.returncode == 0 else t.stdout[-600:]}
    finally:
        shutil.rmtree(work, ignore_errors=True)
names = sorted(n for n in os.listdir(ROOT) if os.path.exists(os.path.join(ROOT, n, "patch.diff")))
if len(sys.argv) > 1:
    names = [n for n in names if any(n.startswith(a) for a in sys.argv[1:])]
res = {}
with concurrent.futures.ThreadPoolExecutor(max_workers=3) as ex:
    for name, r in ex.map(run, names):
        res[name] = r
        print(name, r, flush=True)
old = {}
p = os.path.join(ROOT, "CONFIRM.json")
if os.path.exists(p):
    old = json.load(open(p))
old.update(res)
json.dump(old, open(p, "w"), indent=1, sort_keys=True)
print("confirmed", sum(1 for r in old.values() if r.get("tests_pass")), "of", len(old))
