#!/bin/bash
# usage: tools_confirm_seed.sh <Cxx> <k>  — confirm a sub-agent's seeded change in the scratch worktree /tmp/wt/<Cxx>:
# patch applies to /repo's HEAD, builds, existing tests of changed packages (and dependants) pass,
# demo fails with the change and passes without it. Writes /tmp/seedtask/<Cxx>/out/<k>/confirm.json
ID=$1; K=$2
D=${SEEDROOT:-/tmp/seedtask}/$ID/out/$K
WT=${WTDIR:-/tmp/wt/$ID}
export GOFLAGS=-mod=mod GOPROXY=off GOSUMDB=off GOTOOLCHAIN=local
cd $WT || exit 2
git checkout -q --detach $(git -C /repo rev-parse HEAD) 2>/dev/null
git checkout -q -- . ; git clean -fdq
DEMO=$(cat $D/demo_path.txt | tr -d '[:space:]')
PKGDIR=$(dirname $DEMO)
res() { echo "\"$1\": $2,"; }
{
echo "{"
if git apply --check $D/patch.diff 2>/dev/null; then res applies true; else res applies false; echo "\"done\": true }"; exit 0; fi
# demo without change
cp $D/seeded_demo_test.go $DEMO
if go test $RACEFLAG -vet=off -count=1 -run 'TestSeededDemo$' ./$PKGDIR/ >$D/demo_without.log 2>&1; then res demo_passes_without_change true; else res demo_passes_without_change false; fi
rm -f $DEMO
git apply $D/patch.diff
PKGS=$(git diff --name-only | xargs -n1 dirname | sort -u | sed 's#^#./#')
if go build ./... >$D/build.log 2>&1; then res build true; else res build false; fi
# dependants: run changed packages + a fixed set of cheap dependants
EXTRA=""
case "$PKGS" in *deadline*) EXTRA="./packetio ./dpipe ./udp ./test";; *packetio*) EXTRA="./udp";; esac
if go test -vet=off -count=1 $PKGS $EXTRA >$D/existing.log 2>&1; then res existing_tests_pass true; else
  # one retry for load-sensitive flakes
  if go test -vet=off -count=1 $PKGS $EXTRA >$D/existing2.log 2>&1; then res existing_tests_pass true; else res existing_tests_pass false; fi
fi
cp $D/seeded_demo_test.go $DEMO
if go test $RACEFLAG -vet=off -count=1 -run 'TestSeededDemo$' ./$PKGDIR/ >$D/demo_with.log 2>&1; then res demo_fails_with_change false; else res demo_fails_with_change true; fi
rm -f $DEMO
git checkout -q -- . ; git clean -fdq
echo "\"head\": \"$(git -C /repo rev-parse --short HEAD)\", \"done\": true }"
} > $D/confirm.json
cat $D/confirm.json | tr '\n' ' '; echo
