#!/usr/bin/env python3
"""Regenerates section 8.2 of DESIGN.md (implemented rules) from `vcheck -list` on the current tree."""
import os, re, subprocess
V = os.path.dirname(os.path.abspath(__file__))
env = dict(os.environ, VCHECK_LIST_TEXT="1")
out = ["### 8.2 Implemented rules (generated from a run on the current tree by tools_gen_rules_md.py)", ""]
for i in range(1, 21):
    p = "C%02d" % i
    r = subprocess.run([os.path.join(V, "bin", "vcheck"), "-prop", p, "-list"], capture_output=True, text=True, env=env, cwd=V)
    rules, order = {}, []
    cur = None
    n = 0
    for l in r.stdout.splitlines():
        m = re.match(r"\s+(discharged|violated|undecided)\s+(\S+)\s", l)
        if m:
            cur = m.group(2); n += 1
            continue
        m = re.match(r"\s+text: (.*)", l)
        if m and cur and cur not in rules:
            rules[cur] = m.group(1); order.append(cur)
    out.append("#### %s (%d obligations on linux/amd64)" % (p, n)); out.append("")
    for k in order:
        out.append("* `%s` — %s" % (k, rules[k]))
    out.append("")
s = open(os.path.join(V, "DESIGN.md")).read()
a = s.index("### 8.2 Implemented rules")
b = s.index("### 8.3 False alarms met while building")
s = s[:a] + "\n".join(out) + "\n" + s[b:]
open(os.path.join(V, "DESIGN.md"), "w").write(s)
print("8.2 regenerated:", sum(1 for l in out if l.startswith("* ")), "rules")
