#!/usr/bin/env python3
"""Imports confirmed sub-agent seeds from /tmp/seedtask/<id>/out/<k> into /verif/seeded/<id>-s<wave><k>/
and the reverted fix: commits as /verif/seeded/<id>-fixrev-*/ (reverse patches)."""
import json, os, shutil, sys
wave = sys.argv[1] if len(sys.argv) > 1 else "1"
src = sys.argv[2] if len(sys.argv) > 2 else "/tmp/seedtask"
V = "/verif/seeded"
os.makedirs(V, exist_ok=True)
n = 0
for pid in sorted(os.listdir(src)):
    out = os.path.join(src, pid, "out")
    if not os.path.isdir(out):
        continue
    for k in sorted(os.listdir(out)):
        d = os.path.join(out, k)
        cf = os.path.join(d, "confirm.json")
        if not os.path.exists(cf):
            continue
        try:
            conf = json.load(open(cf))
        except Exception:
            continue
        need = ['applies', 'demo_passes_without_change', 'build', 'existing_tests_pass', 'demo_fails_with_change']
        if not all(conf.get(x) for x in need):
            print("skip", pid, k, {x: conf.get(x) for x in need})
            continue
        meta = json.load(open(os.path.join(d, "meta.json")))
        dst = os.path.join(V, "%s-s%s%s" % (pid, wave, k))
        os.makedirs(dst, exist_ok=True)
        shutil.copy(os.path.join(d, "patch.diff"), dst)
        demo_path = open(os.path.join(d, "demo_path.txt")).read().strip()
        shutil.copy(os.path.join(d, "seeded_demo_test.go"), os.path.join(dst, "seeded_demo_test.go.txt"))
        m = {
            "property": pid,
            "origin": "independent sub-agent given only the property text and a scratch worktree (wave %s)" % wave,
            "summary": meta.get("summary"),
            "clause": meta.get("clause"),
            "needs_to_manifest": meta.get("needs"),
            "demo": {"file": "seeded_demo_test.go.txt", "place_at": demo_path, "cmd": meta.get("demo_cmd")},
            "agent_verified": meta.get("verified"),
            "confirmed_by_me": {"in": "scratch worktree of /repo at HEAD %s" % (conf.get("head")),
                                "ran": "git apply --check; go build ./...; go test -vet=off -count=1 <changed packages + dependants> (one retry for the load-sensitive TBF/BatchIO tests); demo test with and without the change" + (" (with -race)" if pid == "C19" else ""),
                                **{x: conf.get(x) for x in need}, **({"note": conf["note"]} if conf.get("note") else {})},
        }
        json.dump(m, open(os.path.join(dst, "meta.json"), "w"), indent=1)
        n += 1
print("imported", n)
