#!/usr/bin/env python3
"""False-alarm test: runs every quick check against scratch copies of /repo with each
behaviour-preserving refactoring applied (from /tmp/reftask/<id>/out/<k>/ or /verif/refactors/<name>/).
usage: tools_ref_matrix.py <root> [name-prefix...]"""
import json, os, shutil, subprocess, sys, concurrent.futures, tempfile
VERIF = os.path.dirname(os.path.abspath(__file__))
PROPS = os.environ.get("VCHECK_PROPS", "").split() or ["C%02d" % i for i in range(1, 21)]
def run(name, patch):
    work = tempfile.mkdtemp(prefix="rm-" + name.replace("/", "_") + "-", dir="/tmp")
    try:
        repo = os.path.join(work, "repo")
        shutil.copytree("/repo", repo, ignore=shutil.ignore_patterns(".git"))
        vd = os.path.join(work, "verif"); os.makedirs(os.path.join(vd, "evidence"))
        shutil.copy(os.path.join(VERIF, "known_findings.json"), vd); shutil.copy(os.path.join(VERIF, "MANIFEST.json"), vd)
        r = subprocess.run(["patch", "-p1", "-s", "-d", repo, "-i", patch], capture_output=True, text=True)
        if r.returncode != 0:
            return name, None, (r.stdout + r.stderr)[-200:]
        env = dict(os.environ, VERIF_REPO=repo, VERIF_DIR=vd, GOFLAGS="-mod=mod", GOPROXY="off", GOSUMDB="off", GOTOOLCHAIN="local", CGO_ENABLED="0")
        env.pop("GOWORK", None)
        fired = {}
        for p in PROPS:
            r = subprocess.run([os.environ.get("VCHECK_BIN", os.path.join(VERIF, "bin", "vcheck")), "-prop", p], capture_output=True, text=True, env=env)
            if r.returncode != 0:
                fired[p] = [l[:400] for l in r.stdout.splitlines() if ": [" in l][:4]
        return name, fired, ""
    finally:
        shutil.rmtree(work, ignore_errors=True)
root = sys.argv[1]
items = []
if os.path.isdir(os.path.join(root, "C01", "out")) or any(os.path.isdir(os.path.join(root, d, "out")) for d in os.listdir(root)):
    for pid in sorted(os.listdir(root)):
        out = os.path.join(root, pid, "out")
        if os.path.isdir(out):
            for k in sorted(os.listdir(out)):
                p = os.path.join(out, k, "patch.diff")
                if os.path.exists(p):
                    items.append(("%s-r%s" % (pid, k), p))
else:
    for n in sorted(os.listdir(root)):
        p = os.path.join(root, n, "patch.diff")
        if os.path.exists(p):
            items.append((n, p))
if len(sys.argv) > 2:
    items = [i for i in items if any(i[0].startswith(a) for a in sys.argv[2:])]
res = {}
with concurrent.futures.ThreadPoolExecutor(max_workers=6) as ex:
    for name, fired, err in ex.map(lambda s: run(*s), items):
        res[name] = fired
        if fired is None:
            print(name, "PATCH DOES NOT APPLY", err)
        elif fired:
            print(name, "FALSE ALARM:")
            for p, ls in fired.items():
                for l in ls:
                    print("    ", p, l)
        else:
            print(name, "silent")
json.dump(res, open("/tmp/ref_matrix.json", "w"), indent=1)
print("total", len(res), "alarms", sum(1 for v in res.values() if v))
