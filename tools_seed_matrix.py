#!/usr/bin/env python3
"""Runs every quick check against every kept seeded change (and the reverted fix: commits)
in scratch copies of /repo (never /repo itself) and writes seeded/MATRIX.json + MATRIX.md.
usage: tools_seed_matrix.py [seed-name-prefix ...]"""
import json, os, shutil, subprocess, sys, concurrent.futures, tempfile

VERIF = os.path.dirname(os.path.abspath(__file__))
REPO = "/repo"
PROPS = ["C%02d" % i for i in range(1, 21)]

def run_seed(name, patch, reverse=False):
    work = tempfile.mkdtemp(prefix="sm-" + name + "-", dir="/tmp")
    try:
        repo = os.path.join(work, "repo")
        shutil.copytree(REPO, repo, ignore=shutil.ignore_patterns(".git"))
        vd = os.path.join(work, "verif")
        os.makedirs(os.path.join(vd, "evidence"))
        shutil.copy(os.path.join(VERIF, "known_findings.json"), vd)
        shutil.copy(os.path.join(VERIF, "MANIFEST.json"), vd)
        cmd = ["patch", "-p1", "-s", "-d", repo, "-i", patch]
        if reverse:
            cmd.insert(1, "-R")
        r = subprocess.run(cmd, capture_output=True, text=True)
        if r.returncode != 0:
            return name, {"applies": False, "err": (r.stdout + r.stderr)[-300:]}
        env = dict(os.environ, VERIF_REPO=repo, VERIF_DIR=vd, GOFLAGS="-mod=mod", GOPROXY="off", GOSUMDB="off", GOTOOLCHAIN="local", CGO_ENABLED="0")
        env.pop("GOWORK", None)
        res = {}
        for p in PROPS:
            r = subprocess.run([os.environ.get("VCHECK_BIN", os.path.join(VERIF, "bin", "vcheck")), "-prop", p, "-tier", "quick"], capture_output=True, text=True, env=env)
            rules = sorted({l.split("] ")[0].split("[")[-1] for l in r.stdout.splitlines() if "] " in l and l.split("] ")[0].count("[") and ": [" in l})
            und = any("undecided" in l for l in r.stdout.splitlines() if ": [" in l)
            if r.returncode != 0:
                res[p] = {"fired": True, "rules": rules, "undecided_only": und and all("undecided" in l for l in r.stdout.splitlines() if ": [" in l)}
        return name, {"applies": True, "fired": res}
    finally:
        shutil.rmtree(work, ignore_errors=True)

def main():
    seeds = []
    sd = os.path.join(VERIF, "seeded")
    for n in sorted(os.listdir(sd)):
        d = os.path.join(sd, n)
        if os.path.isdir(d) and os.path.exists(os.path.join(d, "patch.diff")):
            if len(sys.argv) > 1 and not any(n.startswith(a) for a in sys.argv[1:]):
                continue
            meta = json.load(open(os.path.join(d, "meta.json")))
            seeds.append((n, os.path.join(d, "patch.diff"), bool(meta.get("reverse"))))
    out = {}
    mpath = os.path.join(sd, "MATRIX.json")
    if os.path.exists(mpath) and len(sys.argv) > 1:
        out = json.load(open(mpath))
    with concurrent.futures.ThreadPoolExecutor(max_workers=6) as ex:
        for name, r in ex.map(lambda s: run_seed(*s), seeds):
            out[name] = r
            print(name, "fired:", {k: v["rules"] for k, v in r.get("fired", {}).items()} if r.get("applies") else "PATCH DOES NOT APPLY (not counted)")
    json.dump(out, open(mpath, "w"), indent=1, sort_keys=True)
    # markdown
    lines = ["| seeded change | property | caught by (check: rules) | own check fires |", "|---|---|---|---|"]
    for n in sorted(out):
        meta = json.load(open(os.path.join(sd, n, "meta.json")))
        r = out[n]
        if not r.get("applies"):
            lines.append("| %s | %s | patch no longer applies | - |" % (n, meta.get("property")))
            continue
        fired = r["fired"]
        own = meta.get("property") in fired
        desc = "; ".join("%s: %s%s" % (p, ",".join(x.split(".", 1)[1] for x in v["rules"]), " (undecided anchor)" if v.get("undecided_only") else "") for p, v in sorted(fired.items())) or "MISSED"
        lines.append("| %s | %s | %s | %s |" % (n, meta.get("property"), desc, "yes" if own else "no"))
    open(os.path.join(sd, "MATRIX.md"), "w").write("\n".join(lines) + "\n")
    missed = [n for n in out if out[n].get("applies") and not out[n]["fired"]]
    na = [n for n in out if not out[n].get("applies")]
    print("seeds:", len(out), "missed:", missed, "patch does not apply:", na)

if __name__ == "__main__":
    main()
