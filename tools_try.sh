#!/bin/sh
# usage: tools_try.sh <patch> [-R] <prop>...   : apply patch to /repo, run checks, undo.
P=$1; shift
REV=""
if [ "$1" = "-R" ]; then REV="-R"; shift; fi
cd /repo || exit 2
if ! git apply $REV "$P"; then echo "PATCH DOES NOT APPLY"; exit 3; fi
for prop in "$@"; do
  /verif/bin/vcheck -prop $prop 2>&1 | grep -E "VIOLATION|^OK|KNOWN|panic|\[C" | head -${LINES_MAX:-6}
done
git -C /repo checkout -- . ; git -C /repo status --short | head -3
