package main

// A small may-call graph over the module: static calls, interface invokes resolved by
// CHA over module types, references to function values (a referenced function may be
// called by whoever receives it), closures, and dynamic calls resolved by signature
// among address-taken module functions.

import (
	"go/types"

	"golang.org/x/tools/go/ssa"
)

type cgEdge struct {
	From, To *ssa.Function
	Site     ssa.Instruction
	Kind     string // static | go | defer | invoke | ref | dynamic
}

type cgraph struct {
	Out map[*ssa.Function][]cgEdge
	In  map[*ssa.Function][]cgEdge
}

func (p *Prog) CG() *cgraph {
	if p.cg != nil {
		return p.cg
	}
	g := &cgraph{Out: map[*ssa.Function][]cgEdge{}, In: map[*ssa.Function][]cgEdge{}}
	add := func(e cgEdge) {
		g.Out[e.From] = append(g.Out[e.From], e)
		g.In[e.To] = append(g.In[e.To], e)
	}
	// address-taken functions by signature (for dynamic calls)
	var taken []*ssa.Function
	takenSet := map[*ssa.Function]bool{}
	for _, f := range p.Funcs {
		instrsOf(f, func(in ssa.Instruction) {
			var calleeV ssa.Value
			if ci, ok := in.(ssa.CallInstruction); ok && !ci.Common().IsInvoke() {
				calleeV = ci.Common().Value
			}
			if mc, isMC := in.(*ssa.MakeClosure); isMC {
				// a closure that is only ever called where it was made (a local helper function) is not
				// address-taken: no dynamic call elsewhere can reach it
				onlyCalled := mc.Referrers() != nil && len(*mc.Referrers()) > 0
				if onlyCalled {
					for _, rf := range *mc.Referrers() {
						if _, isDbg := rf.(*ssa.DebugRef); isDbg {
							continue
						}
						ci, isCall := rf.(*ssa.Call)
						if !isCall || ci.Call.Value != ssa.Value(mc) {
							onlyCalled = false
							break
						}
						for _, a := range ci.Call.Args {
							if a == ssa.Value(mc) {
								onlyCalled = false
							}
						}
					}
				}
				if onlyCalled {
					return
				}
			}
			for _, op := range in.Operands(nil) {
				if *op == nil || *op == calleeV {
					continue
				}
				var fn *ssa.Function
				switch v := (*op).(type) {
				case *ssa.Function:
					fn = v
				case *ssa.MakeClosure:
					fn, _ = v.Fn.(*ssa.Function)
				}
				if fn != nil && inModule(fn) {
					if !takenSet[fn] {
						takenSet[fn] = true
						taken = append(taken, fn)
					}
					add(cgEdge{f, fn, in, "ref"})
				}
			}
		})
	}
	// methods of module types for CHA
	type meth struct {
		recv types.Type
		fn   *ssa.Function
	}
	var methods []meth
	for _, f := range p.Funcs {
		if f.Signature.Recv() != nil && f.Parent() == nil {
			methods = append(methods, meth{f.Signature.Recv().Type(), f})
		}
	}
	for _, f := range p.Funcs {
		instrsOf(f, func(in ssa.Instruction) {
			ci, ok := in.(ssa.CallInstruction)
			if !ok {
				return
			}
			kind := "static"
			switch in.(type) {
			case *ssa.Go:
				kind = "go"
			case *ssa.Defer:
				kind = "defer"
			}
			c := ci.Common()
			if c.IsInvoke() {
				it, _ := c.Value.Type().Underlying().(*types.Interface)
				for _, m := range methods {
					if m.fn.Name() != c.Method.Name() {
						continue
					}
					if it != nil && (types.Implements(m.recv, it) || types.Implements(types.NewPointer(m.recv), it)) {
						k := "invoke"
						if kind == "go" {
							k = "go"
						}
						add(cgEdge{f, m.fn, in, k})
					}
				}
				return
			}
			if sc := c.StaticCallee(); sc != nil {
				if inModule(sc) {
					add(cgEdge{f, sc, in, kind})
				}
				return
			}
			if _, ok := c.Value.(*ssa.Builtin); ok {
				return
			}
			// dynamic call of a func value
			sig, _ := c.Value.Type().Underlying().(*types.Signature)
			for _, t := range taken {
				if sig != nil && types.Identical(t.Signature, sig) || sig != nil && sameParams(t.Signature, sig) {
					k := "dynamic"
					if kind == "go" {
						k = "go"
					}
					add(cgEdge{f, t, in, k})
				}
			}
		})
	}
	p.cg = g
	return g
}

func sameParams(a, b *types.Signature) bool {
	if a.Params().Len() != b.Params().Len() || a.Results().Len() != b.Results().Len() {
		return false
	}
	for i := 0; i < a.Params().Len(); i++ {
		if !types.Identical(a.Params().At(i).Type(), b.Params().At(i).Type()) {
			return false
		}
	}
	for i := 0; i < a.Results().Len(); i++ {
		if !types.Identical(a.Results().At(i).Type(), b.Results().At(i).Type()) {
			return false
		}
	}
	return true
}

// reachableFrom returns all functions reachable from roots following edges accepted by ok.
func (g *cgraph) reachableFrom(roots []*ssa.Function, ok func(e cgEdge) bool) map[*ssa.Function]bool {
	seen := map[*ssa.Function]bool{}
	var walk func(f *ssa.Function)
	walk = func(f *ssa.Function) {
		if seen[f] {
			return
		}
		seen[f] = true
		for _, e := range g.Out[f] {
			if ok == nil || ok(e) {
				walk(e.To)
			}
		}
	}
	for _, r := range roots {
		if r != nil {
			walk(r)
		}
	}
	return seen
}

// callersClosure returns all functions from which f is reachable.
func (g *cgraph) callersClosure(f *ssa.Function) map[*ssa.Function]bool {
	seen := map[*ssa.Function]bool{}
	var walk func(f *ssa.Function)
	walk = func(f *ssa.Function) {
		if seen[f] {
			return
		}
		seen[f] = true
		for _, e := range g.In[f] {
			walk(e.From)
		}
	}
	walk(f)
	return seen
}

// reachableSlice: functions of package pkg reachable from root through static calls (sorted by name).
func (g *cgraph) reachableSlice(root *ssa.Function, pkg string) []*ssa.Function {
	m := g.reachableFrom([]*ssa.Function{root}, func(e cgEdge) bool { return e.Kind == "static" && pkgOf(e.To) == pkg })
	var out []*ssa.Function
	for f := range m {
		out = append(out, f)
	}
	for i := 0; i < len(out); i++ {
		for j := i + 1; j < len(out); j++ {
			if fname(out[j]) < fname(out[i]) {
				out[i], out[j] = out[j], out[i]
			}
		}
	}
	return out
}
