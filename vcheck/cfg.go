package main

// CFG queries over ssa.Function (engine E2/E5 of DESIGN.md): dominance between
// instructions, guard facts (edge dominance), reachability avoiding events,
// must-pass-through, event counting over regions, acyclic path enumeration.

import (
	"go/token"
	"go/types"
	"sort"

	"golang.org/x/tools/go/ssa"
)

type ipos struct {
	b *ssa.BasicBlock
	i int // index of the first instruction to execute
}

func instrIndex(in ssa.Instruction) int {
	for i, x := range in.Block().Instrs {
		if x == in {
			return i
		}
	}
	return -1
}

func posAfter(in ssa.Instruction) ipos  { return ipos{in.Block(), instrIndex(in) + 1} }
func posAt(in ssa.Instruction) ipos     { return ipos{in.Block(), instrIndex(in)} }
func entryPos(f *ssa.Function) ipos     { return ipos{f.Blocks[0], 0} }
func blockStart(b *ssa.BasicBlock) ipos { return ipos{b, 0} }

// dominates: a is executed before b on every path from the entry to b.
func dominates(a, b ssa.Instruction) bool {
	if a.Block() == b.Block() {
		return instrIndex(a) < instrIndex(b)
	}
	return a.Block().Dominates(b.Block())
}

// reach returns every instruction reachable from start without executing past an
// instruction for which stop returns true (stop instructions themselves are included).
func reach(start ipos, stop func(ssa.Instruction) bool) map[ssa.Instruction]bool {
	out := map[ssa.Instruction]bool{}
	full := map[*ssa.BasicBlock]bool{}
	var walk func(p ipos)
	walk = func(p ipos) {
		if p.i == 0 {
			if full[p.b] {
				return
			}
			full[p.b] = true
		}
		for i := p.i; i < len(p.b.Instrs); i++ {
			in := p.b.Instrs[i]
			out[in] = true
			if stop != nil && stop(in) {
				return
			}
		}
		for _, s := range p.b.Succs {
			walk(ipos{s, 0})
		}
	}
	walk(start)
	return out
}

// canReach: target reachable from start without passing a stop instruction.
func canReach(start ipos, target ssa.Instruction, stop func(ssa.Instruction) bool) bool {
	return reach(start, stop)[target]
}

// mustPass: every path from start to an instruction satisfying target executes a
// `through` instruction first. Returns the offending target otherwise.
func mustPass(start ipos, target, through func(ssa.Instruction) bool) (bool, ssa.Instruction) {
	r := reach(start, func(in ssa.Instruction) bool { return through(in) })
	var bad []ssa.Instruction
	for in := range r {
		if through(in) {
			continue
		}
		if target(in) {
			bad = append(bad, in)
		}
	}
	if len(bad) == 0 {
		return true, nil
	}
	sort.Slice(bad, func(i, j int) bool { return bad[i].Pos() < bad[j].Pos() })
	return false, bad[0]
}

func isReturn(in ssa.Instruction) bool { _, ok := in.(*ssa.Return); return ok }
func isExit(in ssa.Instruction) bool {
	switch in.(type) {
	case *ssa.Return, *ssa.Panic:
		return true
	}
	return false
}

// fact: the most recent evaluation of Cond had value Val on every path to the instruction.
type fact struct {
	Cond ssa.Value
	Val  bool
	If   *ssa.If
}

// guards returns the branch facts that hold at instruction in (edge dominance: the
// successor block of the branch has the branching block as its only predecessor and
// dominates in's block).
func guards(in ssa.Instruction) []fact {
	out := guardsOfBlock(in.Block())
	return append(out, inheritedFacts(in.Parent(), 0)...)
}

// callSiteIndex: static call sites of module functions that are only ever called
// statically (helpers). Built once per loaded program.
type callSiteIndex struct {
	sites     map[*ssa.Function][]ssa.Instruction
	addrTaken map[*ssa.Function]bool
	iface     map[*ssa.Function]bool // methods that may be invoked through an interface of the module
}

var curSites *callSiteIndex

func buildCallSiteIndex(p *Prog) {
	ix := &callSiteIndex{sites: map[*ssa.Function][]ssa.Instruction{}, addrTaken: map[*ssa.Function]bool{}, iface: map[*ssa.Function]bool{}}
	ifaces := moduleInterfaces(p)
	for _, f := range p.Funcs {
		if f.Parent() != nil || f.Signature.Recv() == nil {
			continue
		}
		rt := f.Signature.Recv().Type()
		for _, it := range ifaces {
			has := false
			for i := 0; i < it.NumMethods(); i++ {
				if it.Method(i).Name() == f.Name() {
					has = true
				}
			}
			if has && (types.Implements(rt, it) || types.Implements(types.NewPointer(rt), it)) {
				ix.iface[f] = true
			}
		}
	}
	for _, f := range p.Funcs {
		instrsOf(f, func(in ssa.Instruction) {
			var calleeV ssa.Value
			if ci, ok := in.(ssa.CallInstruction); ok && !ci.Common().IsInvoke() {
				calleeV = ci.Common().Value
				if sc := ci.Common().StaticCallee(); sc != nil && inModule(sc) {
					if _, plain := in.(*ssa.Call); plain {
						ix.sites[sc] = append(ix.sites[sc], in)
					} else {
						ix.addrTaken[sc] = true // go / defer: facts of the spawning point do not carry over
					}
				}
			}
			for _, op := range in.Operands(nil) {
				if *op == nil || *op == calleeV {
					continue
				}
				if fn, ok := (*op).(*ssa.Function); ok {
					ix.addrTaken[fn] = true
				}
			}
		})
	}
	curSites = ix
	curProg = p
}

var curProg *Prog

// inheritedFacts: for an unexported helper that is only called statically, the facts
// that hold at every one of its call sites also hold throughout the helper (so that
// extracting statements into a helper does not lose the guards established by the caller).
func inheritedFacts(f *ssa.Function, depth int) []fact {
	if curSites == nil || f == nil || depth > 3 || f.Parent() != nil {
		return nil
	}
	if obj := f.Object(); obj == nil || obj.Exported() {
		return nil
	}
	if curSites.addrTaken[f] {
		return nil
	}
	sites := curSites.sites[f]
	if len(sites) != 1 {
		return nil
	}
	var acc []fact
	for i, s := range sites {
		fs := append(guardsOfBlock(s.Block()), inheritedFacts(s.Parent(), depth+1)...)
		if i == 0 {
			acc = fs
			continue
		}
		var keep []fact
		for _, a := range acc {
			for _, b := range fs {
				if a.Cond == b.Cond && a.Val == b.Val {
					keep = append(keep, a)
					break
				}
			}
		}
		acc = keep
	}
	return acc
}

func guardsOfBlock(blk *ssa.BasicBlock) []fact {
	var out []fact
	f := blk.Parent()
	for _, b := range f.Blocks {
		if len(b.Instrs) == 0 {
			continue
		}
		iff, ok := b.Instrs[len(b.Instrs)-1].(*ssa.If)
		if !ok {
			continue
		}
		for k, s := range b.Succs {
			if len(s.Preds) != 1 {
				continue
			}
			if b.Succs[0] == b.Succs[1] {
				continue
			}
			if s == blk || s.Dominates(blk) {
				ft := fact{Cond: iff.Cond, Val: k == 0, If: iff}
				out = append(out, ft)
				out = append(out, shortCircuitFacts(ft, 0)...)
			}
		}
	}
	return out
}

// shortCircuitFacts: a fact on a value computed by && or || (a phi of constants and one operand) implies the
// facts of its operands: (a && b) true gives a true and b true; (a || b) false gives a false and b false.
func shortCircuitFacts(ft fact, depth int) []fact {
	if depth > 4 {
		return nil
	}
	c, v := ft.Cond, ft.Val
	for {
		u, ok := c.(*ssa.UnOp)
		if ok && u.Op == token.NOT {
			c, v = u.X, !v
			continue
		}
		break
	}
	ph, ok := c.(*ssa.Phi)
	if !ok || ph.Type().String() != "bool" {
		return nil
	}
	var out []fact
	for i, e := range ph.Edges {
		if cst, isC := e.(*ssa.Const); isC {
			if cst.Value != nil && (cst.Value.String() == "true") == v {
				return nil // the constant edge may have produced this value: nothing is implied
			}
			continue
		}
		// the value came in on a non-constant edge: if there is exactly one, it has the value v
		nonConst := 0
		for _, e2 := range ph.Edges {
			if _, isC := e2.(*ssa.Const); !isC {
				nonConst++
			}
		}
		if nonConst != 1 {
			return nil
		}
		pred := ph.Block().Preds[i]
		f2 := fact{Cond: e, Val: v, If: ft.If}
		out = append(out, f2)
		out = append(out, shortCircuitFacts(f2, depth+1)...)
		out = append(out, guardsOfBlockNoExpand(pred)...)
		out = append(out, lastBranchFactCfg(pred, ph.Block())...)
	}
	return out
}

func lastBranchFactCfg(pred, succ *ssa.BasicBlock) []fact {
	iff, ok := pred.Instrs[len(pred.Instrs)-1].(*ssa.If)
	if !ok || pred.Succs[0] == pred.Succs[1] {
		return nil
	}
	if pred.Succs[0] == succ {
		return []fact{{Cond: iff.Cond, Val: true, If: iff}}
	}
	if pred.Succs[1] == succ {
		return []fact{{Cond: iff.Cond, Val: false, If: iff}}
	}
	return nil
}

func guardsOfBlockNoExpand(blk *ssa.BasicBlock) []fact {
	var out []fact
	f := blk.Parent()
	for _, b := range f.Blocks {
		if len(b.Instrs) == 0 {
			continue
		}
		iff, ok := b.Instrs[len(b.Instrs)-1].(*ssa.If)
		if !ok || b.Succs[0] == b.Succs[1] {
			continue
		}
		for k, s := range b.Succs {
			if len(s.Preds) == 1 && (s == blk || s.Dominates(blk)) {
				out = append(out, fact{Cond: iff.Cond, Val: k == 0, If: iff})
			}
		}
	}
	return out
}

// cmp is a normalised comparison: X op Y with op in {<, <=, ==, !=}.
type cmp struct {
	Op   token.Token
	X, Y ssa.Value
}

// normCmp normalises "cond == val" into a comparison (false if cond is not a comparison).
func normCmp(cond ssa.Value, val bool) (cmp, bool) {
	for i := 0; i < 8; i++ {
		u, ok := cond.(*ssa.UnOp)
		if ok && u.Op == token.NOT {
			cond = u.X
			val = !val
			continue
		}
		// the boolean result of a private helper / a local assigned once is the expression behind it
		if o := origin(cond); o != cond {
			cond = o
			continue
		}
		break
	}
	b, ok := cond.(*ssa.BinOp)
	if !ok {
		return cmp{}, false
	}
	op := b.Op
	switch op {
	case token.EQL, token.NEQ, token.LSS, token.LEQ, token.GTR, token.GEQ:
	default:
		return cmp{}, false
	}
	if !val {
		switch op {
		case token.EQL:
			op = token.NEQ
		case token.NEQ:
			op = token.EQL
		case token.LSS:
			op = token.GEQ
		case token.LEQ:
			op = token.GTR
		case token.GTR:
			op = token.LEQ
		case token.GEQ:
			op = token.LSS
		}
	}
	x, y := b.X, b.Y
	switch op {
	case token.GTR:
		op, x, y = token.LSS, y, x
	case token.GEQ:
		op, x, y = token.LEQ, y, x
	}
	return cmp{op, x, y}, true
}

// hasFact: some guard fact of in satisfies pred. For an instruction inside a private
// helper the fact may also be established by the callers: it then has to hold (in the
// matcher's sense) at every call site of the helper.
func hasFact(in ssa.Instruction, pred func(f fact) bool) bool {
	return hasFactRec(in, pred, 0) || hasFactOnPaths(in, pred)
}

// hasFactOnPaths: in a loop-free function, the fact holds before in on every feasible entry path (a flag
// variable set in the branches and tested afterwards correlates the later test with the earlier one; the
// path enumeration resolves the flag's phi per path and drops the contradictory combinations).
func hasFactOnPaths(in ssa.Instruction, pred func(f fact) bool) bool {
	ok, decided := everyPathTo(in, func(conds []fact) bool {
		for _, c := range conds {
			if pred(c) {
				return true
			}
		}
		return false
	})
	return ok && decided
}

type flatPaths struct {
	paths []upath
	ok    bool
}

var flatPathCache = map[*ssa.Function]*flatPaths{}

// everyPathTo: accept holds for the branch facts collected before in on every feasible path of in's function
// that reaches it. decided is false when the function has loops or too many paths.
func everyPathTo(in ssa.Instruction, accept func(conds []fact) bool) (ok, decided bool) {
	f := in.Parent()
	if f == nil {
		return false, false
	}
	ent := flatPathCache[f]
	if ent == nil {
		ps, pok := enumPathsFlat(f, 2000)
		ent = &flatPaths{ps, pok}
		flatPathCache[f] = ent
	}
	if !ent.ok {
		return false, false
	}
	found := false
	for i := range ent.paths {
		p := &ent.paths[i]
		idx := p.indexOf(in)
		if idx < 0 {
			continue
		}
		found = true
		n := 0
		for _, x := range p.Instrs[:idx] {
			if _, isIf := x.(*ssa.If); isIf {
				n++
			}
		}
		if n > len(p.Conds) {
			n = len(p.Conds)
		}
		if !accept(p.Conds[:n]) {
			return false, true
		}
	}
	return found, true
}

// everyUnitPathToResolved: everyUnitPathTo, always on unit paths with the conditions resolved along the path (a
// boolean kept in a variable is the comparison or constant it was assigned on that path).
func everyUnitPathToResolved(root *ssa.Function, in ssa.Instruction, accept func(conds []fact) bool) (ok, decided bool) {
	forceUnitPaths = true
	defer func() { forceUnitPaths = false }()
	return everyUnitPathTo(root, in, accept)
}

var forceUnitPaths bool

// everyUnitPathTo: like everyPathTo, over the paths of root with its private helpers inlined (in may sit in a helper).
func everyUnitPathTo(root *ssa.Function, in ssa.Instruction, accept func(conds []fact) bool) (ok, decided bool) {
	flatOK, flatDecided := false, false
	if in.Parent() == root && !forceUnitPaths {
		flatOK, flatDecided = everyPathTo(in, accept)
		if flatOK && flatDecided {
			return true, true
		}
	}
	ps, pok := enumPathsU(root, 4000)
	if !pok {
		return flatOK, flatDecided
	}
	found := false
	for i := range ps {
		p := &ps[i]
		idx := p.indexOf(in)
		if idx < 0 {
			continue
		}
		found = true
		// the conditions as seen on the path: a test of a helper's result is the test of the value the helper
		// returned on this path (if l.filteredOut(buf): filter != nil && !filter(buf))
		var conds []fact
		n := 0
		for j, x := range p.Instrs[:idx] {
			if _, isIf := x.(*ssa.If); isIf {
				if n < len(p.Conds) {
					ft := p.Conds[n]
					cv, val := ft.Cond, ft.Val
					for k := 0; k < 6; k++ {
						r := p.valueAt(cv, j)
						if u, isU := r.(*ssa.UnOp); isU && u.Op == token.NOT {
							cv, val = u.X, !val
							continue
						}
						cv = r
						break
					}
					conds = append(conds, fact{Cond: cv, Val: val, If: ft.If})
					if cv != ft.Cond {
						conds = append(conds, ft)
					}
				}
				n++
			}
		}
		if !accept(conds) {
			return false, true
		}
	}
	return found, found
}

func hasFactRec(in ssa.Instruction, pred func(f fact) bool, depth int) bool {
	gs := guardsOfBlock(in.Block())
	for _, f := range gs {
		if pred(f) {
			return true
		}
	}
	// a fact on a result of a private helper ("ok" of a comma-ok helper) implies what holds at every
	// return of the helper that is compatible with it
	for _, f := range gs {
		if call, rets := helperResultFact(f); call != nil && len(rets) > 0 && depth <= 3 {
			all := true
			for _, r := range rets {
				if !hasFactRec(r, pred, depth+1+4) { // +4: do not climb back to the call sites from inside the helper
					all = false
					break
				}
			}
			if all {
				return true
			}
		}
	}
	// a boolean helper that returns a combination (return ok && accepting): with the result known, every leaf of
	// the returned value that can produce it carries its own edge facts, and the leaf itself has that value
	for _, f := range gs {
		if depth > 3 {
			break
		}
		if leaves := helperBoolLeafFacts(f); len(leaves) > 0 {
			all := true
			// the helper's parameters stand for the arguments of this very call
			withSite(helperBoolCall(f), func() {
				for _, lf := range leaves {
					one := false
					for _, x := range lf {
						if pred(x) {
							one = true
							break
						}
					}
					if !one {
						all = false
						break
					}
				}
			})
			if all {
				return true
			}
		}
	}
	fn := in.Parent()
	if depth > 3 || !isPrivateHelper(fn) {
		return false
	}
	sites := curSites.sites[fn]
	if scanRoot != nil {
		// inside the unit being scanned only the call sites of that unit count
		var inRoot []ssa.Instruction
		for _, s := range sites {
			for _, g := range unitOf(scanRoot) {
				if s.Parent() == g {
					inRoot = append(inRoot, s)
				}
			}
		}
		if len(inRoot) > 0 {
			sites = inRoot
		}
	}
	if len(sites) == 0 {
		return false
	}
	for _, s := range sites {
		if !hasFactRec(s, pred, depth+1) {
			return false
		}
	}
	return true
}

// boolFact matches a fact on a boolean value (through negations).
func boolFact(f fact, match func(v ssa.Value) bool, want bool) bool {
	c, v := f.Cond, f.Val
	// the condition may be the result of a private helper (s.contains(key)): the value it returns is matched
	// with the helper's parameters standing for the arguments of that very call
	var site ssa.Instruction
	m := func(x ssa.Value) bool {
		if site == nil {
			return match(x)
		}
		r := false
		withSite(site, func() { r = match(x) })
		return r
	}
	for i := 0; i < 8; i++ {
		u, ok := c.(*ssa.UnOp)
		if ok && u.Op == token.NOT {
			c = u.X
			v = !v
			continue
		}
		if o := origin(c); o != c {
			if v == want && m(c) {
				return true
			}
			if call, isCall := c.(*ssa.Call); isCall && helperCallee(call) != nil && site == nil {
				if oi, isI := o.(ssa.Instruction); isI && oi.Parent() == helperCallee(call) {
					site = call
				}
			}
			c = o
			continue
		}
		break
	}
	return v == want && m(c)
}

// nilFact: fact "X == nil" (isNil true) or "X != nil" for a value matching m.
func nilFact(f fact, m func(v ssa.Value) bool, isNil bool) bool {
	c, ok := normCmp(f.Cond, f.Val)
	if !ok {
		return false
	}
	var other ssa.Value
	if isNilConst(c.X) {
		other = c.Y
	} else if isNilConst(c.Y) {
		other = c.X
	} else {
		return false
	}
	if !m(other) {
		return false
	}
	if isNil {
		return c.Op == token.EQL
	}
	return c.Op == token.NEQ
}

// edgeCut: is target unreachable from the entry once the given CFG edges are removed?
type cfgEdge struct{ from, to *ssa.BasicBlock }

func unreachableWithout(f *ssa.Function, target ssa.Instruction, cut []cfgEdge) bool {
	seen := map[*ssa.BasicBlock]bool{}
	var walk func(b *ssa.BasicBlock)
	walk = func(b *ssa.BasicBlock) {
		if seen[b] {
			return
		}
		seen[b] = true
	succ:
		for _, s := range b.Succs {
			for _, c := range cut {
				if c.from == b && c.to == s {
					continue succ
				}
			}
			walk(s)
		}
	}
	walk(f.Blocks[0])
	return !seen[target.Block()]
}

// maxEvents computes the maximal number of events on any path that starts at start and
// ends at (does not continue past) an instruction with end(in) true or a function exit.
// inf is true when a cycle inside the region contains an event.
func maxEvents(start ipos, end func(ssa.Instruction) bool, event func(ssa.Instruction) int) (max int, inf bool) {
	// nodes: (block, startIndex) where startIndex is 0 or start.i for the start block.
	type node struct {
		b *ssa.BasicBlock
		i int
	}
	weight := map[node]int{}
	succs := map[node][]node{}
	var order []node
	var build func(n node)
	build = func(n node) {
		if _, ok := weight[n]; ok {
			return
		}
		w := 0
		stopped := false
		for i := n.i; i < len(n.b.Instrs); i++ {
			in := n.b.Instrs[i]
			if end != nil && end(in) {
				stopped = true
				break
			}
			w += event(in)
		}
		weight[n] = w
		order = append(order, n)
		if stopped {
			return
		}
		for _, s := range n.b.Succs {
			sn := node{s, 0}
			succs[n] = append(succs[n], sn)
			build(sn)
		}
	}
	st := node{start.b, start.i}
	build(st)
	// Tarjan SCC
	index := map[node]int{}
	low := map[node]int{}
	onStack := map[node]bool{}
	var stack []node
	comp := map[node]int{}
	ncomp := 0
	idx := 0
	var sc func(v node)
	sc = func(v node) {
		index[v] = idx
		low[v] = idx
		idx++
		stack = append(stack, v)
		onStack[v] = true
		for _, w := range succs[v] {
			if _, ok := index[w]; !ok {
				sc(w)
				if low[w] < low[v] {
					low[v] = low[w]
				}
			} else if onStack[w] && index[w] < low[v] {
				low[v] = index[w]
			}
		}
		if low[v] == index[v] {
			for {
				w := stack[len(stack)-1]
				stack = stack[:len(stack)-1]
				onStack[w] = false
				comp[w] = ncomp
				if w == v {
					break
				}
			}
			ncomp++
		}
	}
	sc(st)
	cw := make([]int, ncomp)
	csize := make([]int, ncomp)
	selfLoop := make([]bool, ncomp)
	for n, c := range comp {
		cw[c] += weight[n]
		csize[c]++
		for _, s := range succs[n] {
			if s == n {
				selfLoop[c] = true
			}
		}
	}
	for c := 0; c < ncomp; c++ {
		if (csize[c] > 1 || selfLoop[c]) && cw[c] > 0 {
			inf = true
		}
	}
	// components are numbered in reverse topological order (sinks first)
	best := make([]int, ncomp)
	csucc := make([]map[int]bool, ncomp)
	for n, c := range comp {
		for _, s := range succs[n] {
			if comp[s] != c {
				if csucc[c] == nil {
					csucc[c] = map[int]bool{}
				}
				csucc[c][comp[s]] = true
			}
		}
	}
	for c := 0; c < ncomp; c++ {
		m := 0
		for s := range csucc[c] {
			if best[s] > m {
				m = best[s]
			}
		}
		best[c] = cw[c] + m
	}
	return best[comp[st]], inf
}

// minEvents: minimal number of events on a path from start to an instruction with
// end(in) true (paths that leave the function otherwise are ignored when onlyEnd).
func minEventsToExit(start ipos, exit func(ssa.Instruction) bool, event func(ssa.Instruction) int) (min int, found bool) {
	type node struct {
		b *ssa.BasicBlock
		i int
	}
	const big = 1 << 30
	dist := map[node]int{}
	best := big
	// Dijkstra-ish with small weights: simple relaxation to fixpoint
	type item struct {
		n node
		d int
	}
	work := []item{{node{start.b, start.i}, 0}}
	for len(work) > 0 {
		it := work[0]
		work = work[1:]
		if d, ok := dist[it.n]; ok && d <= it.d {
			continue
		}
		dist[it.n] = it.d
		d := it.d
		ended := false
		for i := it.n.i; i < len(it.n.b.Instrs); i++ {
			in := it.n.b.Instrs[i]
			if exit(in) {
				if d < best {
					best = d
				}
				ended = true
				break
			}
			d += event(in)
		}
		if ended {
			continue
		}
		for _, s := range it.n.b.Succs {
			work = append(work, item{node{s, 0}, d})
		}
	}
	if best == big {
		return 0, false
	}
	return best, true
}

// path enumeration -------------------------------------------------------------

// cfgPath is an acyclic path through a function: the sequence of blocks and, for each
// conditional branch taken, the condition value.
type cfgPath struct {
	Blocks []*ssa.BasicBlock
	Conds  []fact
}

func (p cfgPath) instrs() []ssa.Instruction {
	var out []ssa.Instruction
	for _, b := range p.Blocks {
		out = append(out, b.Instrs...)
	}
	return out
}

// enumPaths enumerates all acyclic entry→exit paths (each block at most once per path).
// ok is false when there are more than limit paths or the function has a loop that is
// actually traversed (a block would repeat).
func enumPaths(f *ssa.Function, limit int) (paths []cfgPath, ok bool) {
	ok = true
	var cur cfgPath
	on := map[*ssa.BasicBlock]bool{}
	var rec func(b *ssa.BasicBlock)
	rec = func(b *ssa.BasicBlock) {
		if !ok {
			return
		}
		if on[b] {
			ok = false // loop
			return
		}
		on[b] = true
		cur.Blocks = append(cur.Blocks, b)
		last := b.Instrs[len(b.Instrs)-1]
		switch l := last.(type) {
		case *ssa.Return, *ssa.Panic:
			cp := cfgPath{Blocks: append([]*ssa.BasicBlock(nil), cur.Blocks...), Conds: append([]fact(nil), cur.Conds...)}
			paths = append(paths, cp)
			if len(paths) > limit {
				ok = false
			}
		case *ssa.If:
			for k, s := range b.Succs {
				cur.Conds = append(cur.Conds, fact{Cond: l.Cond, Val: k == 0, If: l})
				rec(s)
				cur.Conds = cur.Conds[:len(cur.Conds)-1]
			}
		default:
			for _, s := range b.Succs {
				rec(s)
			}
		}
		cur.Blocks = cur.Blocks[:len(cur.Blocks)-1]
		on[b] = false
	}
	rec(f.Blocks[0])
	return paths, ok
}

// event summaries ------------------------------------------------------------------

// mustDo lifts an instruction predicate over calls: the result is true for an
// instruction that satisfies pred, or that is a plain static call of a module function
// on every entry→return path of which an instruction satisfying the lifted predicate
// is executed (so extracting a helper does not change a verdict).
func mustDo(p *Prog, pred func(ssa.Instruction) bool) func(ssa.Instruction) bool {
	memo := map[*ssa.Function]int{} // 0 unknown, 1 in progress, 2 yes, 3 no
	var lifted func(in ssa.Instruction) bool
	var fnMust func(f *ssa.Function) bool
	fnMust = func(f *ssa.Function) bool {
		switch memo[f] {
		case 1, 3:
			return false
		case 2:
			return true
		}
		memo[f] = 1
		ok, _ := mustPass(entryPos(f), isReturn, lifted)
		if ok {
			memo[f] = 2
		} else {
			memo[f] = 3
		}
		return ok
	}
	lifted = func(in ssa.Instruction) bool {
		if pred(in) {
			return true
		}
		if c, ok := in.(*ssa.Call); ok {
			if sc := c.Call.StaticCallee(); sc != nil && inModule(sc) && len(sc.Blocks) > 0 {
				return fnMust(sc)
			}
		}
		return false
	}
	return lifted
}

// mayDo: true for an instruction that satisfies pred or is a call (static, go, defer)
// of a module function in which some instruction (transitively) may satisfy it.
func mayDo(p *Prog, pred func(ssa.Instruction) bool) func(ssa.Instruction) bool {
	memo := map[*ssa.Function]int{}
	var lifted func(in ssa.Instruction) bool
	var fnMay func(f *ssa.Function) bool
	fnMay = func(f *ssa.Function) bool {
		switch memo[f] {
		case 1, 3:
			return false
		case 2:
			return true
		}
		memo[f] = 1
		res := false
		instrsOf(f, func(in ssa.Instruction) {
			if !res && lifted(in) {
				res = true
			}
		})
		if res {
			memo[f] = 2
		} else {
			memo[f] = 3
		}
		return res
	}
	lifted = func(in ssa.Instruction) bool {
		if pred(in) {
			return true
		}
		if c, ok := in.(ssa.CallInstruction); ok {
			if sc := c.Common().StaticCallee(); sc != nil && inModule(sc) && len(sc.Blocks) > 0 {
				return fnMay(sc)
			}
		}
		return false
	}
	return lifted
}

// timeOrder normalises comparisons of time.Time values: it reports whether the fact
// establishes "x is strictly after y" (res=+1), "x is not after y" (res=-1) for the pair
// of values matched by mx/my; both a.After(b) and b.Before(a) spellings are understood.
func timeOrderFact(f fact, mx, my func(ssa.Value) bool) int {
	c, v := f.Cond, f.Val
	for {
		u, ok := c.(*ssa.UnOp)
		if ok && u.Op == token.NOT {
			c, v = u.X, !v
			continue
		}
		break
	}
	call, ok := c.(*ssa.Call)
	if !ok || len(call.Call.Args) != 2 {
		return 0
	}
	a, b := call.Call.Args[0], call.Call.Args[1]
	var xAfterY bool
	switch callName(call) {
	case "(time.Time).After": // a after b
		if mx(a) && my(b) {
			xAfterY = true
		} else {
			return 0
		}
	case "(time.Time).Before": // a before b  <=> b after a
		if mx(b) && my(a) {
			xAfterY = true
		} else {
			return 0
		}
	default:
		return 0
	}
	_ = xAfterY
	if v {
		return 1
	}
	return -1
}

// helperResultFact: the fact is about a boolean (or nil-comparable) result of a call of a private helper;
// returns the call and the helper's returns that are compatible with the fact.
func helperResultFact(f fact) (*ssa.Call, []ssa.Instruction) {
	c, v := f.Cond, f.Val
	for i := 0; i < 8; i++ {
		if u, ok := c.(*ssa.UnOp); ok && u.Op == token.NOT {
			c, v = u.X, !v
			continue
		}
		break
	}
	var call *ssa.Call
	idx := 0
	nilCmp, wantNil := false, false
	if cv, eq, isCmp := nilCmpOf(c); isCmp {
		// err == nil / err != nil on an error (or pointer) result of a helper
		nilCmp, wantNil = true, eq == v
		c = cv
	}
	switch x := c.(type) {
	case *ssa.Call:
		call = x
	case *ssa.Extract:
		call, _ = x.Tuple.(*ssa.Call)
		idx = x.Index
	}
	if call == nil {
		return nil, nil
	}
	h := helperCallee(call)
	if h == nil {
		return nil, nil
	}
	var rets []ssa.Instruction
	if nilCmp {
		for _, ret := range findInstrs(h, isReturn) {
			if h.Recover != nil && ret.Block() == h.Recover {
				continue
			}
			compatible := false
			for _, rv := range retValAt(ret.(*ssa.Return), idx) {
				for _, leaf := range phiLeaves(rv) {
					cls := classifyResult(leaf)
					if cls == 0 {
						// "if err != nil { return err }"
						for _, g := range guardsOfBlockNoExpand(ret.Block()) {
							if gv, eq, isC := nilCmpOf(g.Cond); isC && gv == leaf {
								if eq == g.Val {
									cls = 1
								} else {
									cls = 2
								}
							}
						}
					}
					switch cls {
					case 1:
						if wantNil {
							compatible = true
						}
					case 2:
						if !wantNil {
							compatible = true
						}
					default:
						compatible = true
					}
				}
			}
			if compatible {
				rets = append(rets, ret)
			}
		}
		return call, rets
	}
	for _, ret := range findInstrs(h, isReturn) {
		if h.Recover != nil && ret.Block() == h.Recover {
			continue
		}
		ok := true
		for _, rv := range retValAt(ret.(*ssa.Return), idx) {
			for _, leaf := range phiLeaves(rv) {
				if isConstBool(leaf, !v) {
					ok = false
				} else {
					ok = true
					break
				}
			}
		}
		if ok {
			rets = append(rets, ret)
		}
	}
	return call, rets
}

// allFactsAt: the guard facts of in, what they imply about a boolean helper's operands when only one leaf of the
// helper's result is compatible, and - for an instruction of a private helper with a single call site - the facts
// holding at that call site.
func allFactsAt(in ssa.Instruction, depth int) []fact {
	gs := append([]fact{}, guardsOfBlock(in.Block())...)
	for _, f := range append([]fact{}, gs...) {
		if lf := helperBoolLeafFacts(f); len(lf) == 1 {
			gs = append(gs, lf[0]...)
		}
	}
	fn := in.Parent()
	if depth < 3 && isPrivateHelper(fn) {
		if sites := curSites.sites[fn]; len(sites) == 1 {
			gs = append(gs, allFactsAt(sites[0], depth+1)...)
		}
	}
	return gs
}

// helperBoolCall: the call of a private helper whose boolean result the fact is about (nil if none).
func helperBoolCall(f fact) ssa.Instruction {
	c := f.Cond
	for i := 0; i < 8; i++ {
		if u, ok := c.(*ssa.UnOp); ok && u.Op == token.NOT {
			c = u.X
			continue
		}
		break
	}
	if call, ok := c.(*ssa.Call); ok && helperCallee(call) != nil {
		return call
	}
	return nil
}

// helperBoolLeafFacts: for a fact on the boolean result of a private helper, what is known for each leaf of the
// returned values that is compatible with it: the facts of the edge on which the leaf is chosen, the guards of
// the return, and the leaf's own value.
func helperBoolLeafFacts(f fact) [][]fact {
	c, v := f.Cond, f.Val
	for i := 0; i < 8; i++ {
		if u, ok := c.(*ssa.UnOp); ok && u.Op == token.NOT {
			c, v = u.X, !v
			continue
		}
		break
	}
	call, ok := c.(*ssa.Call)
	if !ok {
		return nil
	}
	h := helperCallee(call)
	if h == nil || h.Signature.Results().Len() != 1 || !isBoolType(h.Signature.Results().At(0).Type()) {
		return nil
	}
	var out [][]fact
	for _, ret := range findInstrs(h, isReturn) {
		if h.Recover != nil && ret.Block() == h.Recover {
			continue
		}
		for _, rv := range retValAt(ret.(*ssa.Return), 0) {
			for _, lf := range phiLeavesWithPred(rv) {
				if isConstBool(lf.v, !v) {
					continue
				}
				facts := append([]fact{}, guardsOfBlock(ret.Block())...)
				if lf.pred != nil {
					facts = append(facts, lf.edgeFacts()...)
				}
				if _, isC := lf.v.(*ssa.Const); !isC {
					facts = append(facts, fact{Cond: lf.v, Val: v})
				}
				out = append(out, facts)
			}
		}
	}
	return out
}

// originAt: like origin, and a result of a private helper with several returns is the value of the only
// return that is compatible with the facts holding at `at` about the other results of the same call
// (chunk, ok := locate(i); if ok { use chunk }).
func originAt(v ssa.Value, at ssa.Instruction) ssa.Value {
	v = origin(v)
	ex, ok := v.(*ssa.Extract)
	if !ok || at == nil {
		return v
	}
	call, ok := ex.Tuple.(*ssa.Call)
	if !ok || helperCallee(call) == nil {
		return v
	}
	var cand []ssa.Instruction
	first := true
	for _, f := range guardsOfBlock(at.Block()) {
		c2, rets := helperResultFact(f)
		if c2 != call {
			continue
		}
		if first {
			cand, first = rets, false
			continue
		}
		var keep []ssa.Instruction
		for _, a := range cand {
			for _, b := range rets {
				if a == b {
					keep = append(keep, a)
				}
			}
		}
		cand = keep
	}
	if first || len(cand) != 1 {
		return v
	}
	rv := retValAt(cand[0].(*ssa.Return), ex.Index)
	if len(rv) != 1 {
		return v
	}
	return origin(rv[0])
}

func resetFlatPaths() {
	flatPathCache = map[*ssa.Function]*flatPaths{}
	funcVarCache = map[*ssa.Global]*ssa.Function{}
}
