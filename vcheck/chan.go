package main

// Channel / select helpers and the channel-discipline rules (engine E9).

import (
	"go/token"
	"go/types"

	"golang.org/x/tools/go/ssa"
)

// selCase describes one communication of a select (or a plain send / receive).
type selCase struct {
	Sel   *ssa.Select // nil for plain operations
	Index int
	Dir   types.ChanDir // SendOnly or RecvOnly
	Chan  ssa.Value
	Send  ssa.Value
	Instr ssa.Instruction // the select / send / receive instruction
}

// commsOf lists every channel communication of f.
func commsOf(f *ssa.Function) []selCase {
	var out []selCase
	instrsOf(f, func(in ssa.Instruction) {
		switch x := in.(type) {
		case *ssa.Select:
			for i, st := range x.States {
				out = append(out, selCase{Sel: x, Index: i, Dir: st.Dir, Chan: st.Chan, Send: st.Send, Instr: x})
			}
		case *ssa.Send:
			out = append(out, selCase{Index: -1, Dir: types.SendOnly, Chan: x.Chan, Send: x.X, Instr: x})
		case *ssa.UnOp:
			if x.Op == token.ARROW {
				out = append(out, selCase{Index: -1, Dir: types.RecvOnly, Chan: x.X, Instr: x})
			}
		}
	})
	return out
}

// caseBlock returns the block executed when case k of the select fires, and the block
// of the default branch (nil for blocking selects). The SSA builder tests the index
// with a chain of "index == k" branches.
func caseBlocks(sel *ssa.Select) (cases map[int]*ssa.BasicBlock, deflt *ssa.BasicBlock) {
	cases = map[int]*ssa.BasicBlock{}
	var idx ssa.Value
	for _, r := range *sel.Referrers() {
		if e, ok := r.(*ssa.Extract); ok && e.Index == 0 {
			idx = e
		}
	}
	if idx == nil {
		return
	}
	for _, r := range *idx.Referrers() {
		b, ok := r.(*ssa.BinOp)
		if !ok || b.Op != token.EQL {
			continue
		}
		k, ok := constInt(b.Y)
		if !ok {
			continue
		}
		for _, rr := range *b.Referrers() {
			if iff, ok := rr.(*ssa.If); ok {
				cases[int(k)] = iff.Block().Succs[0]
				// the else of the last comparison is the default (non-blocking) or unreachable panic (blocking)
				if int(k) == len(sel.States)-1 && !sel.Blocking {
					deflt = iff.Block().Succs[1]
				}
			}
		}
	}
	return
}

// chanRole classifies where a channel value comes from.
//
//	"field T.F"      load of a struct field
//	"done T.F"       result of (*deadline.Deadline).Done() on the value of field F
//	"ctx.Done"       result of Done() on a context.Context
//	"timer.C T.F"    field C of a *time.Timer held in field F
//	"time.After"     result of time.After
func chanRole(v ssa.Value) string {
	v = strip(v)
	if fr, ok := asFieldLoad(v); ok {
		if fr.SName == "time.Timer" && fr.Field == "C" {
			if in, ok2 := asFieldLoad(fr.Base); ok2 {
				return "timer.C " + in.SName + "." + in.Field
			}
			return "timer.C local"
		}
		if fr.SName == "time.Ticker" && fr.Field == "C" {
			return "ticker.C"
		}
		return "field " + fr.SName + "." + fr.Field
	}
	if call, ok := v.(*ssa.Call); ok {
		n := callName(call)
		switch {
		case n == "(*deadline.Deadline).Done":
			if fr, ok := asFieldLoad(call.Call.Args[0]); ok {
				return "done " + fr.SName + "." + fr.Field
			}
			return "done ?"
		case n == "invoke (context.Context).Done":
			return "ctx.Done"
		case n == "time.After":
			return "time.After"
		}
		return "call " + n
	}
	if p, ok := v.(*ssa.Parameter); ok {
		return "param " + p.Name()
	}
	if u, ok := v.(*ssa.UnOp); ok && u.Op == token.MUL {
		return "var " + accessPath(u.X)
	}
	if fv, ok := v.(*ssa.FreeVar); ok {
		return "var " + fv.Name()
	}
	return "other"
}

// isNonBlockingSendOn: in is a select with default whose only communication is a send on a channel with the given role.
func isNonBlockingSendOn(in ssa.Instruction, role string) bool {
	sel, ok := in.(*ssa.Select)
	if !ok || sel.Blocking {
		return false
	}
	for _, st := range sel.States {
		if st.Dir == types.SendOnly && chanRole(st.Chan) == role {
			return true
		}
	}
	return false
}

// makeChanCap returns the constant capacity of channels stored into struct field T.F
// anywhere in the program (one entry per store).
type chanMake struct {
	Cap   int64
	Const bool
	Pos   token.Pos
	Fn    *ssa.Function
}

func chanMakesForField(p *Prog, sname, field string) []chanMake {
	var out []chanMake
	for _, f := range p.Funcs {
		instrsOf(f, func(in ssa.Instruction) {
			st, ok := in.(*ssa.Store)
			if !ok {
				return
			}
			fr, ok := asFieldAddr(st.Addr)
			if !ok || fr.SName != sname || fr.Field != field {
				return
			}
			mc, ok := strip(st.Val).(*ssa.MakeChan)
			if !ok {
				out = append(out, chanMake{Cap: -1, Pos: st.Pos(), Fn: f})
				return
			}
			c, isConst := constInt(mc.Size)
			out = append(out, chanMake{Cap: c, Const: isConst, Pos: st.Pos(), Fn: f})
		})
	}
	return out
}
