package main

// Propositional comparison of a branching region with a specification: the region's
// branch conditions are normalised to linear atoms (lin.go); every assignment of truth
// values to the distinct atoms is followed through the region to a classified exit and
// compared with the specification's verdict (exact: a finite truth table, no sampling
// of program inputs).

import (
	"fmt"
	"strings"

	"golang.org/x/tools/go/ssa"
)

type decisionRegion struct {
	Atoms []atom
	// walk follows an assignment (atom index -> value) from the start to a class.
	start    ipos
	classify func(in ssa.Instruction) string // "" = keep going
	sym      symNamer
	Problems []string
}

func (d *decisionRegion) atomIndex(a atom) (idx int, pol bool) {
	for i, x := range d.Atoms {
		if x.Eq == a.Eq && x.Form.eq(a.Form) {
			return i, true
		}
		if !x.Eq && !a.Eq && negAtom(x).Form.eq(a.Form) {
			return i, false
		}
	}
	d.Atoms = append(d.Atoms, a)
	return len(d.Atoms) - 1, true
}

// collect discovers the atoms of all branches reachable before classification.
func (d *decisionRegion) collect() {
	seen := map[*ssa.BasicBlock]bool{}
	var walk func(p ipos)
	walk = func(p ipos) {
		if p.i == 0 {
			if seen[p.b] {
				return
			}
			seen[p.b] = true
		}
		for i := p.i; i < len(p.b.Instrs); i++ {
			in := p.b.Instrs[i]
			if d.classify(in) != "" {
				return
			}
			if iff, ok := in.(*ssa.If); ok {
				a, _, ok := atomOf(iff.Cond, true, d.sym)
				if !ok {
					// boolean condition (field / call): use an equality-style pseudo atom
					a = atom{Form: linSym("bool:" + boolName(iff.Cond)), Eq: true}
				}
				if !a.Form.OK {
					d.Problems = append(d.Problems, fmt.Sprintf("non-linear branch condition %s", iff.Cond))
				}
				d.atomIndex(a)
			}
		}
		for _, s := range p.b.Succs {
			walk(ipos{s, 0})
		}
	}
	walk(d.start)
}

func boolName(v ssa.Value) string {
	neg := ""
	for {
		u, ok := v.(*ssa.UnOp)
		if ok && u.Op.String() == "!" {
			v = u.X
			if neg == "" {
				neg = "!"
			} else {
				neg = ""
			}
			continue
		}
		break
	}
	if s, ok := defaultSym(v); ok {
		return neg + s
	}
	return neg + v.Name()
}

// eval follows one assignment; returns the class reached ("" + problem on loops).
func (d *decisionRegion) eval(assign []bool) string {
	p := d.start
	steps := 0
	for {
		steps++
		if steps > 200 {
			return "?loop"
		}
		var next *ssa.BasicBlock
		for i := p.i; i < len(p.b.Instrs); i++ {
			in := p.b.Instrs[i]
			if c := d.classify(in); c != "" {
				return c
			}
			if iff, ok := in.(*ssa.If); ok {
				a, pol, ok := atomOf(iff.Cond, true, d.sym)
				if !ok {
					a = atom{Form: linSym("bool:" + boolName(iff.Cond)), Eq: true}
					pol = true
					if strings.HasPrefix(boolName(iff.Cond), "!") {
						a = atom{Form: linSym("bool:" + boolName(iff.Cond)[1:]), Eq: true}
						pol = false
					}
				}
				idx, p2 := d.atomIndex(a)
				val := assign[idx]
				if !p2 {
					val = !val
				}
				if !pol {
					val = !val
				}
				if val {
					next = p.b.Succs[0]
				} else {
					next = p.b.Succs[1]
				}
			}
		}
		if next == nil {
			if len(p.b.Succs) == 1 {
				next = p.b.Succs[0]
			} else {
				return "?end"
			}
		}
		p = ipos{next, 0}
	}
}

// compareWithSpec enumerates all assignments and compares with spec; returns a
// counterexample description or "".
func (d *decisionRegion) compareWithSpec(spec func(val func(a atom) bool) string) string {
	d.collect()
	n := len(d.Atoms)
	if n > 12 {
		return fmt.Sprintf("too many distinct branch atoms (%d)", n)
	}
	for m := 0; m < 1<<n; m++ {
		assign := make([]bool, n)
		for i := range assign {
			assign[i] = m&(1<<i) != 0
		}
		got := d.eval(assign)
		want := spec(func(a atom) bool {
			for i, x := range d.Atoms {
				if x.Eq == a.Eq && x.Form.eq(a.Form) {
					return assign[i]
				}
				if !x.Eq && !a.Eq && negAtom(x).Form.eq(a.Form) {
					return !assign[i]
				}
			}
			return false // atom of the specification never tested by the code
		})
		if got != want {
			var parts []string
			for i, x := range d.Atoms {
				parts = append(parts, fmt.Sprintf("[%s]=%v", x, assign[i]))
			}
			return fmt.Sprintf("with %s the code goes to %q but the rule requires %q", strings.Join(parts, " "), got, want)
		}
	}
	return ""
}

// specAtomUsed reports whether some atom of the region equals a.
func (d *decisionRegion) has(a atom) bool {
	for _, x := range d.Atoms {
		if x.Eq == a.Eq && x.Form.eq(a.Form) {
			return true
		}
		if !x.Eq && !a.Eq && negAtom(x).Form.eq(a.Form) {
			return true
		}
	}
	return false
}
