package main

// Propositional comparison of a branching region with a specification: the region's
// branch conditions are normalised to linear atoms (lin.go); every assignment of truth
// values to the distinct atoms is followed through the region to a classified exit and
// compared with the specification's verdict (exact: a finite truth table, no sampling
// of program inputs).

import (
	"fmt"
	"strings"

	"golang.org/x/tools/go/ssa"
)

type decisionRegion struct {
	Atoms []atom
	// walk follows an assignment (atom index -> value) from the start to a class.
	start    ipos
	classify func(in ssa.Instruction) string // "" = keep going
	sym      symNamer
	Problems []string
}

func (d *decisionRegion) atomIndex(a atom) (idx int, pol bool) {
	for i, x := range d.Atoms {
		if x.Eq == a.Eq && x.Form.eq(a.Form) {
			return i, true
		}
		if !x.Eq && !a.Eq && negAtom(x).Form.eq(a.Form) {
			return i, false
		}
	}
	d.Atoms = append(d.Atoms, a)
	return len(d.Atoms) - 1, true
}

// collect discovers the atoms of all branches reachable before classification.
func (d *decisionRegion) collect() {
	seen := map[*ssa.BasicBlock]bool{}
	inHelper := map[*ssa.Function]bool{}
	var walk func(p ipos)
	walk = func(p ipos) {
		if p.i == 0 {
			if seen[p.b] {
				return
			}
			seen[p.b] = true
		}
		for i := p.i; i < len(p.b.Instrs); i++ {
			in := p.b.Instrs[i]
			if _, isRet := in.(*ssa.Return); isRet && inHelper[in.Parent()] {
				return // back to the caller, whose walk continues after the call
			}
			if d.classify(in) != "" {
				return
			}
			if h := stmtHelper(in); h != nil && !inHelper[h] {
				// a private helper called for its effect: its branches belong to the region
				inHelper[h] = true
				walk(entryPos(h))
			}
			if iff, ok := in.(*ssa.If); ok {
				if h := boolHelper(iff.Cond); h != nil {
					// the condition is computed by a private helper: its branches belong to the region
					if !inHelper[h] {
						inHelper[h] = true
						walk(entryPos(h))
					}
					continue
				}
				if _, isPhi := stripNot(iff.Cond).(*ssa.Phi); isPhi {
					continue // short-circuit value: its operands were branched on before
				}
				a, _, ok := atomOf(iff.Cond, true, d.sym)
				if !ok {
					// boolean condition (field / call): use an equality-style pseudo atom
					a = atom{Form: linSym("bool:" + boolName(iff.Cond)), Eq: true}
				}
				if !a.Form.OK {
					d.Problems = append(d.Problems, fmt.Sprintf("non-linear branch condition %s", iff.Cond))
				}
				d.atomIndex(a)
			}
			for _, res := range returnResults(in) {
				// a helper returning a comparison: its atom belongs to the region
				if res.Type().String() != "bool" {
					continue
				}
				for _, leaf := range phiLeaves(res) {
					if _, isC := leaf.(*ssa.Const); isC {
						continue
					}
					if a, _, ok := atomOf(leaf, true, d.sym); ok && a.Form.OK {
						d.atomIndex(a)
					}
				}
			}
		}
		for _, s := range p.b.Succs {
			walk(ipos{s, 0})
		}
	}
	walk(d.start)
}

func stripNot(v ssa.Value) ssa.Value {
	for {
		u, ok := v.(*ssa.UnOp)
		if ok && u.Op.String() == "!" {
			v = u.X
			continue
		}
		return v
	}
}

// boolHelper: cond (through negations) is a boolean result of a private helper.
func boolHelper(cond ssa.Value) *ssa.Function {
	h, _ := boolHelperIdx(cond)
	return h
}

func boolHelperIdx(cond ssa.Value) (*ssa.Function, int) {
	v := stripNot(cond)
	idx := 0
	var call *ssa.Call
	switch x := v.(type) {
	case *ssa.Call:
		call = x
	case *ssa.Extract:
		call, _ = x.Tuple.(*ssa.Call)
		idx = x.Index
	}
	if call == nil {
		return nil, 0
	}
	h := helperCallee(call)
	if h == nil || idx >= h.Signature.Results().Len() || h.Signature.Results().At(idx).Type().String() != "bool" {
		return nil, 0
	}
	return h, idx
}

// condValue evaluates a branch condition under an assignment of the atoms; phis are resolved with the
// edges taken so far (phiVal), helper calls by walking the helper.
func (d *decisionRegion) condValue(cond ssa.Value, assign []bool, phiVal map[*ssa.Phi]ssa.Value, depth int) (bool, bool) {
	neg := false
	for i := 0; i < 16; i++ {
		if u, ok := cond.(*ssa.UnOp); ok && u.Op.String() == "!" {
			cond, neg = u.X, !neg
			continue
		}
		if ph, ok := cond.(*ssa.Phi); ok {
			if v, ok := phiVal[ph]; ok {
				cond = v
				continue
			}
		}
		break
	}
	if c, ok := cond.(*ssa.Const); ok && c.Value != nil {
		return (c.Value.String() == "true") != neg, true
	}
	if h, idx := boolHelperIdx(cond); h != nil && depth < 4 {
		v, ok := d.evalHelper(h, idx, assign, depth+1)
		return v != neg, ok
	}
	a, pol, ok := atomOf(cond, true, d.sym)
	if !ok {
		a = atom{Form: linSym("bool:" + boolName(cond)), Eq: true}
		pol = true
		if strings.HasPrefix(boolName(cond), "!") {
			a = atom{Form: linSym("bool:" + boolName(cond)[1:]), Eq: true}
			pol = false
		}
	}
	idx, p2 := d.atomIndex(a)
	if idx >= len(assign) {
		return false, false
	}
	val := assign[idx]
	if !p2 {
		val = !val
	}
	if !pol {
		val = !val
	}
	return val != neg, true
}

// evalHelper walks a boolean helper under the assignment and returns its result.
func (d *decisionRegion) evalHelper(h *ssa.Function, idx int, assign []bool, depth int) (bool, bool) {
	phiVal := map[*ssa.Phi]ssa.Value{}
	b := h.Blocks[0]
	var prev *ssa.BasicBlock
	for steps := 0; steps < 200; steps++ {
		for _, in := range b.Instrs {
			if ph, ok := in.(*ssa.Phi); ok && prev != nil {
				for k, pr := range b.Preds {
					if pr == prev {
						phiVal[ph] = ph.Edges[k]
					}
				}
			}
		}
		var next *ssa.BasicBlock
		for _, in := range b.Instrs {
			switch x := in.(type) {
			case *ssa.Return:
				if idx >= len(x.Results) {
					return false, false
				}
				return d.condValue(x.Results[idx], assign, phiVal, depth)
			case *ssa.If:
				v, ok := d.condValue(x.Cond, assign, phiVal, depth)
				if !ok {
					return false, false
				}
				if v {
					next = b.Succs[0]
				} else {
					next = b.Succs[1]
				}
			}
		}
		if next == nil {
			if len(b.Succs) != 1 {
				return false, false
			}
			next = b.Succs[0]
		}
		prev, b = b, next
	}
	return false, false
}

func boolName(v ssa.Value) string {
	neg := ""
	for {
		u, ok := v.(*ssa.UnOp)
		if ok && u.Op.String() == "!" {
			v = u.X
			if neg == "" {
				neg = "!"
			} else {
				neg = ""
			}
			continue
		}
		break
	}
	if s, ok := defaultSym(v); ok {
		return neg + s
	}
	return neg + v.Name()
}

// eval follows one assignment; returns the class reached ("" + problem on loops).
func (d *decisionRegion) eval(assign []bool) string {
	p := d.start
	phiVal := map[*ssa.Phi]ssa.Value{}
	var prev *ssa.BasicBlock
	var stack []ipos
	steps := 0
	for {
		steps++
		if steps > 200 {
			return "?loop"
		}
		if p.i == 0 && prev != nil {
			for _, in := range p.b.Instrs {
				if ph, ok := in.(*ssa.Phi); ok {
					for k, pr := range p.b.Preds {
						if pr == prev {
							phiVal[ph] = ph.Edges[k]
						}
					}
				}
			}
		}
		var next *ssa.BasicBlock
		jumped := false
		for i := p.i; i < len(p.b.Instrs); i++ {
			in := p.b.Instrs[i]
			if _, isRet := in.(*ssa.Return); isRet && len(stack) > 0 {
				p, stack, prev, jumped = stack[len(stack)-1], stack[:len(stack)-1], nil, true
				break
			}
			if c := d.classify(in); c != "" {
				return c
			}
			if h := stmtHelper(in); h != nil && len(stack) < unitDepth {
				stack = append(stack, posAfter(in))
				p, prev, jumped = entryPos(h), nil, true
				break
			}
			if iff, ok := in.(*ssa.If); ok {
				val, ok := d.condValue(iff.Cond, assign, phiVal, 0)
				if !ok {
					return "?cond"
				}
				if val {
					next = p.b.Succs[0]
				} else {
					next = p.b.Succs[1]
				}
			}
		}
		if jumped {
			continue
		}
		if next == nil {
			if len(p.b.Succs) == 1 {
				next = p.b.Succs[0]
			} else {
				return "?end"
			}
		}
		prev = p.b
		p = ipos{next, 0}
	}
}

// compareWithSpec enumerates all assignments and compares with spec; returns a
// counterexample description or "".
func (d *decisionRegion) compareWithSpec(spec func(val func(a atom) bool) string) string {
	d.collect()
restart:
	n := len(d.Atoms)
	if n > 12 {
		return fmt.Sprintf("too many distinct branch atoms (%d)", n)
	}
	for m := 0; m < 1<<n; m++ {
		assign := make([]bool, n)
		for i := range assign {
			assign[i] = m&(1<<i) != 0
		}
		got := d.eval(assign)
		if len(d.Atoms) > n {
			goto restart // a condition met only while walking brought a new atom: enumerate again over all of them
		}
		want := spec(func(a atom) bool {
			for i, x := range d.Atoms {
				if i >= len(assign) {
					break
				}
				if x.Eq == a.Eq && x.Form.eq(a.Form) {
					return assign[i]
				}
				if !x.Eq && !a.Eq && negAtom(x).Form.eq(a.Form) {
					return !assign[i]
				}
			}
			return false // atom of the specification never tested by the code
		})
		if got != want {
			var parts []string
			for i, x := range d.Atoms {
				if i < len(assign) {
					parts = append(parts, fmt.Sprintf("[%s]=%v", x, assign[i]))
				}
			}
			return fmt.Sprintf("with %s the code goes to %q but the rule requires %q", strings.Join(parts, " "), got, want)
		}
	}
	return ""
}

// specAtomUsed reports whether some atom of the region equals a.
func (d *decisionRegion) has(a atom) bool {
	for _, x := range d.Atoms {
		if x.Eq == a.Eq && x.Form.eq(a.Form) {
			return true
		}
		if !x.Eq && !a.Eq && negAtom(x).Form.eq(a.Form) {
			return true
		}
	}
	return false
}

func returnResults(in ssa.Instruction) []ssa.Value {
	if ret, ok := in.(*ssa.Return); ok {
		return ret.Results
	}
	return nil
}

// stmtHelper: a private helper without results called as a statement (its body is part of the caller's decision).
func stmtHelper(in ssa.Instruction) *ssa.Function {
	h := helperCallee(in)
	if h == nil || h.Signature.Results().Len() != 0 {
		return nil
	}
	return h
}
