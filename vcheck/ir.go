package main

// Helpers over go/ssa values and instructions: resolved callee names, struct-field
// accesses, access paths, value provenance.

import (
	"fmt"
	"go/constant"
	"go/token"
	"go/types"
	"os"
	"strings"

	"golang.org/x/tools/go/ssa"
)

func shortName(s string) string {
	s = strings.ReplaceAll(s, modPath+"/", "")
	return s
}

// callName returns the resolved name of the function a call instruction invokes:
//
//	static:   "(*sync.Mutex).Lock", "time.Now", "(*vnet.Router).push", "vnet.newNAT"
//	builtin:  "builtin.close"
//	invoke:   "invoke (vnet.NIC).onInboundChunk"
//	dynamic:  "dynamic" (call of a func value)
func callName(ci ssa.CallInstruction) string {
	c := ci.Common()
	if c.IsInvoke() {
		return "invoke " + shortName(c.Method.FullName())
	}
	switch v := c.Value.(type) {
	case *ssa.Builtin:
		return "builtin." + v.Name()
	case *ssa.Function:
		return shortName(v.String())
	case *ssa.MakeClosure:
		if f, ok := v.Fn.(*ssa.Function); ok {
			return shortName(f.String())
		}
	case *ssa.UnOp:
		// a package-level function variable that only its initialiser assigns (var intn = rand.Intn): the
		// function it names
		if f := initOnlyFuncVar(v); f != nil {
			return shortName(f.String())
		}
	}
	return "dynamic"
}

var funcVarCache = map[*ssa.Global]*ssa.Function{}

func initOnlyFuncVar(ld *ssa.UnOp) *ssa.Function {
	if ld.Op != token.MUL {
		return nil
	}
	g, ok := ld.X.(*ssa.Global)
	if !ok || g.Pkg == nil {
		return nil
	}
	if f, had := funcVarCache[g]; had {
		return f
	}
	var fn *ssa.Function
	n, bad := 0, false
	for _, m := range g.Pkg.Members {
		mf, ok := m.(*ssa.Function)
		if !ok {
			continue
		}
		for _, f := range withClosures(mf) {
			instrsOf(f, func(in ssa.Instruction) {
				// any other use of the variable's address than a load (a store, or handing it out) could change it
				for _, op := range in.Operands(nil) {
					if *op != ssa.Value(g) {
						continue
					}
					switch x := in.(type) {
					case *ssa.UnOp:
					case *ssa.Store:
						if x.Addr == ssa.Value(g) && mf.Name() == "init" {
							if sf, isF := x.Val.(*ssa.Function); isF {
								fn = sf
								n++
								continue
							}
						}
						bad = true
					default:
						bad = true
					}
				}
			})
		}
	}
	if bad || n != 1 {
		fn = nil
	}
	funcVarCache[g] = fn
	return fn
}

func staticCallee(ci ssa.CallInstruction) *ssa.Function {
	return ci.Common().StaticCallee()
}

// isCall reports whether in is a call (plain call, go or defer) whose resolved name is one of names.
func isCall(in ssa.Instruction, names ...string) bool {
	ci, ok := in.(ssa.CallInstruction)
	if !ok {
		return false
	}
	n := callName(ci)
	for _, x := range names {
		if n == x {
			return true
		}
	}
	return false
}

// isPlainCall is isCall restricted to *ssa.Call (not go/defer).
func isPlainCall(in ssa.Instruction, names ...string) bool {
	if _, ok := in.(*ssa.Call); !ok {
		return false
	}
	return isCall(in, names...)
}

// callArgs returns the actual arguments including the receiver (for invoke: receiver first).
func callArgs(ci ssa.CallInstruction) []ssa.Value {
	c := ci.Common()
	if c.IsInvoke() {
		return append([]ssa.Value{c.Value}, c.Args...)
	}
	return c.Args
}

// fieldRef describes v when it is the address of (or the value of) a struct field.
type fieldRef struct {
	Struct *types.Named // may be nil for anonymous structs
	SName  string       // "vnet.Router"
	Field  string
	Base   ssa.Value // the struct pointer / value
}

func namedOf(t types.Type) *types.Named {
	for {
		switch tt := t.(type) {
		case *types.Pointer:
			t = tt.Elem()
		case *types.Named:
			return tt
		case *types.Alias:
			t = types.Unalias(tt)
		default:
			return nil
		}
	}
}

func typeName(t types.Type) string {
	n := namedOf(t)
	if n == nil {
		return shortName(t.String())
	}
	if n.Obj().Pkg() == nil {
		return n.Obj().Name()
	}
	return shortPkg(n.Obj().Pkg().Path()) + "." + n.Obj().Name()
}

func structOf(t types.Type) *types.Struct {
	for {
		switch tt := t.(type) {
		case *types.Pointer:
			t = tt.Elem()
		case *types.Named:
			t = tt.Underlying()
		case *types.Alias:
			t = types.Unalias(tt)
		case *types.Struct:
			return tt
		default:
			return nil
		}
	}
}

// asFieldAddr: v is &base.f
func asFieldAddr(v ssa.Value) (fieldRef, bool) {
	fa, ok := v.(*ssa.FieldAddr)
	if !ok {
		// a field address handed to a private helper as a pointer argument
		if o := origin(v); o != v {
			fa, ok = o.(*ssa.FieldAddr)
		}
		if !ok {
			return fieldRef{}, false
		}
	}
	st := structOf(fa.X.Type())
	if st == nil {
		return fieldRef{}, false
	}
	return canonRef(fieldRef{Struct: namedOf(fa.X.Type()), SName: typeName(fa.X.Type()), Field: st.Field(fa.Field).Name(), Base: fa.X}), true
}

// asFieldLoad: v is the value base.f (load through FieldAddr, or Field of a struct value)
func asFieldLoad(v ssa.Value) (fieldRef, bool) {
	v = origin(v)
	if _, isP := v.(*ssa.Parameter); isP {
		// parameter of a helper with several call sites: a field load if every call site passes the same field
		if all := originsAll(v); len(all) > 1 {
			var fr0 fieldRef
			for i, o := range all {
				if _, again := o.(*ssa.Parameter); again {
					return fieldRef{}, false
				}
				fr, ok := asFieldLoad(o)
				if !ok || (i > 0 && (fr.SName != fr0.SName || fr.Field != fr0.Field)) {
					return fieldRef{}, false
				}
				if i == 0 {
					fr0 = fr
				}
			}
			return fr0, true
		}
	}
	switch x := v.(type) {
	case *ssa.UnOp:
		if x.Op == token.MUL {
			return asFieldAddr(x.X)
		}
	case *ssa.Field:
		st := structOf(x.X.Type())
		if st == nil {
			return fieldRef{}, false
		}
		return canonRef(fieldRef{Struct: namedOf(x.X.Type()), SName: typeName(x.X.Type()), Field: st.Field(x.Field).Name(), Base: x.X}), true
	}
	return fieldRef{}, false
}

// isFieldLoad reports v == <something>.field of struct sname ("" = any)
func isFieldLoad(v ssa.Value, sname, field string) bool {
	fr, ok := asFieldLoad(v)
	return ok && fr.Field == field && (sname == "" || fr.SName == sname)
}

// isFieldStore: in stores to <x>.field of struct sname
func isFieldStore(in ssa.Instruction, sname, field string) bool {
	st, ok := in.(*ssa.Store)
	if !ok {
		return false
	}
	fr, ok := asFieldAddr(st.Addr)
	return ok && fr.Field == field && (sname == "" || fr.SName == sname)
}

// strip removes value-preserving wrappers.
func strip(v ssa.Value) ssa.Value {
	for {
		switch x := v.(type) {
		case *ssa.ChangeType:
			v = x.X
		case *ssa.Convert:
			v = x.X
		case *ssa.MakeInterface:
			v = x.X
		case *ssa.ChangeInterface:
			v = x.X
		default:
			return v
		}
	}
}

// accessPath renders the canonical access path of a value: parameters and free
// variables by name, captured/heap locals by their variable name, fields by name.
// Loads are transparent (x.f denotes both the address and the value of the field).
func accessPath(v ssa.Value) string {
	switch x := v.(type) {
	case *ssa.Parameter:
		return x.Name()
	case *ssa.FreeVar:
		return x.Name()
	case *ssa.Global:
		return "global:" + x.Name()
	case *ssa.Alloc:
		if x.Comment != "" && x.Comment != "complit" && x.Comment != "new" {
			return x.Comment
		}
		return fmt.Sprintf("alloc@%d", x.Pos())
	case *ssa.FieldAddr:
		st := structOf(x.X.Type())
		if st == nil {
			return accessPath(x.X) + ".?"
		}
		if flattenFields && st.Field(x.Field).Embedded() && canonInner(st.Field(x.Field).Type()) {
			return accessPath(x.X) // promoted fields are named as fields of the outer struct
		}
		return accessPath(x.X) + "." + st.Field(x.Field).Name()
	case *ssa.Field:
		st := structOf(x.X.Type())
		if st == nil {
			return accessPath(x.X) + ".?"
		}
		if flattenFields && st.Field(x.Field).Embedded() && canonInner(st.Field(x.Field).Type()) {
			return accessPath(x.X)
		}
		return accessPath(x.X) + "." + st.Field(x.Field).Name()
	case *ssa.UnOp:
		if x.Op == token.MUL {
			return accessPath(x.X)
		}
	case *ssa.IndexAddr:
		return accessPath(x.X) + "[]"
	case *ssa.Index:
		return accessPath(x.X) + "[]"
	case *ssa.Lookup:
		return accessPath(x.X) + "[k]"
	case *ssa.ChangeType:
		return accessPath(x.X)
	case *ssa.MakeInterface:
		return accessPath(x.X)
	case *ssa.ChangeInterface:
		return accessPath(x.X)
	case *ssa.Convert:
		return accessPath(x.X)
	case *ssa.TypeAssert:
		return accessPath(x.X)
	case *ssa.Extract:
		return fmt.Sprintf("%s#%d", accessPath(x.Tuple), x.Index)
	case *ssa.Slice:
		return accessPath(x.X)
	case *ssa.Const:
		return "const"
	}
	return fmt.Sprintf("%T@%s", v, v.Name())
}

// rootOf walks to the root value of an access path.
func rootOf(v ssa.Value) ssa.Value {
	for {
		switch x := v.(type) {
		case *ssa.FieldAddr:
			v = x.X
		case *ssa.Field:
			v = x.X
		case *ssa.UnOp:
			if x.Op != token.MUL {
				return v
			}
			v = x.X
		case *ssa.IndexAddr:
			v = x.X
		case *ssa.Index:
			v = x.X
		case *ssa.ChangeType:
			v = x.X
		case *ssa.MakeInterface:
			v = x.X
		case *ssa.ChangeInterface:
			v = x.X
		case *ssa.Convert:
			v = x.X
		case *ssa.TypeAssert:
			v = x.X
		case *ssa.Slice:
			v = x.X
		default:
			return v
		}
	}
}

// constInt returns the integer value of a constant operand.
func constInt(v ssa.Value) (int64, bool) {
	c, ok := strip(v).(*ssa.Const)
	if !ok || c.Value == nil {
		return 0, false
	}
	if c.Value.Kind() != constant.Int {
		return 0, false
	}
	i, ok := constant.Int64Val(c.Value)
	if !ok {
		// large unsigned constants
		if u, ok2 := constant.Uint64Val(c.Value); ok2 {
			return int64(u), true
		}
	}
	return i, ok
}

func isNilConst(v ssa.Value) bool {
	c, ok := v.(*ssa.Const)
	return ok && c.Value == nil
}

// instrsOf iterates all instructions of f (not of its closures).
func instrsOf(f *ssa.Function, fn func(in ssa.Instruction)) {
	for _, b := range f.Blocks {
		for _, in := range b.Instrs {
			fn(in)
		}
	}
}

// withClosures returns f and all (transitively) nested anonymous functions.
func withClosures(f *ssa.Function) []*ssa.Function {
	return withClosuresSeen(f, map[*ssa.Function]bool{})
}

func withClosuresSeen(f *ssa.Function, seen map[*ssa.Function]bool) []*ssa.Function {
	if seen[f] {
		return nil
	}
	seen[f] = true
	out := []*ssa.Function{f}
	for _, a := range f.AnonFuncs {
		out = append(out, withClosuresSeen(a, seen)...)
	}
	// a method value of an unexported method (once.Do(c.markClosed)) stands where a function literal with the
	// same body would
	instrsOf(f, func(in ssa.Instruction) {
		mc, ok := in.(*ssa.MakeClosure)
		if !ok {
			return
		}
		w, ok := mc.Fn.(*ssa.Function)
		if !ok || w.Synthetic == "" || !strings.HasSuffix(w.Name(), "$bound") {
			return
		}
		for _, b := range w.Blocks {
			for _, x := range b.Instrs {
				if cl, ok := x.(ssa.CallInstruction); ok {
					if t := cl.Common().StaticCallee(); t != nil && len(t.Blocks) > 0 && t.Pkg == f.Pkg && !token.IsExported(t.Name()) {
						out = append(out, withClosuresSeen(t, seen)...)
					}
				}
			}
		}
	})
	return out
}

// findInstrs collects instructions of f satisfying pred.
func findInstrs(f *ssa.Function, pred func(ssa.Instruction) bool) []ssa.Instruction {
	var out []ssa.Instruction
	instrsOf(f, func(in ssa.Instruction) {
		if pred(in) {
			out = append(out, in)
		}
	})
	return out
}

// derivesFrom reports whether v is computed from src through value-preserving or
// component-selecting operations (slicing, conversion, field/elem selection, phi,
// extraction, calls whose receiver/first argument derives from src when followCalls).
func derivesFrom(v ssa.Value, src func(ssa.Value) bool, followCalls bool) bool {
	seen := map[ssa.Value]bool{}
	var rec func(v ssa.Value, depth int) bool
	rec = func(v ssa.Value, depth int) bool {
		if v == nil || seen[v] || depth > 40 {
			return false
		}
		seen[v] = true
		if src(v) {
			return true
		}
		if o := origin(v); o != v {
			return rec(o, depth+1)
		}
		if _, isPrm := v.(*ssa.Parameter); isPrm {
			// a parameter of a private helper called from several places may carry any of the arguments
			for _, o := range originsAll(v) {
				if o != v && rec(o, depth+1) {
					return true
				}
			}
			return false
		}
		switch x := v.(type) {
		case *ssa.ChangeType:
			return rec(x.X, depth+1)
		case *ssa.Convert:
			return rec(x.X, depth+1)
		case *ssa.MakeInterface:
			return rec(x.X, depth+1)
		case *ssa.ChangeInterface:
			return rec(x.X, depth+1)
		case *ssa.TypeAssert:
			return rec(x.X, depth+1)
		case *ssa.Slice:
			return rec(x.X, depth+1)
		case *ssa.UnOp:
			return rec(x.X, depth+1)
		case *ssa.FieldAddr:
			return rec(x.X, depth+1)
		case *ssa.Field:
			return rec(x.X, depth+1)
		case *ssa.IndexAddr:
			return rec(x.X, depth+1)
		case *ssa.Index:
			return rec(x.X, depth+1)
		case *ssa.Extract:
			return rec(x.Tuple, depth+1)
		case *ssa.Phi:
			for _, e := range x.Edges {
				if rec(e, depth+1) {
					return true
				}
			}
		case *ssa.Call:
			if followCalls {
				for _, a := range callArgs(x) {
					if rec(a, depth+1) {
						return true
					}
				}
			}
		}
		return false
	}
	return rec(v, 0)
}

// cellStores returns the values stored into the local cell (Alloc) within its function
// and the closures that capture it.
func cellStores(cell *ssa.Alloc) []ssa.Value {
	var out []ssa.Value
	for _, st := range cellStoreInstrs(cell) {
		out = append(out, st.Val)
	}
	return out
}

// resolveCell: if v is a load from a local cell with exactly one store, return the
// stored value; otherwise v.
func resolveCell(v ssa.Value) ssa.Value {
	u, ok := v.(*ssa.UnOp)
	if !ok || u.Op != token.MUL {
		return v
	}
	cell, ok := u.X.(*ssa.Alloc)
	if !ok {
		return v
	}
	st := cellStores(cell)
	if len(st) == 1 {
		return st[0]
	}
	return v
}

// unspill resolves a value loaded from a non-escaping local variable cell (as produced
// for results of functions with defers, or ordinary locals whose address is not taken)
// to the set of values stored into that cell; other values are returned unchanged.
func unspill(v ssa.Value) []ssa.Value {
	u, ok := v.(*ssa.UnOp)
	if !ok || u.Op != token.MUL {
		return []ssa.Value{v}
	}
	cell, ok := u.X.(*ssa.Alloc)
	if !ok || cellEscapes(cell) {
		return []ssa.Value{v}
	}
	st := cellStores(cell)
	// a named result returned by name ("return head") stores the cell's own value back into it: not a new value
	var kept []ssa.Value
	for _, sv := range st {
		if ld, ok := sv.(*ssa.UnOp); ok && ld.Op == token.MUL && ld.X == ssa.Value(cell) {
			continue
		}
		kept = append(kept, sv)
	}
	if len(kept) == 0 {
		return []ssa.Value{v}
	}
	return kept
}

// returnedValues lists, for result index i, every value a (non-recover) return of f may
// return, looking through defer spills.
func returnedValues(f *ssa.Function, i int) []ssa.Value {
	var out []ssa.Value
	seen := map[ssa.Value]bool{}
	for _, b := range f.Blocks {
		if f.Recover == b {
			continue
		}
		for _, in := range b.Instrs {
			if ret, ok := in.(*ssa.Return); ok && i < len(ret.Results) {
				for _, sv := range unspill(ret.Results[i]) {
					// every value that can be returned: the leaves of phis (a single-exit function merges them)
					for _, v := range phiLeaves(sv) {
						if !seen[v] {
							seen[v] = true
							out = append(out, v)
						}
					}
				}
			}
		}
	}
	return out
}

// retValAt resolves result i of a specific return: for defer-spilled results it is the
// value stored into the result cell in the return's own block (the shape go/ssa emits),
// otherwise all values stored into the cell.
func retValAt(ret *ssa.Return, i int) []ssa.Value {
	if i >= len(ret.Results) {
		return nil
	}
	v := ret.Results[i]
	u, ok := v.(*ssa.UnOp)
	if !ok || u.Op != token.MUL {
		return []ssa.Value{v}
	}
	cell, ok := u.X.(*ssa.Alloc)
	if !ok || cellEscapes(cell) {
		return []ssa.Value{v}
	}
	var last ssa.Value
	for _, in := range ret.Block().Instrs {
		if st, ok := in.(*ssa.Store); ok && st.Addr == ssa.Value(cell) {
			last = st.Val
		}
	}
	if ld, ok := last.(*ssa.UnOp); ok && ld.Op == token.MUL && ld.X == ssa.Value(cell) {
		last = nil // "return name": the cell keeps what was assigned before
	}
	if last != nil {
		return []ssa.Value{last}
	}
	return unspill(v)
}

// closureBinding maps a free variable of a closure to the value captured where the
// closure is made (nil if the closure is made at more than one place).
func closureBinding(fv *ssa.FreeVar) ssa.Value {
	fn := fv.Parent()
	par := fn.Parent()
	if par == nil {
		return nil
	}
	idx := -1
	for i, q := range fn.FreeVars {
		if q == fv {
			idx = i
		}
	}
	var out ssa.Value
	n := 0
	instrsOf(par, func(in ssa.Instruction) {
		if mc, ok := in.(*ssa.MakeClosure); ok && mc.Fn == ssa.Value(fn) && idx >= 0 && idx < len(mc.Bindings) {
			out = mc.Bindings[idx]
			n++
		}
	})
	if n != 1 {
		return nil
	}
	return out
}

// cellOf: the local-variable cell (an *ssa.Alloc of the outermost function that owns it) an address denotes,
// following free variables of closures to what they capture.
func cellOf(addr ssa.Value) *ssa.Alloc {
	for i := 0; i < 8; i++ {
		switch x := addr.(type) {
		case *ssa.Alloc:
			return x
		case *ssa.FreeVar:
			b := closureBinding(x)
			if b == nil {
				return nil
			}
			addr = b
		default:
			return nil
		}
	}
	return nil
}

// cellStoreInstrs: every store to the cell, in its function and in the closures that capture it.
func cellStoreInstrs(al *ssa.Alloc) []*ssa.Store {
	var out []*ssa.Store
	var visit func(addr ssa.Value, d int)
	visit = func(addr ssa.Value, d int) {
		refs := addr.Referrers()
		if refs == nil || d > 6 {
			return
		}
		for _, r := range *refs {
			switch x := r.(type) {
			case *ssa.Store:
				if x.Addr == addr {
					out = append(out, x)
				}
			case *ssa.MakeClosure:
				fn, _ := x.Fn.(*ssa.Function)
				for i, b := range x.Bindings {
					if b == addr && fn != nil && i < len(fn.FreeVars) {
						visit(fn.FreeVars[i], d+1)
					}
				}
			}
		}
	}
	visit(al, 0)
	return out
}

// derefLocal: a load of a local variable that is assigned exactly once (e.g. `nc := c.nextConn`
// captured by a closure) is replaced by the value assigned; anything else is returned unchanged.
func derefLocal(v ssa.Value) ssa.Value {
	for i := 0; i < 4; i++ {
		u, ok := v.(*ssa.UnOp)
		if !ok || u.Op != token.MUL {
			return v
		}
		al := cellOf(u.X)
		if al == nil {
			return v
		}
		st := cellStoreInstrs(al)
		if len(st) != 1 {
			return v
		}
		v = st[0].Val
	}
	return v
}

// zeroGlobalLoad: v loads a package variable of the module that only ever holds its zero value
// (no store anywhere, or only stores of the zero constant).
func zeroGlobalLoad(v ssa.Value) bool {
	u, ok := v.(*ssa.UnOp)
	if !ok || u.Op != token.MUL || curProg == nil {
		return false
	}
	g, ok := u.X.(*ssa.Global)
	if !ok || g.Pkg == nil || !(g.Pkg.Pkg.Path() == modPath || strings.HasPrefix(g.Pkg.Pkg.Path(), modPath+"/")) {
		return false
	}
	zero := true
	scan := func(f *ssa.Function) {
		instrsOf(f, func(in ssa.Instruction) {
			for _, op := range in.Operands(nil) {
				if *op != ssa.Value(g) {
					continue
				}
				switch x := in.(type) {
				case *ssa.Store:
					if c, ok := x.Val.(*ssa.Const); !(x.Addr == ssa.Value(g) && ok && c.Value == nil) {
						zero = false
					}
				case *ssa.UnOp:
					if x.Op != token.MUL {
						zero = false
					}
				default:
					zero = false // address escapes
				}
			}
		})
	}
	for _, f := range curProg.Funcs {
		scan(f)
	}
	if init := g.Pkg.Func("init"); init != nil {
		scan(init)
	}
	return zero
}

// freshCopyKind: v is a freshly allocated slice holding a copy of a value matched by src. The recognised forms:
// "append" - append(<empty or nil slice>, src...); "clone" - bytes.Clone(src) / slices.Clone(src);
// "make" - a make([]T, ...) (the caller checks the copy into it). "" if none.
func freshCopyKind(v ssa.Value, src func(ssa.Value) bool) (string, *ssa.MakeSlice) {
	v = origin(strip(v))
	switch x := v.(type) {
	case *ssa.MakeSlice:
		return "make", x
	case *ssa.Call:
		n := callName(x)
		switch {
		case n == "builtin.append" && len(x.Call.Args) == 2:
			base := strip(x.Call.Args[0])
			empty := isNilConst(base)
			if sl, ok := base.(*ssa.Slice); ok {
				if al, ok := sl.X.(*ssa.Alloc); ok {
					if at, ok := al.Type().(*types.Pointer).Elem().Underlying().(*types.Array); ok && at.Len() == 0 {
						empty = true
					}
				}
			}
			if mk, ok := base.(*ssa.MakeSlice); ok {
				if k, isC := constInt(mk.Len); isC && k == 0 {
					empty = true
				}
			}
			if empty && src(origin(x.Call.Args[1])) {
				return "append", nil
			}
		case (n == "bytes.Clone" || n == "slices.Clone") && len(x.Call.Args) == 1:
			if src(origin(x.Call.Args[0])) {
				return "clone", nil
			}
		}
	}
	return "", nil
}

// ---- flattened field names -----------------------------------------------------------------------------------
// A rule set may ask (flattenFields) that fields of an unexported struct type which is used in exactly one place -
// as an embedded or plain value field of one other struct of its package - are named as fields of that outer
// struct: promoted names for an embedded struct ("head" of an embedded ring), dotted names otherwise
// ("limit.count"). Grouping the fields of a type into a sub-struct then does not change what a role is called.

var flattenFields bool

type fieldOwner struct {
	Outer    string // outer struct type name (pkg.T)
	Field    string // name of the field of the outer struct
	Embedded bool
}

var canonOwners map[string][]fieldOwner
var canonFor *Prog

func canonBuild() {
	if curProg == nil || canonFor == curProg {
		return
	}
	canonFor = curProg
	canonOwners = map[string][]fieldOwner{}
	for key, sp := range curProg.SPkgs {
		_ = key
		for _, m := range sp.Members {
			t, ok := m.(*ssa.Type)
			if !ok {
				continue
			}
			named, ok := t.Type().(*types.Named)
			if !ok {
				continue
			}
			st, ok := named.Underlying().(*types.Struct)
			if !ok {
				continue
			}
			for k := 0; k < st.NumFields(); k++ {
				f := st.Field(k)
				in, ok := f.Type().(*types.Named)
				if !ok || in.Obj().Exported() || in.Obj().Pkg() != named.Obj().Pkg() {
					continue
				}
				if _, isSt := in.Underlying().(*types.Struct); !isSt {
					continue
				}
				canonOwners[typeName(in)] = append(canonOwners[typeName(in)], fieldOwner{typeName(named), f.Name(), f.Embedded()})
			}
		}
	}
	// a type that is also used behind a pointer, in a slice, map, channel or as a parameter is not canonicalised:
	// conservatively require that it has methods only or is referenced nowhere else - approximated by "exactly one owner"
}

// flattenPrefer: when an inner struct type is shared by several outer types (one "window" embedded in two
// detectors), the rule set analysing one of them names it here and the inner fields are attributed to it.
var flattenPrefer string

func canonOwnerOf(inner string) (fieldOwner, bool) {
	canonBuild()
	ow := canonOwners[inner]
	if len(ow) == 1 {
		return ow[0], true
	}
	var pick *fieldOwner
	for k := range ow {
		if ow[k].Outer == flattenPrefer {
			if pick != nil {
				return fieldOwner{}, false
			}
			pick = &ow[k]
		}
	}
	if pick != nil {
		return *pick, true
	}
	return fieldOwner{}, false
}

// canonInner: t is an unexported struct type whose fields are attributed to an owner.
func canonInner(t types.Type) bool {
	_, ok := canonOwnerOf(typeName(t))
	return ok
}

func canonRef(fr fieldRef) fieldRef {
	if !flattenFields {
		return fr
	}
	canonBuild()
	for i := 0; i < 4; i++ {
		ow, ok := canonOwnerOf(fr.SName)
		if !ok {
			break
		}
		if !ow.Embedded {
			fr.Field = ow.Field + "." + fr.Field
		}
		fr.SName = ow.Outer
	}
	return fr
}

// flatField is one (possibly nested) field of a struct under the flattened naming.
type flatField struct {
	Name string
	Type types.Type
}

// flatStructFields lists the fields of st with the fields of canonicalised inner structs expanded in place.
func flatStructFields(st *types.Struct, prefix string, depth int) []flatField {
	var out []flatField
	for i := 0; i < st.NumFields(); i++ {
		f := st.Field(i)
		if flattenFields && depth < 3 {
			if in, ok := f.Type().(*types.Named); ok && canonInner(in) {
				if ist, ok := in.Underlying().(*types.Struct); ok {
					p := prefix
					if !f.Embedded() {
						p = prefix + f.Name() + "."
					}
					out = append(out, flatStructFields(ist, p, depth+1)...)
					continue
				}
			}
		}
		out = append(out, flatField{prefix + f.Name(), f.Type()})
	}
	return out
}

func isBoolType(t types.Type) bool {
	b, ok := t.Underlying().(*types.Basic)
	return ok && b.Info()&types.IsBoolean != 0
}

func isUnsignedType(t types.Type) bool {
	b, ok := t.Underlying().(*types.Basic)
	return ok && b.Info()&types.IsUnsigned != 0
}

// globalTable: a package-level array (or slice) that the package initialiser fills from a composite literal with
// constant indices and that nothing else writes: index -> stored value (elements not mentioned are absent: zero).
func globalTable(p *Prog, g *ssa.Global) (tbl map[int64]ssa.Value, size int64, ok bool) {
	pt, isPtr := g.Type().Underlying().(*types.Pointer)
	if !isPtr {
		return nil, 0, false
	}
	arr, isArr := pt.Elem().Underlying().(*types.Array)
	if !isArr {
		return nil, 0, false
	}
	size = arr.Len()
	var initStore *ssa.Store
	var direct map[int64]ssa.Value
	fns := []*ssa.Function{}
	if ini := g.Pkg.Func("init"); ini != nil {
		fns = append(fns, ini)
	}
	for _, f := range p.Funcs {
		if f.Pkg == g.Pkg && f.Name() != "init" {
			fns = append(fns, f)
		}
	}
	for _, f := range fns {
		bad := false
		instrsOf(f, func(in ssa.Instruction) {
			switch x := in.(type) {
			case *ssa.Store:
				if x.Addr == ssa.Value(g) {
					if f.Name() == "init" && initStore == nil {
						initStore = x
					} else {
						if os.Getenv("VCHECK_DEBUG") != "" {
							fmt.Fprintln(os.Stderr, "globalTable: second store", x, "in", f, initStore)
						}
						bad = true
					}
				}
			case *ssa.IndexAddr:
				if x.X == ssa.Value(g) && f.Name() == "init" {
					// the initialiser fills the elements in place
					k, isC := constInt(x.Index)
					if !isC || x.Referrers() == nil {
						bad = true
						return
					}
					for _, rf := range *x.Referrers() {
						st, isSt := rf.(*ssa.Store)
						if !isSt || st.Addr != ssa.Value(x) {
							bad = true
							return
						}
						if direct == nil {
							direct = map[int64]ssa.Value{}
						}
						if _, dup := direct[k]; dup {
							bad = true
						}
						direct[k] = st.Val
					}
					return
				}
				if x.X == ssa.Value(g) {
					// an element address: only loads are allowed
					if refs := x.Referrers(); refs != nil {
						for _, rf := range *refs {
							if u, isLoad := rf.(*ssa.UnOp); !isLoad || u.Op != token.MUL {
								if _, isDbg := rf.(*ssa.DebugRef); !isDbg {
									if os.Getenv("VCHECK_DEBUG") != "" {
										fmt.Fprintln(os.Stderr, "globalTable: element use", rf, "in", f)
									}
									bad = true
								}
							}
						}
					}
				}
			}
		})
		if bad {
			if os.Getenv("VCHECK_DEBUG") != "" {
				fmt.Fprintln(os.Stderr, "globalTable: bad use in", f)
			}
			return nil, 0, false
		}
	}
	if initStore == nil && direct != nil {
		return direct, size, true
	}
	if initStore == nil {
		if os.Getenv("VCHECK_DEBUG") != "" {
			fmt.Fprintln(os.Stderr, "globalTable: no init store", len(fns))
		}
		return nil, 0, false
	}
	ld, isLd := initStore.Val.(*ssa.UnOp)
	if !isLd || ld.Op != token.MUL {
		return nil, 0, false
	}
	lit, isAlloc := ld.X.(*ssa.Alloc)
	if !isAlloc || lit.Referrers() == nil {
		return nil, 0, false
	}
	tbl = map[int64]ssa.Value{}
	for _, rf := range *lit.Referrers() {
		ia, isIA := rf.(*ssa.IndexAddr)
		if !isIA {
			if rf == ssa.Instruction(ld) {
				continue
			}
			if _, isDbg := rf.(*ssa.DebugRef); isDbg {
				continue
			}
			return nil, 0, false
		}
		k, isC := constInt(ia.Index)
		if !isC || ia.Referrers() == nil {
			return nil, 0, false
		}
		for _, r2 := range *ia.Referrers() {
			st, isSt := r2.(*ssa.Store)
			if !isSt || st.Addr != ssa.Value(ia) {
				return nil, 0, false
			}
			if _, dup := tbl[k]; dup {
				return nil, 0, false
			}
			tbl[k] = st.Val
		}
	}
	return tbl, size, true
}
