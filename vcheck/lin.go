package main

// Engine E10: exact linear normal forms of integer expressions and comparisons.
// An expression is Σ cᵢ·symᵢ + k where symbols are named by access path / call name.
// A comparison is normalised to "form > 0" over the integers, so that equivalent
// spellings (a >= b, b <= a, !(a < b), a+1 > b) have the same normal form.

import (
	"fmt"
	"go/token"
	"sort"
	"strings"

	"golang.org/x/tools/go/ssa"
)

type linForm struct {
	Coef map[string]int64
	K    int64
	OK   bool
}

func (l linForm) String() string {
	if !l.OK {
		return "<non-linear>"
	}
	var ks []string
	for k := range l.Coef {
		if l.Coef[k] != 0 {
			ks = append(ks, k)
		}
	}
	sort.Strings(ks)
	var parts []string
	for _, k := range ks {
		parts = append(parts, fmt.Sprintf("%+d*%s", l.Coef[k], k))
	}
	parts = append(parts, fmt.Sprintf("%+d", l.K))
	return strings.Join(parts, " ")
}

func linConst(k int64) linForm { return linForm{Coef: map[string]int64{}, K: k, OK: true} }
func linSym(s string) linForm  { return linForm{Coef: map[string]int64{s: 1}, OK: true} }

func (a linForm) add(b linForm, sign int64) linForm {
	if !a.OK || !b.OK {
		return linForm{}
	}
	o := linForm{Coef: map[string]int64{}, K: a.K + sign*b.K, OK: true}
	for k, v := range a.Coef {
		o.Coef[k] += v
	}
	for k, v := range b.Coef {
		o.Coef[k] += sign * v
	}
	for k, v := range o.Coef {
		if v == 0 {
			delete(o.Coef, k)
		}
	}
	return o
}

func (a linForm) scale(c int64) linForm {
	if !a.OK {
		return a
	}
	o := linForm{Coef: map[string]int64{}, K: a.K * c, OK: true}
	for k, v := range a.Coef {
		if v*c != 0 {
			o.Coef[k] = v * c
		}
	}
	return o
}

func (a linForm) eq(b linForm) bool { return a.OK && b.OK && a.String() == b.String() }

// symNamer names the atomic symbols of a linear form.
type symNamer func(v ssa.Value) (string, bool)

// defaultSym names loads of fields ("b.count"), len(x) ("len(packet)"), parameters,
// and calls of module functions by callee name ("size()").
func defaultSym(v ssa.Value) (string, bool) {
	switch x := v.(type) {
	case *ssa.Parameter:
		return x.Name(), true
	case *ssa.UnOp:
		if x.Op == token.MUL {
			if _, ok := asFieldAddr(x.X); ok {
				// field of a struct-valued parameter of a private helper (spilled to a local): named as at the call
				if fa, ok := x.X.(*ssa.FieldAddr); ok {
					if al, ok := fa.X.(*ssa.Alloc); ok {
						if sts := cellStoreInstrs(al); len(sts) == 1 {
							if prm, ok := sts[0].Val.(*ssa.Parameter); ok {
								if a := resolveParam(prm); a != ssa.Value(prm) {
									if st := structOf(fa.X.Type()); st != nil {
										return accessPath(a) + "." + st.Field(fa.Field).Name(), true
									}
								}
							}
						}
					}
				}
				return accessPath(x.X), true
			}
			if _, ok := x.X.(*ssa.Global); ok {
				return accessPath(x.X), true
			}
			if _, ok := x.X.(*ssa.FreeVar); ok {
				return accessPath(x.X), true
			}
		}
	case *ssa.Field:
		// a field of a struct value that a private helper received as a parameter is named as at the call
		if prm, ok := x.X.(*ssa.Parameter); ok {
			if a := resolveParam(prm); a != ssa.Value(prm) {
				if st := structOf(x.X.Type()); st != nil {
					return accessPath(a) + "." + st.Field(x.Field).Name(), true
				}
			}
		}
		return accessPath(x), true
	case *ssa.Call:
		if b, ok := x.Call.Value.(*ssa.Builtin); ok && (b.Name() == "len" || b.Name() == "cap") {
			return b.Name() + "(" + accessPath(x.Call.Args[0]) + ")", true
		}
		if sc := x.Call.StaticCallee(); sc != nil {
			var as []string
			for _, a := range x.Call.Args {
				as = append(as, accessPath(a))
			}
			return sc.Name() + "(" + strings.Join(as, ",") + ")", true
		}
	case *ssa.FreeVar:
		return x.Name(), true
	}
	return "", false
}

// linOf builds the linear form of an integer SSA expression.
func linOf(v ssa.Value, sym symNamer) linForm { return linOfP(v, sym, nil) }

// linOfP is linOf with a resolver for phi nodes (path-sensitive evaluation).
func linOfP(v ssa.Value, sym symNamer, phiRes func(*ssa.Phi) ssa.Value) linForm {
	return linOfX(v, sym, phiRes, nil)
}

// linOfX additionally takes an override giving the form of specific values (loads
// resolved by store-to-load forwarding along a path).
func linOfX(v ssa.Value, sym symNamer, phiRes func(*ssa.Phi) ssa.Value, ov func(ssa.Value) (linForm, bool)) linForm {
	if sym == nil {
		sym = defaultSym
	}
	var rec func(v ssa.Value, d int) linForm
	rec = func(v ssa.Value, d int) linForm {
		if d > 30 {
			return linForm{}
		}
		if ov != nil {
			if f, ok := ov(v); ok {
				return f
			}
		}
		if c, ok := constInt(v); ok {
			if _, isConst := strip(v).(*ssa.Const); isConst {
				return linConst(c)
			}
		}
		if o := origin(v); o != v {
			return rec(o, d+1)
		}
		if cl, ok := v.(*ssa.Call); ok {
			// len(unsafe.Slice(p, n)) is n
			if b, ok := cl.Call.Value.(*ssa.Builtin); ok && (b.Name() == "len" || b.Name() == "cap") && len(cl.Call.Args) == 1 {
				if sc, ok := origin(cl.Call.Args[0]).(*ssa.Call); ok {
					if sb, ok := sc.Call.Value.(*ssa.Builtin); ok && sb.Name() == "Slice" && len(sc.Call.Args) == 2 {
						return rec(sc.Call.Args[1], d+1)
					}
				}
			}
		}
		if s, ok := sym(v); ok {
			return linSym(s)
		}
		switch x := v.(type) {
		case *ssa.Phi:
			if phiRes != nil {
				if e := phiRes(x); e != nil {
					return rec(e, d+1)
				}
			}
		case *ssa.BinOp:
			switch x.Op {
			case token.ADD:
				return rec(x.X, d+1).add(rec(x.Y, d+1), 1)
			case token.SUB:
				return rec(x.X, d+1).add(rec(x.Y, d+1), -1)
			case token.MUL:
				if c, ok := constInt(x.X); ok {
					return rec(x.Y, d+1).scale(c)
				}
				if c, ok := constInt(x.Y); ok {
					return rec(x.X, d+1).scale(c)
				}
			case token.QUO, token.REM, token.SHL, token.SHR, token.AND, token.OR, token.XOR:
				lx, ly := rec(x.X, d+1), rec(x.Y, d+1)
				if isUnsignedType(x.X.Type()) && lx.OK && ly.OK {
					// on unsigned values x >> k is x / 2^k and x & (2^k - 1) is x % 2^k: one name for both spellings
					if x.Op == token.SHR && len(ly.Coef) == 0 && ly.K >= 1 && ly.K <= 62 {
						y2 := *x
						y2.Op = token.QUO
						x = &y2
						ly = linConst(int64(1) << uint(ly.K))
					} else if x.Op == token.AND {
						if len(lx.Coef) == 0 && len(ly.Coef) > 0 {
							lx, ly = ly, lx
						}
						if len(ly.Coef) == 0 && ly.K > 0 && (ly.K+1)&ly.K == 0 {
							y2 := *x
							y2.Op = token.REM
							x = &y2
							ly = linConst(ly.K + 1)
						}
					}
				}
				if x.Op == token.QUO && lx.OK && ly.OK && len(ly.Coef) == 0 && ly.K > 1 {
					// (c*q) / c with q itself a quotient by c (n - n%c = c*(n/c)): exact
					nx := normRem(lx)
					if nx.OK && nx.K == 0 && len(nx.Coef) == 1 {
						for sym, cf := range nx.Coef {
							if cf == ly.K && strings.HasSuffix(sym, fmt.Sprintf(" / %+d)", ly.K)) {
								return linSym(sym)
							}
						}
					}
				}
				if lx.OK && ly.OK {
					// truncating division is odd: (-a)/c == -(a/c)
					if x.Op == token.QUO && len(ly.Coef) == 0 && len(lx.Coef) == 1 && lx.K == 0 {
						for k, cf := range lx.Coef {
							if cf == -1 {
								return linSym("(" + linSym(k).String() + " " + x.Op.String() + " " + ly.String() + ")").scale(-1)
							}
						}
					}
					name := "(" + lx.String() + " " + x.Op.String() + " " + ly.String() + ")"
					if x.Op == token.REM && len(ly.Coef) == 0 && ly.K > 0 {
						remRegistry[name] = remInfo{X: lx, C: ly.K, Quo: "(" + lx.String() + " / " + ly.String() + ")"}
					}
					return linSym(name)
				}
			}
		case *ssa.UnOp:
			if x.Op == token.SUB {
				return rec(x.X, d+1).scale(-1)
			}
		case *ssa.Convert:
			return rec(x.X, d+1)
		case *ssa.ChangeType:
			return rec(x.X, d+1)
		}
		return linSym(fmt.Sprintf("?%s@%d", v.Name(), v.Pos()))
	}
	return rec(v, 0)
}

// atom is a comparison in normal form "Form > 0" (integers) or "Form == 0" (Eq).
type atom struct {
	Form linForm
	Eq   bool
}

func (a atom) String() string {
	if a.Eq {
		return a.Form.String() + " == 0"
	}
	return a.Form.String() + " > 0"
}

// atomOf normalises "cond == val" to an atom and a polarity: the condition with that
// value holds iff atom is `pol`. For < <= > >= the result always has pol true.
// For == / != the atom is the equality and pol says whether it holds.
func atomOf(cond ssa.Value, val bool, sym symNamer) (a atom, pol bool, ok bool) {
	return atomOfP(cond, val, sym, nil)
}

func atomOfP(cond ssa.Value, val bool, sym symNamer, phiRes func(*ssa.Phi) ssa.Value) (a atom, pol bool, ok bool) {
	c, ok := normCmp(cond, val)
	if !ok {
		return atom{}, false, false
	}
	x, y := linOfP(c.X, sym, phiRes), linOfP(c.Y, sym, phiRes)
	switch c.Op {
	case token.LSS: // x < y  <=>  y - x > 0
		return atom{Form: y.add(x, -1)}, true, true
	case token.LEQ: // x <= y <=>  y - x + 1 > 0
		return atom{Form: y.add(x, -1).add(linConst(1), 1)}, true, true
	case token.EQL:
		return atom{Form: canonSign(x.add(y, -1)), Eq: true}, true, true
	case token.NEQ:
		return atom{Form: canonSign(x.add(y, -1)), Eq: true}, false, true
	}
	return atom{}, false, false
}

// canonSign fixes the sign of an equality form (first symbol positive).
func canonSign(l linForm) linForm {
	if !l.OK {
		return l
	}
	var ks []string
	for k := range l.Coef {
		ks = append(ks, k)
	}
	sort.Strings(ks)
	if len(ks) > 0 && l.Coef[ks[0]] < 0 {
		return l.scale(-1)
	}
	if len(ks) == 0 && l.K < 0 {
		return l.scale(-1)
	}
	return l
}

// negAtom: the atom equivalent to NOT(form > 0), i.e. -form + 1 > 0.
func negAtom(a atom) atom {
	return atom{Form: a.Form.scale(-1).add(linConst(1), 1)}
}

// pathPhi returns a phi resolver for a concrete path (edge taken = predecessor on the path).
func pathPhi(path cfgPath) func(*ssa.Phi) ssa.Value {
	prev := map[*ssa.BasicBlock]*ssa.BasicBlock{}
	for i := 1; i < len(path.Blocks); i++ {
		prev[path.Blocks[i]] = path.Blocks[i-1]
	}
	return func(ph *ssa.Phi) ssa.Value {
		pb := prev[ph.Block()]
		if pb == nil {
			return nil
		}
		for i, p := range ph.Block().Preds {
			if p == pb {
				return ph.Edges[i]
			}
		}
		return nil
	}
}

// pathLits lists the inequality literals (forms > 0) and equality literals established
// by the branches of a path.
type lit struct {
	A   atom
	Pol bool
}

func pathLits(path cfgPath, sym symNamer) []lit {
	pr := pathPhi(path)
	var out []lit
	for _, c := range path.Conds {
		a, pol, ok := atomOfP(c.Cond, c.Val, sym, pr)
		if ok {
			out = append(out, lit{a, pol})
		}
	}
	return out
}

func hasIneq(ls []lit, f linForm) bool {
	for _, l := range ls {
		if !l.A.Eq && l.Pol && l.A.Form.eq(f) {
			return true
		}
		// g > 0 established and f = g + k with k >= 0: f > 0 as well (i > q gives i - q + 1 > 0)
		if !l.A.Eq && l.Pol && f.OK && l.A.Form.OK {
			if d := f.add(l.A.Form, -1); d.OK && len(d.Coef) == 0 && d.K >= 0 {
				return true
			}
		}
	}
	return false
}

// remRegistry remembers what the structural symbols "(x % c)" stand for, so that x % c can be rewritten as
// x - c*(x / c) when two forms are compared (normRem).
type remInfo struct {
	X   linForm
	C   int64
	Quo string
}

var remRegistry = map[string]remInfo{}

// normRem rewrites every "(x % c)" symbol of f as x - c*(x / c).
func normRem(f linForm) linForm {
	if !f.OK {
		return f
	}
	out := linConst(f.K)
	for sym, cf := range f.Coef {
		if ri, ok := remRegistry[sym]; ok {
			out = out.add(ri.X.scale(cf), 1).add(linSym(ri.Quo).scale(cf*ri.C), -1)
			continue
		}
		out = out.add(linSym(sym).scale(cf), 1)
	}
	return out
}
