package main

// Loading of /repo's current working tree: go/packages (LoadAllSyntax, type-checked
// from source, CGO off so no cgo tool runs) and go/ssa for every package of the module.

import (
	"fmt"
	"go/token"
	"go/types"
	"os"
	"sort"
	"strings"

	"golang.org/x/tools/go/packages"
	"golang.org/x/tools/go/ssa"
	"golang.org/x/tools/go/ssa/ssautil"
)

const modPath = "github.com/pion/transport/v3"

// LoadCfg names one build configuration.
type LoadCfg struct {
	GOOS, GOARCH string
	Tags         []string
	Overlay      map[string][]byte
}

func (c LoadCfg) String() string {
	s := c.GOOS + "/" + c.GOARCH
	if len(c.Tags) > 0 {
		s += "+" + strings.Join(c.Tags, ",")
	}
	return s
}

func repoDir() string {
	if d := os.Getenv("VERIF_REPO"); d != "" {
		return d
	}
	return "/repo"
}

// Prog is the type-checked, SSA-converted module in one configuration.
type Prog struct {
	Cfg   LoadCfg
	Fset  *token.FileSet
	Pkgs  map[string]*packages.Package // key: path relative to module ("" = root, "vnet", "utils/xor")
	SSA   *ssa.Program
	SPkgs map[string]*ssa.Package
	Funcs []*ssa.Function // every source function of the module incl. anonymous ones, sorted by position

	NFuncs, NBlocks, NInstrs, NCalls int

	cg *cgraph // lazily built call graph (static + CHA over module types)
}

func shortPkg(path string) string {
	if path == modPath {
		return ""
	}
	return strings.TrimPrefix(path, modPath+"/")
}

// Load type-checks and builds SSA. Any type error or missing package is an error
// (undecided => the check fails).
func Load(cfg LoadCfg) (*Prog, error) {
	env := []string{}
	for _, e := range os.Environ() {
		if strings.HasPrefix(e, "GOWORK=") || strings.HasPrefix(e, "GOOS=") || strings.HasPrefix(e, "GOARCH=") ||
			strings.HasPrefix(e, "GOFLAGS=") || strings.HasPrefix(e, "CGO_ENABLED=") {
			continue
		}
		env = append(env, e)
	}
	env = append(env, "GOWORK=off", "GOFLAGS=-mod=mod", "GOPROXY=off", "GOSUMDB=off", "GOTOOLCHAIN=local",
		"CGO_ENABLED=0", "GOOS="+cfg.GOOS, "GOARCH="+cfg.GOARCH)
	pc := &packages.Config{
		Mode:    packages.LoadAllSyntax,
		Dir:     repoDir(),
		Env:     env,
		Tests:   false,
		Overlay: cfg.Overlay,
	}
	if len(cfg.Tags) > 0 {
		pc.BuildFlags = []string{"-tags=" + strings.Join(cfg.Tags, ",")}
	}
	pkgs, err := packages.Load(pc, "./...")
	if err != nil {
		return nil, fmt.Errorf("packages.Load: %w", err)
	}
	if len(pkgs) == 0 {
		return nil, fmt.Errorf("no packages loaded from %s", repoDir())
	}
	var errs []string
	packages.Visit(pkgs, nil, func(p *packages.Package) {
		for _, e := range p.Errors {
			errs = append(errs, e.Error())
		}
	})
	if len(errs) > 0 {
		sort.Strings(errs)
		if len(errs) > 8 {
			errs = errs[:8]
		}
		return nil, fmt.Errorf("type/load errors (%s): %s", cfg, strings.Join(errs, "; "))
	}
	p := &Prog{Cfg: cfg, Pkgs: map[string]*packages.Package{}, SPkgs: map[string]*ssa.Package{}}
	for _, pk := range pkgs {
		if pk.PkgPath == modPath || strings.HasPrefix(pk.PkgPath, modPath+"/") {
			p.Pkgs[shortPkg(pk.PkgPath)] = pk
			p.Fset = pk.Fset
		}
	}
	prog, spkgs := ssautil.AllPackages(pkgs, ssa.InstantiateGenerics)
	prog.Build()
	p.SSA = prog
	for i, pk := range pkgs {
		if spkgs[i] == nil {
			return nil, fmt.Errorf("no SSA for %s", pk.PkgPath)
		}
		if _, ok := p.Pkgs[shortPkg(pk.PkgPath)]; ok {
			p.SPkgs[shortPkg(pk.PkgPath)] = spkgs[i]
		}
	}
	// all source functions of the module
	seen := map[*ssa.Function]bool{}
	var add func(f *ssa.Function)
	add = func(f *ssa.Function) {
		if f == nil || seen[f] || f.Blocks == nil {
			return
		}
		seen[f] = true
		p.Funcs = append(p.Funcs, f)
		for _, a := range f.AnonFuncs {
			add(a)
		}
	}
	for _, sp := range p.SPkgs {
		for _, m := range sp.Members {
			switch m := m.(type) {
			case *ssa.Function:
				if m.Synthetic == "" || m.Name() == "init" {
					add(m)
				}
			case *ssa.Type:
				if named, ok := m.Type().(*types.Named); ok {
					for i := 0; i < named.NumMethods(); i++ {
						add(prog.FuncValue(named.Method(i)))
					}
				}
			}
		}
	}
	sort.Slice(p.Funcs, func(i, j int) bool {
		pi, pj := p.Fset.Position(p.Funcs[i].Pos()), p.Fset.Position(p.Funcs[j].Pos())
		if pi.Filename != pj.Filename {
			return pi.Filename < pj.Filename
		}
		if pi.Offset != pj.Offset {
			return pi.Offset < pj.Offset
		}
		return p.Funcs[i].String() < p.Funcs[j].String()
	})
	for _, f := range p.Funcs {
		p.NFuncs++
		p.NBlocks += len(f.Blocks)
		for _, b := range f.Blocks {
			p.NInstrs += len(b.Instrs)
			for _, in := range b.Instrs {
				if _, ok := in.(ssa.CallInstruction); ok {
					p.NCalls++
				}
			}
		}
	}
	buildCallSiteIndex(p)
	return p, nil
}

// Func resolves a function or method of the module by package (relative path), receiver
// type name ("" for plain functions) and name. nil if absent in this configuration.
func (p *Prog) Func(pkg, recv, name string) *ssa.Function {
	sp := p.SPkgs[pkg]
	if sp == nil {
		return nil
	}
	if recv == "" {
		return sp.Func(name)
	}
	t := sp.Type(recv)
	if t == nil {
		return nil
	}
	named, ok := t.Type().(*types.Named)
	if !ok {
		return nil
	}
	for i := 0; i < named.NumMethods(); i++ {
		if named.Method(i).Name() == name {
			return p.SSA.FuncValue(named.Method(i))
		}
	}
	return nil
}

// Named returns the named type pkg.name of the module, or nil.
func (p *Prog) Named(pkg, name string) *types.Named {
	sp := p.SPkgs[pkg]
	if sp == nil {
		return nil
	}
	t := sp.Type(name)
	if t == nil {
		return nil
	}
	n, _ := t.Type().(*types.Named)
	return n
}

// Pos renders a position relative to the repository root.
func (p *Prog) Pos(pos token.Pos) string {
	if !pos.IsValid() {
		return "-"
	}
	ps := p.Fset.Position(pos)
	f := strings.TrimPrefix(ps.Filename, repoDir()+"/")
	return fmt.Sprintf("%s:%d", f, ps.Line)
}

// fname gives a short stable name for a function: "vnet.(*Router).push", "vnet.NewNet$1".
func fname(f *ssa.Function) string {
	if f == nil {
		return "<nil>"
	}
	s := f.String()
	s = strings.ReplaceAll(s, modPath+"/", "")
	s = strings.ReplaceAll(s, modPath+".", "transport.")
	return s
}

// standalonePkg: a package type-checked on its own (legacy files) whose functions count as module functions.
var standalonePkg *ssa.Package

// inModule reports whether f is a source function of the analysed module.
func inModule(f *ssa.Function) bool {
	if f == nil {
		return false
	}
	for f.Parent() != nil {
		f = f.Parent()
	}
	if f.Pkg != nil && standalonePkg != nil && f.Pkg == standalonePkg {
		return true
	}
	if f.Pkg == nil {
		// method of an instantiated/synthetic wrapper: decide by object package
		if o := f.Object(); o != nil && o.Pkg() != nil {
			return o.Pkg().Path() == modPath || strings.HasPrefix(o.Pkg().Path(), modPath+"/")
		}
		return false
	}
	pp := f.Pkg.Pkg.Path()
	return pp == modPath || strings.HasPrefix(pp, modPath+"/")
}

func pkgOf(f *ssa.Function) string {
	for f.Parent() != nil {
		f = f.Parent()
	}
	if f.Pkg != nil {
		return shortPkg(f.Pkg.Pkg.Path())
	}
	if o := f.Object(); o != nil && o.Pkg() != nil {
		return shortPkg(o.Pkg().Path())
	}
	return "?"
}
