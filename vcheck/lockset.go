package main

// Engine E1: flow-sensitive must-lockset analysis with caller-holds inference.
//
// A lock is identified by the access path of the mutex ("b.mutex",
// "c.listener.connLock"); modes are 'W' (Lock) and 'R' (RLock). defer x.Unlock()
// keeps the lock until the function's RunDefers. For functions that are only ever
// called statically (no func value, not reachable through an interface, not exported)
// the entry lockset is the intersection over all call sites of the caller's lockset
// translated through the actual arguments (fixed point). `go f()` starts with no lock.

import (
	"go/types"
	"sort"
	"strings"

	"golang.org/x/tools/go/ssa"
)

type lockEnt struct {
	Mode  byte   // 'R' or 'W'
	Owner string // struct type that contains the mutex ("packetio.Buffer")
	Field string // name of the mutex field
}

type lockSet map[string]lockEnt

func (s lockSet) clone() lockSet {
	o := lockSet{}
	for k, v := range s {
		o[k] = v
	}
	return o
}

func (s lockSet) String() string {
	var ks []string
	for k, v := range s {
		ks = append(ks, k+"/"+string(v.Mode))
	}
	sort.Strings(ks)
	return "{" + strings.Join(ks, ",") + "}"
}

func meetLS(a, b lockSet) lockSet {
	o := lockSet{}
	for k, v := range a {
		if w, ok := b[k]; ok {
			if w.Mode == 'R' {
				v.Mode = 'R'
			}
			o[k] = v
		}
	}
	return o
}

func eqLS(a, b lockSet) bool {
	if len(a) != len(b) {
		return false
	}
	for k, v := range a {
		if w, ok := b[k]; !ok || w != v {
			return false
		}
	}
	return true
}

type lstate struct {
	held     lockSet
	deferred lockSet
}

type fnLocks struct {
	entry lockSet
	top   bool // entry not yet constrained (no call site seen)
	at    map[ssa.Instruction]lockSet
	// exit locksets after RunDefers, per return
	exits map[*ssa.Return]lockSet
	// unbalanced unlocks (unlock of a lock not held)
	badUnlock []ssa.Instruction
}

type lockAnalysis struct {
	p        *Prog
	fns      map[*ssa.Function]*fnLocks
	inferred map[*ssa.Function]bool // entry set inferred from callers
	sites    map[*ssa.Function][]callSite
}

type callSite struct {
	caller *ssa.Function
	instr  ssa.CallInstruction
	isGo   bool
}

// lockOp classifies a call as a lock operation on the mutex whose address is arg 0.
func lockOp(ci ssa.CallInstruction) (op string, mode byte) {
	switch callName(ci) {
	case "(*sync.Mutex).Lock", "(*sync.RWMutex).Lock":
		return "lock", 'W'
	case "(*sync.RWMutex).RLock":
		return "lock", 'R'
	case "(*sync.Mutex).Unlock", "(*sync.RWMutex).Unlock":
		return "unlock", 'W'
	case "(*sync.RWMutex).RUnlock":
		return "unlock", 'R'
	}
	return "", 0
}

func mutexEnt(v ssa.Value, mode byte) (string, lockEnt) {
	path := accessPath(v)
	ent := lockEnt{Mode: mode}
	if fr, ok := asFieldAddr(v); ok {
		ent.Owner = fr.SName
		ent.Field = fr.Field
	}
	return path, ent
}

// moduleInterfaces lists every interface type declared in the module.
func moduleInterfaces(p *Prog) []*types.Interface {
	var out []*types.Interface
	for _, pk := range p.Pkgs {
		sc := pk.Types.Scope()
		for _, n := range sc.Names() {
			if tn, ok := sc.Lookup(n).(*types.TypeName); ok {
				if it, ok := tn.Type().Underlying().(*types.Interface); ok {
					out = append(out, it)
				}
			}
		}
	}
	return out
}

// dynamicallyCallable: f may be invoked other than through a static call instruction.
func (la *lockAnalysis) computeEligibility() {
	p := la.p
	addrTaken := map[*ssa.Function]bool{}
	for _, f := range p.Funcs {
		instrsOf(f, func(in ssa.Instruction) {
			var callee ssa.Value
			if ci, ok := in.(ssa.CallInstruction); ok && !ci.Common().IsInvoke() {
				callee = ci.Common().Value
				if sc := staticCallee(ci); sc != nil && inModule(sc) {
					_, isGo := in.(*ssa.Go)
					la.sites[sc] = append(la.sites[sc], callSite{f, ci, isGo})
				}
			}
			for _, op := range in.Operands(nil) {
				if *op == nil {
					continue
				}
				if *op == callee {
					// the callee position of a direct call; closures called directly are fine
					if mc, ok := (*op).(*ssa.MakeClosure); ok {
						_ = mc
					}
					continue
				}
				switch v := (*op).(type) {
				case *ssa.Function:
					addrTaken[v] = true
				case *ssa.MakeClosure:
					if fn, ok := v.Fn.(*ssa.Function); ok {
						addrTaken[fn] = true
					}
				}
			}
		})
	}
	ifaces := moduleInterfaces(p)
	for _, f := range p.Funcs {
		if addrTaken[f] || f.Parent() != nil {
			continue
		}
		obj, _ := f.Object().(*types.Func)
		if obj == nil || obj.Exported() {
			continue
		}
		if f.Name() == "init" || f.Name() == "main" {
			continue
		}
		sig := f.Signature
		if sig.Recv() != nil {
			// reachable through a module interface?
			rt := sig.Recv().Type()
			dyn := false
			for _, it := range ifaces {
				has := false
				for i := 0; i < it.NumMethods(); i++ {
					if it.Method(i).Name() == f.Name() {
						has = true
					}
				}
				if has && (types.Implements(rt, it) || types.Implements(types.NewPointer(rt), it)) {
					dyn = true
				}
			}
			if dyn {
				continue
			}
		}
		if len(la.sites[f]) == 0 {
			continue // never called: analyse with empty entry
		}
		la.inferred[f] = true
	}
}

func computeLocksets(p *Prog) *lockAnalysis {
	la := &lockAnalysis{p: p, fns: map[*ssa.Function]*fnLocks{}, inferred: map[*ssa.Function]bool{}, sites: map[*ssa.Function][]callSite{}}
	la.computeEligibility()
	for _, f := range p.Funcs {
		fl := &fnLocks{entry: lockSet{}}
		if la.inferred[f] {
			fl.top = true
		}
		la.fns[f] = fl
	}
	// iterate to a fixed point (entry sets only shrink once constrained)
	for round := 0; round < 30; round++ {
		for _, f := range p.Funcs {
			la.analyseFn(f)
		}
		changed := false
		for _, f := range p.Funcs {
			if !la.inferred[f] {
				continue
			}
			var acc lockSet
			first := true
			for _, cs := range la.sites[f] {
				cl := la.fns[cs.caller]
				if cl == nil {
					continue
				}
				if cl.top && la.inferred[cs.caller] {
					continue // caller not yet constrained: optimistic
				}
				var tr lockSet
				if cs.isGo {
					tr = lockSet{}
				} else if _, isDefer := cs.instr.(*ssa.Defer); isDefer {
					tr = lockSet{}
				} else {
					tr = translateLS(cl.at[cs.instr.(ssa.Instruction)], cs.instr, f)
				}
				if first {
					acc = tr
					first = false
				} else {
					acc = meetLS(acc, tr)
				}
			}
			fl := la.fns[f]
			if first {
				continue
			}
			if fl.top || !eqLS(fl.entry, acc) {
				fl.top = false
				fl.entry = acc
				changed = true
			}
		}
		if !changed {
			break
		}
	}
	// functions still unconstrained (only called from unconstrained cycles): empty entry
	for _, f := range p.Funcs {
		if la.fns[f].top {
			la.fns[f].top = false
			la.fns[f].entry = lockSet{}
			la.analyseFn(f)
		}
	}
	return la
}

// translateLS maps the caller's lockset at a call into the callee's parameter names.
func translateLS(held lockSet, ci ssa.CallInstruction, callee *ssa.Function) lockSet {
	out := lockSet{}
	args := ci.Common().Args
	for path, ent := range held {
		for i, a := range args {
			if i >= len(callee.Params) {
				break
			}
			ap := accessPath(a)
			if path == ap || strings.HasPrefix(path, ap+".") {
				np := callee.Params[i].Name() + path[len(ap):]
				out[np] = ent
			}
		}
		if strings.HasPrefix(path, "global:") || strings.HasPrefix(path, "owner:") {
			out[path] = ent
			continue
		}
		// a lock of an object the callee cannot name (the NAT's mutex while a method of one of its mappings
		// runs): kept as "a mutex of that type is held", which is what the owner rule asks for
		translated := false
		for i, a := range args {
			if i >= len(callee.Params) {
				break
			}
			ap := accessPath(a)
			if path == ap || strings.HasPrefix(path, ap+".") {
				translated = true
			}
		}
		if !translated && ent.Owner != "" {
			k := "owner:" + ent.Owner + "." + ent.Field
			if old, had := out[k]; !had || (old.Mode == 'R' && ent.Mode == 'W') {
				out[k] = ent
			}
		}
	}
	return out
}

func (la *lockAnalysis) analyseFn(f *ssa.Function) {
	fl := la.fns[f]
	fl.at = map[ssa.Instruction]lockSet{}
	fl.exits = map[*ssa.Return]lockSet{}
	fl.badUnlock = nil
	if len(f.Blocks) == 0 {
		return
	}
	in := map[*ssa.BasicBlock]*lstate{}
	in[f.Blocks[0]] = &lstate{held: fl.entry.clone(), deferred: lockSet{}}
	work := []*ssa.BasicBlock{f.Blocks[0]}
	inWork := map[*ssa.BasicBlock]bool{f.Blocks[0]: true}
	bad := map[ssa.Instruction]bool{}
	for len(work) > 0 {
		b := work[0]
		work = work[1:]
		inWork[b] = false
		st := &lstate{held: in[b].held.clone(), deferred: in[b].deferred.clone()}
		for _, ins := range b.Instrs {
			fl.at[ins] = st.held.clone()
			switch x := ins.(type) {
			case *ssa.Call:
				if op, mode := lockOp(x); op == "lock" {
					pth, ent := mutexEnt(x.Call.Args[0], mode)
					st.held[pth] = ent
				} else if op == "unlock" {
					pth, _ := mutexEnt(x.Call.Args[0], mode)
					if _, ok := st.held[pth]; !ok {
						bad[ins] = true
					}
					delete(st.held, pth)
				}
			case *ssa.Defer:
				if op, mode := lockOp(x); op == "unlock" {
					pth, ent := mutexEnt(x.Call.Args[0], mode)
					st.deferred[pth] = ent
				}
			case *ssa.RunDefers:
				for pth := range st.deferred {
					delete(st.held, pth)
				}
			case *ssa.Return:
				fl.exits[x] = st.held.clone()
			}
		}
		for _, s := range b.Succs {
			old := in[s]
			var nw *lstate
			if old == nil {
				nw = &lstate{held: st.held.clone(), deferred: st.deferred.clone()}
			} else {
				nw = &lstate{held: meetLS(old.held, st.held), deferred: meetLS(old.deferred, st.deferred)}
				if eqLS(nw.held, old.held) && eqLS(nw.deferred, old.deferred) {
					continue
				}
			}
			in[s] = nw
			if !inWork[s] {
				inWork[s] = true
				work = append(work, s)
			}
		}
	}
	for ins := range bad {
		fl.badUnlock = append(fl.badUnlock, ins)
	}
	sort.Slice(fl.badUnlock, func(i, j int) bool { return fl.badUnlock[i].Pos() < fl.badUnlock[j].Pos() })
}

// heldAt returns the locks certainly held just before in executes.
func (la *lockAnalysis) heldAt(in ssa.Instruction) lockSet {
	fl := la.fns[in.Parent()]
	if fl == nil {
		return lockSet{}
	}
	return fl.at[in]
}

// holds: is lock `path` held at in (mode 'W' required if needW)?
func (la *lockAnalysis) holds(in ssa.Instruction, path string, needW bool) bool {
	e, ok := la.heldAt(in)[path]
	if !ok {
		return false
	}
	return !needW || e.Mode == 'W'
}

// holdsOwner: some lock whose mutex lives in struct type owner is held at in.
func (la *lockAnalysis) holdsOwner(in ssa.Instruction, owner string, needW bool) bool {
	for _, e := range la.heldAt(in) {
		if e.Owner == owner && (!needW || e.Mode == 'W') {
			return true
		}
	}
	return false
}

// lockBalance checks that at every return of f the lockset equals the entry lockset
// and that no unlock releases a lock that is not held.
func (la *lockAnalysis) lockBalance(o *Obligation, f *ssa.Function) {
	fl := la.fns[f]
	if fl == nil {
		o.Undecide("function not analysed")
		return
	}
	nLockOps := 0
	instrsOf(f, func(in ssa.Instruction) {
		if ci, ok := in.(ssa.CallInstruction); ok {
			if op, _ := lockOp(ci); op != "" {
				nLockOps++
			}
		}
	})
	o.Site(f.Pos(), "%s: %d lock operations, %d returns, entry lockset %s", fname(f), nLockOps, len(fl.exits), fl.entry)
	for ret, ls := range fl.exits {
		if !eqLS(ls, fl.entry) {
			o.Fail(ret.Pos(), "%s returns with lockset %s, entered with %s (lock not released / released twice on some path)", fname(f), ls, fl.entry)
		}
	}
	for _, in := range fl.badUnlock {
		o.Fail(in.Pos(), "%s unlocks a mutex that is not held on every path to this point", fname(f))
	}
}

// holdsAtOriginSite: the accessed object is named through the parameters of private helpers up to a value of a
// calling function (a method of an inner struct reached as b.ring.segments()): the lock base.field is held at
// the call in that function through which the access is reached (single call sites only).
func (la *lockAnalysis) holdsAtOriginSite(in ssa.Instruction, base ssa.Value, field string, needW bool) bool {
	root := origin(base)
	for d := 0; d < 8; d++ {
		switch x := root.(type) {
		case *ssa.FieldAddr:
			root = origin(x.X)
			continue
		case *ssa.UnOp:
			root = origin(x.X)
			continue
		case *ssa.Field:
			root = origin(x.X)
			continue
		}
		break
	}
	var rf *ssa.Function
	switch x := root.(type) {
	case *ssa.Parameter:
		rf = x.Parent()
	case ssa.Instruction:
		rf = x.Parent()
	}
	f := in.Parent()
	if rf == nil || rf == f || curSites == nil {
		return false
	}
	path := accessPath(base) + "." + field
	var up func(g *ssa.Function, d int) (found, held bool)
	up = func(g *ssa.Function, d int) (found, held bool) {
		held = true
		if d > 6 || !isPrivateHelper(g) {
			return false, false
		}
		for _, site := range curSites.sites[g] {
			h := site.Parent()
			if h == rf {
				found = true
				if !la.holds(site, path, needW) {
					held = false
				}
				continue
			}
			if f2, h2 := up(h, d+1); f2 {
				found = true
				if !h2 {
					held = false
				}
			}
		}
		return found, held
	}
	found, held := up(f, 0)
	return found && held
}
