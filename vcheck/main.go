// vcheck decides structural necessary conditions of the properties C01–C20 of
// pion/transport by static analysis of /repo's current working tree (go/packages +
// go/ssa). See /verif/DESIGN.md.
package main

import (
	"flag"
	"fmt"
	"os"
	"runtime/debug"
	"sort"
	"strconv"
	"strings"
	"time"
)

type propDef struct {
	Run  func(c *Ctx)
	Info propInfo
	// extra configurations analysed in the thorough tier
	Thorough []LoadCfg
	// Post runs once after all configurations (for cross-configuration rules)
	Post func(ctxs []*Ctx) map[string]interface{}
}

var props = map[string]*propDef{}

func register(id string, d *propDef) { props[id] = d }

var primaryCfg = LoadCfg{GOOS: "linux", GOARCH: "amd64"}

var allExtraCfgs = []LoadCfg{
	{GOOS: "linux", GOARCH: "386"},
	{GOOS: "linux", GOARCH: "arm"},
	{GOOS: "windows", GOARCH: "amd64"},
	{GOOS: "darwin", GOARCH: "arm64"},
	{GOOS: "js", GOARCH: "wasm"},
	{GOOS: "linux", GOARCH: "amd64", Tags: []string{"packetioSizeHardlimit"}},
}

func main() {
	prop := flag.String("prop", "", "property id (C01..C20) or 'all'")
	tier := flag.String("tier", "quick", "quick | thorough")
	only := flag.String("only", "", "restrict output to obligations whose rule has this prefix (replay)")
	list := flag.Bool("list", false, "print every obligation")
	mutant := flag.String("mutant", "", "internal: evaluate the property on the mutant with this name (self-test)")
	dump := flag.String("dump", "", "debug: print the SSA of functions whose short name contains this string")
	flag.Parse()
	if *dump != "" {
		p, err := Load(primaryCfg)
		if err != nil {
			fmt.Println(err)
			os.Exit(2)
		}
		for _, f := range p.Funcs {
			if strings.Contains(fname(f), *dump) {
				f.WriteTo(os.Stdout)
				fmt.Println("#", debugHelper(f))
				if os.Getenv("VCHECK_PATHS") != "" {
					ps, ok := enumIterPathsU(f, 100000)
					nl := 0
					for _, q := range ps {
						if q.Loop {
							nl++
						}
					}
					fmt.Printf("# iteration paths: %d (loop-ended %d) ok=%v\n", len(ps), nl, ok)
				}
			}
		}
		os.Exit(0)
	}
	if t := os.Getenv("VERIF_TIER"); t != "" && *tier == "" {
		*tier = t
	}
	seed := int64(0)
	if s := os.Getenv("VERIF_SEED"); s != "" {
		if v, err := strconv.ParseInt(s, 10, 64); err == nil {
			seed = v
		}
	}
	if *prop == "" {
		fmt.Fprintln(os.Stderr, "usage: vcheck -prop Cxx [-tier quick|thorough]")
		os.Exit(2)
	}
	ids := []string{*prop}
	if *prop == "all" {
		ids = nil
		for id := range props {
			ids = append(ids, id)
		}
		sort.Strings(ids)
	}
	rc := 0
	for _, id := range ids {
		if r := runProp(id, *tier, seed, *only, *list, *mutant); r > rc {
			rc = r
		}
	}
	os.Exit(rc)
}

func runProp(id, tier string, seed int64, only string, list bool, mutant string) (rc int) {
	started := time.Now()
	d := props[id]
	if d == nil {
		fmt.Printf("property %s has no check\n", id)
		return 2
	}
	defer func() {
		if r := recover(); r != nil {
			fmt.Printf("checker panic while deciding %s: %v\n%s\n", id, r, debug.Stack())
			fmt.Printf("VIOLATION property=%s replay=%s/evidence/replay/%s.panic.json\n", id, verifDir(), id)
			rc = 1
		}
	}()
	cfgs := []LoadCfg{primaryCfg}
	if tier == "thorough" {
		cfgs = append(cfgs, d.Thorough...)
	}
	if mutant != "" {
		return runMutantChild(id, d, mutant)
	}
	var ctxs []*Ctx
	for _, cfg := range cfgs {
		p, err := Load(cfg)
		if err != nil {
			fmt.Printf("%s: cannot load configuration %s: %v\n", id, cfg, err)
			fmt.Printf("VIOLATION property=%s replay=%s/evidence/replay/%s.load.json\n", id, verifDir(), id)
			return 1
		}
		if len(p.Pkgs) < 12 {
			fmt.Printf("%s: only %d module packages loaded in %s (floor 12)\n", id, len(p.Pkgs), cfg)
			fmt.Printf("VIOLATION property=%s replay=%s/evidence/replay/%s.load.json\n", id, verifDir(), id)
			return 1
		}
		c := &Ctx{P: p, Prop: id, Tier: tier}
		flattenFields, flattenPrefer = false, ""
		resetFlatPaths()
		d.Run(c)
		c.finish()
		if only != "" {
			var keep []*Obligation
			for _, o := range c.Obls {
				if strings.HasPrefix(o.Rule, only) {
					keep = append(keep, o)
				}
			}
			c.Obls = keep
		}
		ctxs = append(ctxs, c)
	}
	extra := map[string]interface{}{}
	if d.Post != nil {
		for k, v := range d.Post(ctxs) {
			extra[k] = v
		}
	}
	if tier == "thorough" {
		for k, v := range selfTest(id, d) {
			extra[k] = v
		}
	}
	if list {
		for _, c := range ctxs {
			for _, o := range c.Obls {
				fmt.Printf("  %-10s %-9s %s  [%d sites] %s\n", verdict(o), o.Rule, o.Construct, len(o.Sites), o.Why)
				if os.Getenv("VCHECK_LIST_TEXT") != "" {
					fmt.Printf("      text: %s\n", o.Desc)
				}
				for _, s := range o.Sites {
					fmt.Printf("        %s\n", s)
				}
			}
		}
	}
	return emit(id, tier, seed, ctxs, d.Info, extra, started)
}
