package main

// Sensitivity self-test (thorough tier): every kept seeded change of the property
// (/verif/seeded/<id>-*/patch.diff: independent sub-agent seeds and re-introduced
// pinned-tree defects) is applied to a scratch copy of the affected files of /repo's
// CURRENT tree and supplied to the analysis through packages.Config.Overlay; the rules of
// the property are evaluated on the mutant in a child process. A mutant that is not
// flagged is a weakness of the checker: it is recorded in the evidence and on stderr and
// does not change the exit status (it says nothing about /repo).

import (
	"encoding/json"
	"fmt"
	"os"
	"os/exec"
	"path/filepath"
	"sort"
	"strings"
	"sync"
)

type seedMeta struct {
	Property string `json:"property"`
	Reverse  bool   `json:"reverse"`
	Summary  string `json:"summary"`
}

func seedsFor(id string) []string {
	dir := filepath.Join(verifDir(), "seeded")
	ents, err := os.ReadDir(dir)
	if err != nil {
		return nil
	}
	var out []string
	for _, e := range ents {
		if !e.IsDir() {
			continue
		}
		mb, err := os.ReadFile(filepath.Join(dir, e.Name(), "meta.json"))
		if err != nil {
			continue
		}
		var m seedMeta
		if json.Unmarshal(mb, &m) != nil || m.Property != id {
			continue
		}
		if _, err := os.Stat(filepath.Join(dir, e.Name(), "patch.diff")); err == nil {
			out = append(out, filepath.Join(dir, e.Name()))
		}
	}
	sort.Strings(out)
	return out
}

// overlayFromPatch applies the seed's patch to copies of the files it names and returns
// the overlay (absolute path in the repository -> patched content).
func overlayFromPatch(seedDir string) (map[string][]byte, error) {
	pb, err := os.ReadFile(filepath.Join(seedDir, "patch.diff"))
	if err != nil {
		return nil, err
	}
	var m seedMeta
	if mb, err := os.ReadFile(filepath.Join(seedDir, "meta.json")); err == nil {
		_ = json.Unmarshal(mb, &m)
	}
	var files []string
	for _, l := range strings.Split(string(pb), "\n") {
		if strings.HasPrefix(l, "+++ b/") {
			files = append(files, strings.TrimPrefix(l, "+++ b/"))
		}
	}
	if len(files) == 0 {
		return nil, fmt.Errorf("no files in patch")
	}
	tmp, err := os.MkdirTemp("", "vcheck-mutant-")
	if err != nil {
		return nil, err
	}
	defer os.RemoveAll(tmp)
	for _, f := range files {
		src, err := os.ReadFile(filepath.Join(repoDir(), f))
		if err != nil {
			if os.IsNotExist(err) {
				continue // file created by the patch
			}
			return nil, err
		}
		if err := os.MkdirAll(filepath.Dir(filepath.Join(tmp, f)), 0o755); err != nil {
			return nil, err
		}
		if err := os.WriteFile(filepath.Join(tmp, f), src, 0o644); err != nil {
			return nil, err
		}
	}
	args := []string{"-p1", "-s", "-f", "-d", tmp, "-i", filepath.Join(seedDir, "patch.diff")}
	if m.Reverse {
		args = append([]string{"-R"}, args...)
	}
	if out, err := exec.Command("patch", args...).CombinedOutput(); err != nil {
		return nil, fmt.Errorf("patch does not apply to the current tree: %s", strings.TrimSpace(string(out)))
	}
	ov := map[string][]byte{}
	for _, f := range files {
		b, err := os.ReadFile(filepath.Join(tmp, f))
		if err != nil {
			return nil, err
		}
		ov[filepath.Join(repoDir(), f)] = b
	}
	return ov, nil
}

type mutantResult struct {
	Seed    string   `json:"seed"`
	Applied bool     `json:"applied"`
	Flagged bool     `json:"flagged"`
	Rules   []string `json:"rules,omitempty"`
	Note    string   `json:"note,omitempty"`
}

// runMutantChild evaluates the property on one mutant and prints a JSON result.
func runMutantChild(id string, d *propDef, seedDir string) int {
	res := mutantResult{Seed: filepath.Base(seedDir)}
	ov, err := overlayFromPatch(seedDir)
	if err != nil {
		res.Note = err.Error()
		b, _ := json.Marshal(res)
		fmt.Println(string(b))
		return 0
	}
	res.Applied = true
	cfg := primaryCfg
	cfg.Overlay = ov
	func() {
		defer func() {
			if r := recover(); r != nil {
				res.Flagged = true
				res.Rules = append(res.Rules, "checker-panic")
				res.Note = fmt.Sprint(r)
			}
		}()
		p, err := Load(cfg)
		if err != nil {
			res.Applied = false
			res.Note = "mutant does not type-check: " + err.Error()
			return
		}
		c := &Ctx{P: p, Prop: id, Tier: "quick"}
		flattenFields, flattenPrefer = false, ""
		resetFlatPaths()
		d.Run(c)
		c.finish()
		seen := map[string]bool{}
		for _, o := range c.Obls {
			if o.Failed && !seen[o.Rule] {
				seen[o.Rule] = true
				res.Rules = append(res.Rules, o.Rule)
			}
		}
		res.Flagged = len(res.Rules) > 0
	}()
	b, _ := json.Marshal(res)
	fmt.Println(string(b))
	return 0
}

func runSelfTest(id string, d *propDef) map[string]interface{} {
	seeds := seedsFor(id)
	if len(seeds) == 0 {
		return map[string]interface{}{"selftest": "no seeded changes recorded for this property"}
	}
	exe, err := os.Executable()
	if err != nil {
		return map[string]interface{}{"selftest": "cannot locate own executable: " + err.Error()}
	}
	results := make([]mutantResult, len(seeds))
	sem := make(chan struct{}, 8)
	var wg sync.WaitGroup
	for i, s := range seeds {
		wg.Add(1)
		go func(i int, s string) {
			defer wg.Done()
			sem <- struct{}{}
			defer func() { <-sem }()
			out, err := exec.Command(exe, "-prop", id, "-mutant", s).Output()
			r := mutantResult{Seed: filepath.Base(s)}
			if err != nil {
				r.Note = "child failed: " + err.Error()
			} else {
				lines := strings.Split(strings.TrimSpace(string(out)), "\n")
				if json.Unmarshal([]byte(lines[len(lines)-1]), &r) != nil {
					r.Note = "child output not understood"
				}
			}
			results[i] = r
		}(i, s)
	}
	wg.Wait()
	applied, flagged, na := 0, 0, 0
	var missed []string
	for _, r := range results {
		switch {
		case !r.Applied:
			na++
		case r.Flagged:
			applied++
			flagged++
		default:
			applied++
			missed = append(missed, r.Seed)
			fmt.Fprintf(os.Stderr, "selftest: %s: seeded change %s is NOT flagged by the rules of %s (checker weakness, not a violation)\n", id, r.Seed, id)
		}
	}
	fmt.Printf("selftest property=%s mutants_applied=%d flagged=%d not_applicable=%d\n", id, applied, flagged, na)
	return map[string]interface{}{
		"selftest": map[string]interface{}{
			"what":            "seeded property-breaking changes (independent sub-agent seeds and re-introduced pinned-tree defects) applied to the current tree through an overlay and analysed with this property's rules",
			"mutants_applied": applied, "mutants_flagged": flagged, "operators_not_applicable": na, "missed": missed, "results": results,
		},
	}
}
