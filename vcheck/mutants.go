package main

func runSelfTest(id string, d *propDef) map[string]interface{} { return map[string]interface{}{} }

func runMutantChild(id string, d *propDef, mutant string) int { return 2 }
