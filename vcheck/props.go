package main

var commonAssumptions = []string{
	"go/types and go/ssa (x/tools v0.29.0) model the program faithfully; sync, sync/atomic, channels and time.Timer behave as documented",
	"lock objects are not aliased under different access paths (every mutex is a struct field reached through its owner)",
	"no reflection/unsafe in the analysed packages (utils/xor legacy files excepted)",
	"user-supplied NIC / ChunkFilter / callback implementations are outside the call graph",
	"package-level error variables (io.EOF, context.DeadlineExceeded, ErrFull, ...) are non-nil sentinels",
}

func init() {
	register("C20", &propDef{
		Run: runC20,
		Info: propInfo{
			Explanation: "XorBytes: (R1) the build constraints (//go:build expressions parsed with go/build/constraint plus GOARCH file-name suffixes) are evaluated over the complete truth table of the tags that occur x {arm, other}: exactly one file defining XorBytes is selected in every row; (R2) the definition active in each analysed configuration is a single-block pure delegation 'return subtle.XORBytes(dst, {a,b})' with no other instruction - crypto/subtle's contract then gives the property - or else satisfies the legacy rules; (R3) legacy files that no available toolchain selects are parsed and type-checked stand-alone and checked structurally: n is the minimum of the two lengths (guarded phi), 0 is returned only on n == 0, every dispatch arm receives (dst, a, b, n) with pointers &x[0], n is returned, every xor loop uses one index for destination and operands, steps by 1, and the loops cover exactly [0,n) (byte loop) or [0,n/w) words + [n-n%w,n) bytes; a xor routine writes no memory outside these loops and XorBytes has no explicit panic (decided path by path with private helpers inlined; the legacy file is type-checked together with the files a build selecting it would also select). Every xor routine of the file (also one the analysed configuration folds out of the dispatch) stores into dst[i] exactly a[i] ^ b[i] - destination and operands traced back to the routine's own parameters through word views - and contains no copy/clear; an unconstrained XorBytes that only forwards to the build-constrained function is followed (R2w). The assembly bodies and the standard library are trusted.",
			RuleText:    "one obligation per rule / file / configuration; sites are files, truth-table rows, calls and loops; non-trivial = matched at least one site",
			Assumptions: append([]string{"crypto/subtle.XORBytes implements bytewise XOR over min(len(x),len(y)) with exact or no overlap (standard library contract)", "xor_arm.s implements the documented routines"}, commonAssumptions...),
		},
		Thorough: []LoadCfg{{GOOS: "linux", GOARCH: "arm"}, {GOOS: "linux", GOARCH: "386"}, {GOOS: "darwin", GOARCH: "arm64"}, {GOOS: "js", GOARCH: "wasm"}},
	})
	register("C18", &propDef{
		Run: runC18,
		Info: propInfo{
			Explanation: "dpipe: Write queues a freshly allocated copy on the write channel (taint) and every successful Write has passed the send (also for an empty message); Pipe cross-wires two distinct channels and gives each end its own closed channel, closed once (sync.Once) by that end only; Read takes one message per return and reports len(message) only on the edge len(message) <= len(buffer), else len(buffer). Bridge: Push copies (taint); for Push, Len, Reorder, Drop, DropNextNWrites, ReorderNextNWrites and Filter the code of direction 0 and of direction 1 is identical up to the renaming 0<->1 (mirror comparison of canonical serialisations of the two branches: first divergence is reported); a completed reorder burst is appended to the existing queue and the stack is then reset to nil on every path (no aliasing, no re-delivery); Tick offers the head (index 0) of each queue to the peer's unbuffered read channel without blocking and removes it exactly on the success edge. dpipe Read never consults the capacity of the caller's slice nor re-slices it beyond its length; once a message is on the reorder stack every path of Push that finds the countdown at 0 flushes; Drop replaces the queue by queue[:offset] + queue[min(offset+n,len):] (symbolic, per path of the helper). Not decided: that reorder/drop scripts realise exactly the intended permutation.",
			RuleText:    "one obligation per rule / per mirrored method; sites are sends, stores, returns, branch regions; non-trivial = matched at least one site",
			Assumptions: commonAssumptions,
		},
	})
	register("C17", &propDef{
		Run: runC17,
		Info: propInfo{
			Explanation: "Sibling rule over the six context-aware I/O functions (found by signature: context + []byte + an I/O invoke on the wrapped connection field; floor 6), direction d in {Read, Write}: the watcher goroutine forces a past d-deadline only in the ctx.Done() case of a select that also waits for completion, then waits for the operation (receive from done), then restores the zero d-deadline on every path where forcing succeeded, touches no other direction's deadline, and signals wg.Done only afterwards; the outer function itself never manipulates deadlines; close(done) then wg.Wait() lie on every path from the I/O call to the return while the direction's mutex is still held; wg.Add precedes go which precedes the I/O; the returned byte count is always the wrapped call's n and the context's error is substituted only on the edge ctx.Err() != nil and n == 0; per-direction mutexes differ; the closed test dominates the I/O; lock balance. The forced deadline is a fixed past instant (time.Unix with small constants, directly or through a package variable only its initialiser assigns), never derived from the context; the watcher is started with the direction's mutex already held; completion may be signalled by wg.Done/wg.Wait or by closing a channel of its own that the caller receives from. Promptness depends on the wrapped connection honouring deadlines and is not decided.",
			RuleText:    "one obligation per rule per sibling function; sites are calls, selects, returns; non-trivial = matched at least one site",
			Assumptions: append([]string{"the wrapped net.Conn / net.PacketConn honours Set{Read,Write}Deadline"}, commonAssumptions...),
		},
	})
	register("C04", &propDef{
		Run: runC04,
		Info: propInfo{
			Explanation: "Replay-detector rules decided by symbolic evaluation of every acyclic path of Check and of the accept closure (linear forms with store-to-load forwarding, no concrete inputs): every accepting path has established seq <= max and either 'newer' or (inside the window by the unsigned / folded distance, and the bit at exactly that distance clear); every refusing path refuses for one of the legitimate reasons; the wrapping detector folds the distance with exactly d > max/2 and d <= -max/2; Check writes nothing (purity); every path of accept calls SetBit exactly once, at the very distance Check tested (0 after moving the head), moves the head exactly when the number is newer, shifting by exactly the distance first; Bit/SetBit guard i < n and address word i/64; the truncation mask of the top word has width >= n%64 (affine check at both ends of [1,63]) and 64 for n%64 == 0. Lsh(n), n = 64q+r, writes into each word exactly (bits[i] << n) | bits[i-q] << r | bits[i-q-1] >> (64-r) with the carry terms present exactly when their index is >= 0 (term sets compared per path of one loop iteration); the plain detector's unsigned arithmetic cannot wrap around (every subtraction is on a path that established the order of its operands, no two variable quantities are added); its accept reports 'latest' exactly when the head moves or in the initial position. No ordering comparison has as operand a conversion of the sequence number, the maximum or the head to a signed or narrower type, and the shift routine takes an unsigned count that reaches it without passing through a signed type (R8). Not decided: truncation of a jump of 2^32 or more to a 32-bit uint on 32-bit platforms.",
			RuleText:    "one obligation per rule per detector; a site is one path of Check / accept with its literal set, or a word access; non-trivial = matched at least one path",
			Assumptions: commonAssumptions,
		},
		Thorough: []LoadCfg{{GOOS: "linux", GOARCH: "386"}, {GOOS: "linux", GOARCH: "arm"}},
	})
	register("C05", &propDef{
		Run: runC05,
		Info: propInfo{
			Explanation: "Same engine as C04 (symbolic evaluation of all paths of Check/accept as linear forms): purity of Check (no field of the detector and no mask operation is written outside the accept closure); the acceptance predicate of every path equals the sliding-window rule in both directions (accepting paths carry all required literals, refusing paths carry a legitimate reason) including the exact fold boundaries of the wrapping detector and unsigned distance comparisons in the plain detector; accept reports true exactly on the head-moving path in the wrapping detector. Rules R6 (no wrap-around of the plain detector's unsigned arithmetic), the 'latest' result of the plain detector and R7 (word terms of Lsh) were added in the build round and uncovered two further defects of the pinned tree (too-old test wrapping near 2^64; late 0 reported as latest), both repaired.",
			RuleText:    "as C04",
			Assumptions: commonAssumptions,
		},
		Thorough: []LoadCfg{{GOOS: "linux", GOARCH: "386"}, {GOOS: "linux", GOARCH: "arm"}},
	})
	register("C01", &propDef{
		Run: runC01,
		Info: propInfo{
			Explanation: "Delivery rules of the virtual network on SSA/CFG/call graph: WriteTo copies the payload into a fresh slice (taint), every successful WriteTo has handed the chunk to the network, and Clone deep-copies it; every function on the datagram path forwards at most once per datagram (path counting per call / per dequeued chunk) and forwards the very chunk it received/dequeued/translated; a datagram is dropped only on the enumerated drop edges (each conditional edge that cannot reach a forward any more is classified by the kind of its guard and compared with a frozen table); the queue is a FIFO consumed only by processChunks, which runs only in the single goroutine Start launches on the not-started edge under the mutex; the host delivers to the socket looked up by the destination address on the found edge; towards the parent exactly the outbound translation's non-error result is pushed; the wake-up channel has capacity >= 1 and a token follows every successful enqueue; sends on a socket's receive queue are non-blocking, under its mutex, on the !closed edge, and the queue is closed once in that critical section; no go/deferred forward on the datagram path; the chunk carries the determined source IP, the local port and the caller's destination. The host takes its loopback shortcut on the destination IP of the datagram and only then delivers locally; the wait processChunks reports to the forwarding loop is 0 only when the queue was found empty and otherwise the head's remaining delay against the very clock reading of the due test (positive: the loop does not wait for a push while a chunk is queued). NAT address correctness is C02/C03; capacity conditions and timing are not decided.",
			RuleText:    "one obligation per rule; sites are forwards, drop edges, channel operations, stores and call-graph edges; non-trivial = matched at least one site",
			Assumptions: commonAssumptions,
		},
	})
	register("C13", &propDef{
		Run: runC13,
		Info: propInfo{
			Explanation: "Address-uniqueness rules: the automatic allocator returns an address only on the not-present edge of a lookup of that very address in the NIC table, is always called with the router mutex held (caller-holds inference) and bounds the host byte before advancing it, reporting exhaustion otherwise; registration in the NIC table (one site) is dominated by the subnet test on that very address; a socket is created/inserted only after the ownership test and after a successful ephemeral search in 5000-5999 or the not-found edge of the conflict lookup (edge cut), with every caller holding the host mutex exclusively; assignPort returns exactly the port it probed free; the ephemeral search runs over the IP of the very address the socket is then bound to; insert's conflict predicate and find's match predicate are both (stored IP unspecified || equal IP) on the bucket of the port; Close releases the socket's own address exactly on the !closed edge and the host deletes it from the table; inbound datagrams go to the socket found for their destination.",
			RuleText:    "one obligation per rule; sites are returns, map updates, calls, call-graph edges; non-trivial = matched at least one site",
			Assumptions: commonAssumptions,
		},
	})
	register("C02", &propDef{
		Run: runC02,
		Info: propInfo{
			Explanation: "NAT mapping rules on SSA/CFG/call graph: the mapping key is chosen by an exhaustive switch whose classes are none / destination IP / destination IP:port and is combined with the source address; every key used on outboundMap/inboundMap (followed through the lookup helpers to their call sites) has the separator skeleton proto:local:bound resp. proto:mapped, and insert and delete keys agree component by component (through the values stored in the mapping at creation); creation registers in both tables, removal deletes from both; the expiry is written only by functions not reachable from the inbound translation and every outbound reuse refreshes (in the helper or on the caller's found edge); lookup helpers hand a mapping out only on the not-expired edge and remove on the expired edge; the external port is base + counter mod span inside [1,65535] and an address is handed out only on the edge where the inbound table has no live mapping for that very address; 1:1 helpers are index-aligned mirror images and rewrite only the respective side with the port preserved. Every store to a mapping's expiry is time.Now().Add(MappingLifeTime) (the idle timer restarts at the outbound datagram; lifetimes are not banked). Wall-clock lifetimes are not decided.",
			RuleText:    "one obligation per rule; sites are switch tables, key uses, stores, returns; non-trivial = matched at least one site",
			Assumptions: commonAssumptions,
		},
	})
	register("C03", &propDef{
		Run: runC03,
		Info: propInfo{
			Explanation: "The mapping rules of C02 are evaluated here too under the prefix M. (one live owner per external address, agreeing keys, expiry: 'the internal address and port that created the mapping' presupposes them). NAT filtering rules: both FilteringBehavior switches are exhaustive and agree (outbound records none/dst IP/dst IP:port, inbound tests none/src IP/src IP:port); in NAPT mode the destination rewrite is dominated by (live mapping found for the destination) and by the ok edge of the exact lookup filters[key] on that mapping, and rewrites to that mapping's .local on the clone that is returned; every successful NAPT outbound translation passes an insert of the selected key into the mapping's filter set or the ok edge of its lookup, and new mappings get a fresh set; everything reachable from the inbound translation inserts into no table / permission set and stores to no mapping or NAT field (effects); the child router pushes exactly the translation's result and only on the nil-error edge, synchronously; 1:1 unpaired destinations cannot reach a successful return.",
			RuleText:    "one obligation per rule; sites are switch tables, calls, map operations, returns; non-trivial = matched at least one site",
			Assumptions: commonAssumptions,
		},
	})
	register("C14", &propDef{
		Run: runC14,
		Info: propInfo{
			Explanation: "Delay rules on SSA/CFG: every peek() result is nil-tested or comma-ok asserted before a use that panics on an empty queue (belief contradiction across the five call sites), and fields of a comma-ok asserted head are used only on the ok edge; the delay filter pops and forwards only on the due edge (deadline before now), forwards exactly the wrapped chunk, once per pop; the due time is time.Now()+configured delay computed at arrival, queued before the notification; only timedChunk values enter the filter queue; every path from a timer tick, from a timer.Stop() and from an arrival whose queue head is still present to the next wait re-arms the timer (failed assertions of a non-nil head are infeasible by the previous rule); the timer channel is drained only when Stop() failed; the router pops only chunks whose timestamp is not after now-minDelay (exact linear form of the cut-off) and stamps chunks before enqueueing; the queue is a FIFO (append at end, read/remove index 0). The wait reported to the forwarding loop is 0 only for an empty queue and otherwise (head timestamp + minDelay) - T with the T of the cut-off test (R9). Wall-clock lower bounds and jitter values are not decided.",
			RuleText:    "one obligation per rule; sites are peek/pop/forward/timer operations and stores; non-trivial = matched at least one site",
			Assumptions: commonAssumptions,
		},
	})
	register("C15", &propDef{
		Run: runC15,
		Info: propInfo{
			Explanation: "Token-bucket rules on SSA/CFG/call graph: every store to the token count is min(float64(maxBurst), .) or subtracts the forwarded size, and the refill executes the capped store on every path under the filter mutex; there is exactly one forwarding site, in the drain loop, guarded by tokens >= size of the peeked head, which is the forwarded value; per loop iteration exactly one pop and one decrement by that size are paired with the forward, and nothing is popped without being forwarded; the queue is popped only by the drain loop and fed only by run with the arriving chunk on every path (discard only via push refusing); single consumer goroutine started once; FIFO queue shape; peek results nil-tested; the constructor builds the queue with no count limit and with the size field read after the caller's options were applied (a field some option sets). The queue's byte occupancy changes only by +len(payload) of the chunk pushed and -len(payload) of the chunk popped, and push refuses on occupancy+len(payload) (one measure on both sides). The byte bound over every interval (floating-point/time arithmetic) is not decided.",
			RuleText:    "one obligation per rule; sites are stores, queue operations, forwards and call-graph edges; non-trivial = matched at least one site",
			Assumptions: commonAssumptions,
		},
	})
	register("C16", &propDef{
		Run: runC16,
		Info: propInfo{
			Explanation: "Loss-filter rules: exactly one uniform draw rand.Intn(100) per datagram; the drop decision, extracted as a decision structure over linear atoms and compared by a complete truth table, is 'drop iff draw < chance' on the configured int chance stored unchanged by the constructor (so chance <= 0 never drops and chance >= 100 always does - exact end points); at most one forward, of the very chunk received, to the wrapped NIC; no other effect. The shared generator is re-seeded only from the nanosecond clock. The dropped fraction for 0 < chance < 100 is statistical and not decided.",
			RuleText:    "one obligation per rule; sites are the draw, branch atoms, stores and forwards; non-trivial = matched at least one site",
			Assumptions: append([]string{"math/rand.Intn(n) is uniform over [0,n)"}, commonAssumptions...),
		},
	})
	register("C10", &propDef{
		Run: runC10,
		Info: propInfo{
			Explanation: "Sibling rule over every module type that owns a read deadline (found by its SetReadDeadline method; floor 5): SetReadDeadline hands its argument on every path to a level-triggered deadline.Deadline held in a field, or to another owner it also reads from; SetDeadline reaches it with the same argument; no function reachable from the type's Read methods receives from a one-shot timer channel (time.Timer.C, time.After); each non-delegating Read tests Done() without blocking first, every blocking wait on a data channel of the owner is a select with a Done() case dominated by that pre-check, every Done() branch returns a timeout-class error (value analysis of Timeout()), and timeout-class errors are returned only inside Done() branches (no spurious timeout). A read that delegates to another read returns that read's error whenever it is not nil (uncovered ReadFromUDP replacing a timeout by ErrNotUDPAddress; repaired). The Deadline bookkeeping itself (C09 rules) is included. When the timeout fires in wall-clock terms is not decided.",
			RuleText:    "one obligation per owner type (R1) and per Read method (R2); sites are calls, selects and returns; non-trivial = matched at least one site",
			Assumptions: append([]string{"wrapped net.Conn implementations outside the module honour their own deadlines"}, commonAssumptions...),
		},
		Thorough: []LoadCfg{{GOOS: "js", GOARCH: "wasm"}, {GOOS: "windows", GOARCH: "amd64"}},
	})
	register("C11", &propDef{
		Run: runC11,
		Info: propInfo{
			Explanation: "Demultiplexing rules of the UDP listener on SSA/CFG/call graph: the connection table is looked up, inserted and deleted with String() of the same remote address (the datagram's in getConn, the conn's own rAddr - recorded from that address by newConn - in both Close paths); the dispatcher writes its own payload into the buffer of the conn returned for its own address, only when a conn was reported; address, payload and length come from the same read / the same batch index; a conn is registered only on the success edge of the non-blocking enqueue, on the accepting edge, under connLock, and it is the queued conn; the accept filter's false edge cannot reach registration; a single goroutine (read loop started once by the constructor, no go on the dispatch path) dispatches; the reused receive buffer is never retained (taint through getConn and Buffer.Write); Conn.Close unregisters its own key under connLock on every path; readers keep no per-remote cache. Every read path receives into payload buffers of the package's one receive size. Byte identity inside the buffer is C06.",
			RuleText:    "one obligation per rule; sites are map operations, calls, stores and call-graph edges; non-trivial = matched at least one site",
			Assumptions: commonAssumptions,
		},
		Thorough: []LoadCfg{{GOOS: "windows", GOARCH: "amd64"}, {GOOS: "darwin", GOARCH: "arm64"}, {GOOS: "linux", GOARCH: "386"}},
	})
	register("C12", &propDef{
		Run: runC12,
		Info: propInfo{
			Explanation: "Reference-counting discipline that decides when the shared socket is closed, on SSA/CFG + lockset: exactly one close site of the socket, dominated by connWG.Wait(); every Done is once-only (sync.Once closure) or undoes the Add of its own path; every Add is in the constructor before any goroutine starts, or under connLock on the accepting edge, in the same critical section as and before the enqueue; a conn leaving the backlog is handed to Accept's caller or released (drain unregisters + Done under connLock; failed enqueue gives the reference back; Accept returns what it receives and never Adds); Conn.Close must-pass buffer.Close and unregisters; listener Close clears accepting and closes doneCh (once) before taking connLock, and drops its own reference only after the drain's critical section; Accept fails after doneCh is closed; lock balance. connLock is not released between reading the accepting flag and the enqueue. Goroutine termination and port reuse are consequences of the count reaching zero exactly once and are not separately decided.",
			RuleText:    "one obligation per rule; sites are WaitGroup operations, channel operations, lock operations and returns; non-trivial = matched at least one site",
			Assumptions: commonAssumptions,
		},
		Thorough: []LoadCfg{{GOOS: "windows", GOARCH: "amd64"}, {GOOS: "darwin", GOARCH: "arm64"}},
	})
	register("C06", &propDef{
		Run: runC06,
		Info: propInfo{
			Explanation: "Structural integrity rules of packetio.Buffer decided on the SSA of Write/Read/grow/available/size over all paths: Write copies the caller's slice (taint: the slice value reaches no store/channel/map/closure); every store to contents/occupancy is on the false edges of the size (>=65536) and closed tests and under the mutex; no error return is reachable after a store (refusal is side-effect free) and growth only re-linearises into a fresh array (head=0, tail=bytes copied, strictly larger); the 2-byte header is written and read with the same byte order; Read advances head by the decoded length and reports (len(buffer), ErrShortBuffer) exactly on the paths that established len(buffer) < length and (length, nil) on those that established length <= len(buffer) (one loop iteration, path by path); on every packet-taking path the head ends, by symbolic evaluation with store-to-load forwarding, at (old head + 2 + length) modulo len(data) whatever was copied; after every advance of head/tail a freshly loaded wrap test precedes the next use; count++/count-- are paired with stored/returned packets; the free-space test keeps one byte free (exact linear normal form). Growth copies exactly data[head:tail] (contiguous path) or data[head:] followed by data[:tail] right behind it (wrapped path). Not decided: the tail arithmetic of Write at every ring offset and the contents copied around the wrap (value-level).",
			RuleText:    "one obligation per rule per anchored function/helper; a site is a matched store, copy, return, branch or path; non-trivial = matched at least one site",
			Assumptions: commonAssumptions,
		},
		Thorough: []LoadCfg{{GOOS: "linux", GOARCH: "amd64", Tags: []string{"packetioSizeHardlimit"}}, {GOOS: "linux", GOARCH: "386"}, {GOOS: "js", GOARCH: "wasm"}},
	})
	register("C07", &propDef{
		Run: runC07,
		Info: propInfo{
			Explanation: "Limit and occupancy rules of packetio.Buffer: the limit test of Write is extracted as a decision structure over linear atoms and compared, by a complete truth table over its distinct atoms, with 'refuse iff (limitCount>0 and count+1>limitCount) or (limitSize>0 and size+2+len>limitSize)' (any equivalent comparison spelling has the same normal form); all stores are dominated by that test; no error return is reachable after a store; growth re-linearises and is capped at limitSize+1 / 4 MiB; Count/Size return the occupancy fields/helper under the mutex, the setters store their argument under the mutex and nobody else writes the limits; the occupancy and free-space helpers have the exact linear forms tail-head (+len) and size+3<=available; count updates are paired. The ring rules of C06 are evaluated here too under the prefix Ring. (Size() is tail - head: the indices must be advanced by exactly what was stored/consumed and wrapped). Not decided: exactness at every occupancy of the growth arithmetic.",
			RuleText:    "one obligation per rule; sites are branch atoms, stores, returns and helper paths; non-trivial = matched at least one site",
			Assumptions: commonAssumptions,
		},
		Thorough: []LoadCfg{{GOOS: "linux", GOARCH: "amd64", Tags: []string{"packetioSizeHardlimit"}}, {GOOS: "linux", GOARCH: "386"}},
	})
	register("C09", &propDef{
		Run: runC09,
		Info: propInfo{
			Explanation: "Typestate/counting analysis of deadline.Deadline: every acyclic path of Set and of the timer callback is enumerated over the abstract entry state {stopped, started, exceeded} (loads of state before the first store denote the entry value, so infeasible combinations are pruned), the outcome of timer.Stop() and the class of the argument (zero/future/past). Checked per feasible path: delta(pending) = #arms - [Stop()==true]; Stop() is called first and exactly when the entry state is started; outcome by argument class (arm xor close, final state); a fresh done channel iff the entry state is exceeded, before any close/arm; the argument is stored; the callback decrements first and signals only on pending==0 and state==started, closing the channel value read under the lock; Err/Done/Deadline return the right fields; lock balance. The runtime timer is stopped/re-armed/created only under the mutex and armed with exactly time.Until(t) handed on unchanged by every helper (R8); Err may read a state-indexed table filled once by the package initialiser. These are the bookkeeping conditions that neutralise a stale callback for every sequence of Sets and every callback interleaving; wall-clock exactness and the runtime Timer contract are trusted, not decided.",
			RuleText:    "one obligation per rule; a site is one feasible (path x entry state x Stop outcome x argument class) combination, or a matched return/lock operation; non-trivial = at least one feasible path matched",
			Assumptions: append([]string{"time.Timer / time.AfterFunc: Stop() returns true iff the callback was prevented from running; Reset re-arms"}, commonAssumptions...),
		},
		Thorough: []LoadCfg{{GOOS: "js", GOARCH: "wasm"}, {GOOS: "windows", GOARCH: "amd64"}},
	})
	register("C08", &propDef{
		Run: runC08,
		Info: propInfo{
			Explanation: "Wake-up discipline of packetio.Buffer decided on the SSA/CFG of Write, Read and Close over all paths: the writer posts the token (non-blocking send on the capacity>=1 wake-up channel) on every success path, after accounting the packet, under the lock; a woken reader re-tests head/tail under the lock before any return; EOF only on empty-then-closed; the channel is closed exactly once under the lock with the closed flag, and every send is ordered with that close; a reader that takes a packet re-posts the token unless an edge establishes that the buffer is now empty or closed (baton pass: the necessary condition for 'no reader parked while a packet is buffered' with a capacity-1 token); the read deadline is tested before locking and waited on together with the token; lock balance. Fairness and timing are not decided.",
			RuleText:    "one obligation per rule R1-R8 per anchored function; a site is a matched instruction (send, select, close, return, lock op); non-trivial = matched at least one site",
			Assumptions: commonAssumptions,
		},
		Thorough: []LoadCfg{{GOOS: "js", GOARCH: "wasm"}, {GOOS: "linux", GOARCH: "amd64", Tags: []string{"packetioSizeHardlimit"}}},
	})
	register("C19", &propDef{
		Run: runC19,
		Info: propInfo{
			Explanation: "Static lockset analysis (flow-sensitive must-locksets over go/ssa with caller-holds inference) of every struct field and package variable of vnet, packetio, deadline, udp and dpipe: a field written after construction must be accessed under the object's (or its owner's) mutex, writes exclusively; atomically accessed words are never accessed plainly; package variables written at run time are atomic or locked; the listed exemptions (set-up phase, goroutine-confined, exclusively owned message objects) have their side conditions verified; every lock is released on all paths. A channel closed under a mutex is sent on only under a mutex of the same object type; a package variable holding a standard-library object that is not safe for concurrent use (*rand.Rand, bytes.Buffer, ...) is used only under a package-level lock. A consistent lock discipline is sufficient for the absence of data races on these fields for every client program and schedule; races through user-supplied callbacks are not decided.",
			RuleText:    "one obligation per (type.field) that is written after construction, per atomic word, per run-time-written package variable, per exemption entry and per function with lock operations; a site is one access / lock operation; non-trivial = obligation matched at least one program site",
			Assumptions: commonAssumptions,
		},
		Thorough: []LoadCfg{{GOOS: "js", GOARCH: "wasm"}, {GOOS: "windows", GOARCH: "amd64"}, {GOOS: "linux", GOARCH: "386"}},
	})
}
