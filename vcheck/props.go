package main

var commonAssumptions = []string{
	"go/types and go/ssa (x/tools v0.29.0) model the program faithfully; sync, sync/atomic, channels and time.Timer behave as documented",
	"lock objects are not aliased under different access paths (every mutex is a struct field reached through its owner)",
	"no reflection/unsafe in the analysed packages (utils/xor legacy files excepted)",
	"user-supplied NIC / ChunkFilter / callback implementations are outside the call graph",
}

func init() {
	register("C08", &propDef{
		Run: runC08,
		Info: propInfo{
			Explanation: "Wake-up discipline of packetio.Buffer decided on the SSA/CFG of Write, Read and Close over all paths: the writer posts the token (non-blocking send on the capacity>=1 wake-up channel) on every success path, after accounting the packet, under the lock; a woken reader re-tests head/tail under the lock before any return; EOF only on empty-then-closed; the channel is closed exactly once under the lock with the closed flag, and every send is ordered with that close; a reader that takes a packet re-posts the token unless an edge establishes that the buffer is now empty or closed (baton pass: the necessary condition for 'no reader parked while a packet is buffered' with a capacity-1 token); the read deadline is tested before locking and waited on together with the token; lock balance. Fairness and timing are not decided.",
			RuleText:    "one obligation per rule R1-R8 per anchored function; a site is a matched instruction (send, select, close, return, lock op); non-trivial = matched at least one site",
			Assumptions: commonAssumptions,
		},
		Thorough: []LoadCfg{{GOOS: "js", GOARCH: "wasm"}, {GOOS: "linux", GOARCH: "amd64", Tags: []string{"packetioSizeHardlimit"}}},
	})
	register("C19", &propDef{
		Run: runC19,
		Info: propInfo{
			Explanation: "Static lockset analysis (flow-sensitive must-locksets over go/ssa with caller-holds inference) of every struct field and package variable of vnet, packetio, deadline, udp and dpipe: a field written after construction must be accessed under the object's (or its owner's) mutex, writes exclusively; atomically accessed words are never accessed plainly; package variables written at run time are atomic or locked; the listed exemptions (set-up phase, goroutine-confined, exclusively owned message objects) have their side conditions verified; every lock is released on all paths. A consistent lock discipline is sufficient for the absence of data races on these fields for every client program and schedule; races through user-supplied callbacks are not decided.",
			RuleText:    "one obligation per (type.field) that is written after construction, per atomic word, per run-time-written package variable, per exemption entry and per function with lock operations; a site is one access / lock operation; non-trivial = obligation matched at least one program site",
			Assumptions: commonAssumptions,
		},
		Thorough: []LoadCfg{{GOOS: "js", GOARCH: "wasm"}, {GOOS: "windows", GOARCH: "amd64"}, {GOOS: "linux", GOARCH: "386"}},
	})
}
