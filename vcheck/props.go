package main

var commonAssumptions = []string{
	"go/types and go/ssa (x/tools v0.29.0) model the program faithfully; sync, sync/atomic, channels and time.Timer behave as documented",
	"lock objects are not aliased under different access paths (every mutex is a struct field reached through its owner)",
	"no reflection/unsafe in the analysed packages (utils/xor legacy files excepted)",
	"user-supplied NIC / ChunkFilter / callback implementations are outside the call graph",
}

func init() {
	register("C09", &propDef{
		Run: runC09,
		Info: propInfo{
			Explanation: "Typestate/counting analysis of deadline.Deadline: every acyclic path of Set and of the timer callback is enumerated over the abstract entry state {stopped, started, exceeded} (loads of state before the first store denote the entry value, so infeasible combinations are pruned), the outcome of timer.Stop() and the class of the argument (zero/future/past). Checked per feasible path: delta(pending) = #arms - [Stop()==true]; Stop() is called first and exactly when the entry state is started; outcome by argument class (arm xor close, final state); a fresh done channel iff the entry state is exceeded, before any close/arm; the argument is stored; the callback decrements first and signals only on pending==0 and state==started, closing the channel value read under the lock; Err/Done/Deadline return the right fields; lock balance. These are the bookkeeping conditions that neutralise a stale callback for every sequence of Sets and every callback interleaving; wall-clock exactness and the runtime Timer contract are trusted, not decided.",
			RuleText:    "one obligation per rule; a site is one feasible (path x entry state x Stop outcome x argument class) combination, or a matched return/lock operation; non-trivial = at least one feasible path matched",
			Assumptions: append([]string{"time.Timer / time.AfterFunc: Stop() returns true iff the callback was prevented from running; Reset re-arms"}, commonAssumptions...),
		},
		Thorough: []LoadCfg{{GOOS: "js", GOARCH: "wasm"}, {GOOS: "windows", GOARCH: "amd64"}},
	})
	register("C08", &propDef{
		Run: runC08,
		Info: propInfo{
			Explanation: "Wake-up discipline of packetio.Buffer decided on the SSA/CFG of Write, Read and Close over all paths: the writer posts the token (non-blocking send on the capacity>=1 wake-up channel) on every success path, after accounting the packet, under the lock; a woken reader re-tests head/tail under the lock before any return; EOF only on empty-then-closed; the channel is closed exactly once under the lock with the closed flag, and every send is ordered with that close; a reader that takes a packet re-posts the token unless an edge establishes that the buffer is now empty or closed (baton pass: the necessary condition for 'no reader parked while a packet is buffered' with a capacity-1 token); the read deadline is tested before locking and waited on together with the token; lock balance. Fairness and timing are not decided.",
			RuleText:    "one obligation per rule R1-R8 per anchored function; a site is a matched instruction (send, select, close, return, lock op); non-trivial = matched at least one site",
			Assumptions: commonAssumptions,
		},
		Thorough: []LoadCfg{{GOOS: "js", GOARCH: "wasm"}, {GOOS: "linux", GOARCH: "amd64", Tags: []string{"packetioSizeHardlimit"}}},
	})
	register("C19", &propDef{
		Run: runC19,
		Info: propInfo{
			Explanation: "Static lockset analysis (flow-sensitive must-locksets over go/ssa with caller-holds inference) of every struct field and package variable of vnet, packetio, deadline, udp and dpipe: a field written after construction must be accessed under the object's (or its owner's) mutex, writes exclusively; atomically accessed words are never accessed plainly; package variables written at run time are atomic or locked; the listed exemptions (set-up phase, goroutine-confined, exclusively owned message objects) have their side conditions verified; every lock is released on all paths. A consistent lock discipline is sufficient for the absence of data races on these fields for every client program and schedule; races through user-supplied callbacks are not decided.",
			RuleText:    "one obligation per (type.field) that is written after construction, per atomic word, per run-time-written package variable, per exemption entry and per function with lock operations; a site is one access / lock operation; non-trivial = obligation matched at least one program site",
			Assumptions: commonAssumptions,
		},
		Thorough: []LoadCfg{{GOOS: "js", GOARCH: "wasm"}, {GOOS: "windows", GOARCH: "amd64"}, {GOOS: "linux", GOARCH: "386"}},
	})
}
