package main

// Obligations, diagnostics, known findings, evidence and replay files.

import (
	"encoding/json"
	"fmt"
	"go/token"
	"os"
	"path/filepath"
	"sort"
	"strings"
	"time"
)

// Obligation is one rule instance: a rule applied to one construct.
type Obligation struct {
	Rule      string   `json:"rule"`      // "C08.R6"
	Construct string   `json:"construct"` // "packetio.(*Buffer).Read"
	Desc      string   `json:"desc"`
	Config    string   `json:"config"`
	Sites     []string `json:"sites"` // program sites the rule matched (file:line note)
	Failed    bool     `json:"failed"`
	Pos       string   `json:"pos,omitempty"`
	Why       string   `json:"why,omitempty"`
	Witness   []string `json:"witness,omitempty"`
	Undecided bool     `json:"undecided,omitempty"`
	MinSites  int      `json:"min_sites"`

	ctx *Ctx
}

func (o *Obligation) Key() string { return o.Rule + "@" + o.Construct }

// Site records a program site at which the rule was evaluated.
func (o *Obligation) Site(pos token.Pos, note string, args ...interface{}) {
	o.Sites = append(o.Sites, o.ctx.P.Pos(pos)+" "+fmt.Sprintf(note, args...))
}

// Fail marks the obligation violated (first failure is the reported one; later ones
// are appended to the witness).
func (o *Obligation) Fail(pos token.Pos, why string, args ...interface{}) {
	msg := fmt.Sprintf(why, args...)
	if !o.Failed {
		o.Failed = true
		o.Pos = o.ctx.P.Pos(pos)
		o.Why = msg
		return
	}
	o.Witness = append(o.Witness, o.ctx.P.Pos(pos)+": "+msg)
}

// Undecide marks the obligation as not decidable on this tree (anchor missing, idiom
// unknown). Undecided = failure.
func (o *Obligation) Undecide(why string, args ...interface{}) {
	o.Undecided = true
	o.Fail(token.NoPos, "undecided: "+why, args...)
}

func (o *Obligation) Note(s string, args ...interface{}) {
	o.Witness = append(o.Witness, fmt.Sprintf(s, args...))
}

// Ctx is one evaluation of one property's rules on one loaded configuration.
type Ctx struct {
	P    *Prog
	Prop string
	Tier string
	Obls []*Obligation
	// RulePrefix is prepended to rule names while the rules of another property are
	// evaluated as part of this one (e.g. "B." for the packet-buffer rules inside C11).
	RulePrefix string
}

// Obl registers an obligation. minSites is the floor of matched sites below which the
// obligation is vacuous and therefore fails.
func (c *Ctx) Obl(rule, construct, desc string, minSites int) *Obligation {
	o := &Obligation{Rule: c.Prop + "." + c.RulePrefix + rule, Construct: construct, Desc: desc, Config: c.P.Cfg.String(), MinSites: minSites, ctx: c}
	c.Obls = append(c.Obls, o)
	return o
}

func (c *Ctx) finish() {
	for _, o := range c.Obls {
		if !o.Failed && len(o.Sites) < o.MinSites {
			o.Undecided = true
			o.Failed = true
			o.Why = fmt.Sprintf("undecided: rule matched %d site(s), floor is %d (anchor not found or idiom not recognised)", len(o.Sites), o.MinSites)
		}
	}
}

// ---- known findings ------------------------------------------------------------

type knownFinding struct {
	Property string `json:"property"`
	Key      string `json:"key"`
	What     string `json:"what_fails"`
}

type findingsFile struct {
	Known []knownFinding `json:"known"`
}

func verifDir() string {
	if d := os.Getenv("VERIF_DIR"); d != "" {
		return d
	}
	exe, err := os.Executable()
	if err == nil {
		d := filepath.Dir(filepath.Dir(exe))
		if _, err := os.Stat(filepath.Join(d, "MANIFEST.json")); err == nil {
			return d
		}
	}
	return "/verif"
}

func loadFindings() map[string]knownFinding {
	out := map[string]knownFinding{}
	b, err := os.ReadFile(filepath.Join(verifDir(), "known_findings.json"))
	if err != nil {
		return out
	}
	var ff findingsFile
	if json.Unmarshal(b, &ff) != nil {
		return out
	}
	for _, k := range ff.Known {
		out[k.Key] = k
	}
	return out
}

// ---- evidence ---------------------------------------------------------------------

type evidence struct {
	PropertyID  string                 `json:"property_id"`
	Tier        string                 `json:"tier"`
	Seed        int64                  `json:"seed"`
	Level       string                 `json:"level"`
	Coverage    map[string]interface{} `json:"coverage"`
	Assumptions []string               `json:"assumptions"`
	WallS       float64                `json:"wall_s"`
	Violations  int                    `json:"violations"`
}

type propInfo struct {
	Explanation string
	Assumptions []string
	RuleText    string
}

// emit prints diagnostics, writes replay and evidence files, and returns the exit code.
func emit(prop, tier string, seed int64, ctxs []*Ctx, info propInfo, extra map[string]interface{}, started time.Time) int {
	known := loadFindings()
	vdir := verifDir()
	_ = os.MkdirAll(filepath.Join(vdir, "evidence", "replay"), 0o755)
	nObl, nOK, nSites, nViol := 0, 0, 0, 0
	distinct := map[string]bool{}
	var samples []interface{}
	seenKnown := map[string]bool{}
	var configs []string
	stats := map[string]interface{}{}
	for _, c := range ctxs {
		configs = append(configs, c.P.Cfg.String())
		stats[c.P.Cfg.String()] = map[string]int{"functions": c.P.NFuncs, "blocks": c.P.NBlocks, "instructions": c.P.NInstrs, "call_sites": c.P.NCalls, "packages": len(c.P.Pkgs)}
		for _, o := range c.Obls {
			nObl++
			nSites += len(o.Sites)
			if len(o.Sites) > 0 {
				distinct[o.Key()] = true
			}
			if !o.Failed {
				nOK++
			} else if kf, ok := known[o.Key()]; ok && !o.Undecided {
				nOK++
				if !seenKnown[o.Key()] {
					seenKnown[o.Key()] = true
					fmt.Printf("KNOWN-FINDING: property=%s %s %s (%s: %s)\n", prop, o.Key(), kf.What, o.Pos, o.Why)
				}
			} else {
				nViol++
				fmt.Printf("%s: [%s] %s — %s — %s (config %s)\n", o.Pos, o.Rule, o.Desc, o.Construct, o.Why, o.Config)
				for _, w := range o.Witness {
					fmt.Printf("    %s\n", w)
				}
				rp := filepath.Join(vdir, "evidence", "replay", sanitize(o.Key())+".json")
				rb, _ := json.MarshalIndent(map[string]interface{}{"property": prop, "obligation": o, "config": o.Config,
					"replay_cmd": fmt.Sprintf("./bin/vcheck -prop %s -tier %s -only %s", prop, tier, o.Rule)}, "", " ")
				_ = os.WriteFile(rp, rb, 0o644)
				fmt.Printf("VIOLATION property=%s replay=%s\n", prop, rp)
			}
			if len(samples) < 60 && c == ctxs[0] {
				s := map[string]interface{}{"obligation": o.Key(), "rule": o.Desc, "verdict": verdict(o), "sites": capList(o.Sites, 12)}
				if o.Failed {
					s["why"] = o.Why
				}
				samples = append(samples, s)
			}
		}
	}
	cov := map[string]interface{}{
		"explanation":         info.Explanation,
		"obligations":         nObl,
		"discharged":          nOK,
		"evaluations":         nSites,
		"distinct_nontrivial": len(distinct),
		"rule":                info.RuleText,
		"samples":             samples,
		"configurations":      configs,
		"analysed":            stats,
		"checker_cmd":         fmt.Sprintf("./bin/vcheck -prop %s -tier %s", prop, tier),
		"trusted_base":        []string{"go/types and go/ssa of golang.org/x/tools v0.29.0", "documented behaviour of sync, sync/atomic, channels, time.Timer"},
		"exhaustive":          false,
	}
	for k, v := range extra {
		cov[k] = v
	}
	ev := evidence{PropertyID: prop, Tier: tier, Seed: seed, Level: "other", Coverage: cov, Assumptions: info.Assumptions,
		WallS: time.Since(started).Seconds(), Violations: nViol}
	eb, _ := json.MarshalIndent(ev, "", " ")
	_ = os.WriteFile(filepath.Join(vdir, "evidence", prop+".json"), eb, 0o644)
	if nViol > 0 {
		return 1
	}
	fmt.Printf("OK property=%s obligations=%d sites=%d configs=%s\n", prop, nObl, nSites, strings.Join(configs, ","))
	return 0
}

func verdict(o *Obligation) string {
	if o.Undecided {
		return "undecided"
	}
	if o.Failed {
		return "violated"
	}
	return "discharged"
}

func capList(s []string, n int) []string {
	if len(s) <= n {
		return s
	}
	out := append([]string{}, s[:n]...)
	return append(out, fmt.Sprintf("... %d more", len(s)-n))
}

func sanitize(s string) string {
	r := strings.NewReplacer("/", "_", "(", "", ")", "", "*", "", " ", "_", "$", "_", ":", "_")
	return r.Replace(s)
}

func sortedKeys(m map[string]bool) []string {
	var out []string
	for k := range m {
		out = append(out, k)
	}
	sort.Strings(out)
	return out
}
