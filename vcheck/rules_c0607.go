package main

// C06 (packet integrity) and C07 (limits / occupancy) of packetio.Buffer.

import (
	"fmt"
	"go/token"
	"go/types"
	"os"
	"strings"

	"golang.org/x/tools/go/ssa"
)

func bufAnchors(c *Ctx) *bufRoles {
	flattenFields = true // stays on for the rest of this run: every rule set that does not want it starts with setFlatten(false)
	setUnitExclude()
	r := resolveBufRoles(c.P)
	setUnitExclude(r.growFn, r.availFn, r.sizeFn)
	if len(r.problems) > 0 {
		o := c.Obl("R0", "packetio.Buffer", "anchors of the packet buffer are resolved", 1)
		for _, pr := range r.problems {
			o.Undecide("%s", pr)
		}
		return nil
	}
	return r
}

// sizeGuardFact: the fact "len(param) < C" with C <= 65536 (or <= C with C <= 65535).
func sizeGuardFact(f fact, param *ssa.Parameter) bool {
	cm, ok := normCmp(f.Cond, f.Val)
	if !ok {
		return false
	}
	isLen := func(v ssa.Value) bool {
		c, ok := v.(*ssa.Call)
		if !ok {
			return false
		}
		b, ok := c.Call.Value.(*ssa.Builtin)
		return ok && b.Name() == "len" && sameVal(c.Call.Args[0], param)
	}
	if !isLen(cm.X) {
		return false
	}
	k, ok := constInt(cm.Y)
	if !ok {
		return false
	}
	switch cm.Op {
	case token.LSS:
		return k <= 65536
	case token.LEQ:
		return k <= 65535
	}
	return false
}

func (r *bufRoles) closedFact(f fact, want bool) bool {
	return boolFact(f, func(v ssa.Value) bool { return r.isLoad(v, r.closed) }, want)
}

// storesOfWrite: instructions of Write that modify contents or occupancy.
func (r *bufRoles) contentStores(f *ssa.Function) []ssa.Instruction {
	return findU(f, func(in ssa.Instruction) bool {
		return r.isRingWrite(in) || r.isStoreTo(in, r.tail) || r.isStoreTo(in, r.head) || r.isStoreTo(in, r.count) || r.isStoreTo(in, r.data)
	})
}

func runC06(c *Ctx) {
	p := c.P
	r := bufAnchors(c)
	if r == nil {
		return
	}
	la := computeLocksets(p)
	W, R := r.Write, r.Read
	packet := W.Params[1]

	// R1 copy-on-write
	o := c.Obl("R1", fname(W), "Write copies the caller's slice: the slice value reaches no store, channel, map, closure or retaining callee", 1)
	nUses := 0
	if refs := packet.Referrers(); refs != nil {
		for _, rf := range *refs {
			if _, ok := rf.(*ssa.DebugRef); ok {
				continue
			}
			nUses++
			o.Site(rf.Pos(), "use of %s: %s", packet.Name(), rf.String())
		}
	}
	for _, s := range retainedBy(p, W, 1, nil) {
		o.Fail(s.In.Pos(), "the caller's buffer is retained: %s", s.Why)
		for _, ch := range s.Chain {
			o.Note("via %s", ch)
		}
	}
	// and the bytes are copied into the ring by copy(dst<-data, src<-packet)
	copied := false
	for _, in := range findU(W, func(in ssa.Instruction) bool { return isCall(in, "builtin.copy") }) {
		args := in.(ssa.CallInstruction).Common().Args
		if derivesFrom(args[1], func(v ssa.Value) bool { return sameVal(v, packet) }, false) && r.isRingWrite(in) {
			copied = true
		}
	}
	if !copied {
		o.Fail(W.Pos(), "no copy of the packet bytes into the ring found in Write")
	}

	// R2 guards dominate every store
	o = c.Obl("R2", fname(W), "every store to contents/occupancy in Write is on the false edge of the size test (len >= 65536) and of the closed test", 4)
	for _, st := range r.contentStores(W) {
		o.Site(st.Pos(), "%s", st.String())
		if !hasFact(st, func(f fact) bool { return sizeGuardFact(f, packet) }) {
			o.Fail(st.Pos(), "store in Write is not guarded by len(%s) < 65536: an oversized packet would corrupt the 2-byte length header", packet.Name())
		}
		if !hasFact(st, func(f fact) bool { return r.closedFact(f, false) }) {
			o.Fail(st.Pos(), "store in Write is not on the !closed edge: a write after Close changes the contents")
		}
		if !la.holdsOwner(st, r.T, true) {
			o.Fail(st.Pos(), "store in Write is not under the mutex")
		}
	}
	// calls that modify the buffer (grow) are under the same guards
	if r.growFn != nil {
		for _, in := range findU(W, func(in ssa.Instruction) bool { c, ok := in.(*ssa.Call); return ok && c.Call.StaticCallee() == r.growFn }) {
			o.Site(in.Pos(), "call of %s", r.growFn.Name())
			if !hasFact(in, func(f fact) bool { return sizeGuardFact(f, packet) }) || !hasFact(in, func(f fact) bool { return r.closedFact(f, false) }) {
				o.Fail(in.Pos(), "the ring is re-allocated on a path that has not passed the size and closed tests")
			}
		}
	}

	// R3 refusal paths are store-free
	o = c.Obl("R3", fname(W), "no error return of Write is reachable after a store to contents/occupancy (a refused Write changes nothing); growth only re-linearises", 4)
	for _, st := range findU(W, func(in ssa.Instruction) bool {
		return r.isRingWrite(in) || r.isStoreTo(in, r.tail) || r.isStoreTo(in, r.count) || r.isStoreTo(in, r.head)
	}) {
		o.Site(st.Pos(), "%s", st.String())
		for in := range reachU(posAfter(st), nil) {
			if isErrorReturn(in) {
				o.Fail(in.Pos(), "an error return of Write is reachable after the store at %s: the refusal is not side-effect free", p.Pos(st.Pos()))
				break
			}
		}
	}
	c06Grow(c, r)

	// R4 header agreement
	o = c.Obl("R4", r.T, "the length header is written and read with the same byte order (shift amounts agree position by position)", 2)
	wShifts, wPos := r.headerWriteShifts(W, packet)
	rShifts, countVal, hdrLoads := r.headerReadShifts(R)
	o.Site(W.Pos(), "Write stores header bytes with shifts %v", wShifts)
	o.Site(R.Pos(), "Read composes the length with shifts %v", rShifts)
	if len(wShifts) != 2 || len(rShifts) != 2 {
		o.Undecide("2-byte header not recognised (write shifts %v, read shifts %v)", wShifts, rShifts)
	} else if wShifts[0] != rShifts[0] || wShifts[1] != rShifts[1] {
		o.Fail(wPos, "header byte order differs: Write stores (len>>%d, len>>%d) but Read composes (b0<<%d | b1<<%d)", wShifts[0], wShifts[1], rShifts[0], rShifts[1])
	} else if !((wShifts[0] == 8 && wShifts[1] == 0) || (wShifts[0] == 0 && wShifts[1] == 8)) {
		o.Fail(wPos, "header shifts %v do not cover a 16-bit length", wShifts)
	}

	// R5 consume whole packet / short buffer
	o = c.Obl("R5", fname(R), "Read advances head by the decoded length (not the copied length) and reports ErrShortBuffer exactly on the copied < length edge", 2)
	if countVal == nil {
		o.Undecide("decoded length not found in Read")
	} else {
		adv := 0
		for _, in := range findU(R, func(in ssa.Instruction) bool { return r.isStoreTo(in, r.head) }) {
			st := in.(*ssa.Store)
			// a skip helper called once for the header and once for the packet: each call on its own
			sites := []ssa.Instruction{nil}
			if h := in.Parent(); isPrivateHelper(h) && len(curSites.sites[h]) > 1 {
				sites = nil
				for _, s := range curSites.sites[h] {
					if isIn(s.Parent(), R) {
						sites = append(sites, s)
					}
				}
			}
			for _, site := range sites {
				withSite(site, func() {
					b, ok := origin(st.Val).(*ssa.BinOp)
					if ok && b.Op == token.REM && isLenOf(b.Y, func(v ssa.Value) bool { return r.isLoad(v, r.data) }) {
						b, ok = origin(b.X).(*ssa.BinOp) // head = (head + n) % len(data)
					}
					if !ok || b.Op != token.ADD || !r.isLoad(b.X, r.head) {
						return
					}
					by := origin(b.Y)
					if k, isC := constInt(by); isC && (k == 1 || k == 2) {
						return // header steps
					}
					adv++
					o.Site(in.Pos(), "head += %s", by.Name())
					if !sameOrigin(by, countVal) && !(isConvOf(by, countVal)) {
						o.Fail(in.Pos(), "head is advanced by %s, not by the decoded packet length: a short read would leave the rest of the packet to be parsed as the next header", by.Name())
					}
					for _, l := range hdrLoads {
						at := ssa.Instruction(in)
						if site != nil {
							at = site
						}
						if !domU(l, at) {
							o.Fail(in.Pos(), "head is advanced before both header bytes were read")
						}
					}
				})
			}
		}
		if adv == 0 {
			// the advance is not a plain "head += n" (a local copy of head stored back once, a wrapped sum):
			// where the head ends up is decided path by path under R5h
			o.Site(R.Pos(), "advance of head evaluated path by path (R5h)")
		}
		// the result, path by path (one loop iteration, helpers inlined): a path that takes a packet returns
		// (length, nil) when it has established length <= len(buffer) and (len(buffer), ErrShortBuffer) when it has
		// established len(buffer) < length
		rpaths, okP := enumIterPathsU(R, 50000)
		if !okP {
			o.Undecide("the paths of Read could not be enumerated")
		}
		isBufLen := func(v ssa.Value) bool {
			return isLenOf(v, func(x ssa.Value) bool { return sameOrigin(x, ssa.Value(R.Params[1])) })
		}
		nShort, nOK := 0, 0
		reported := map[retKind]bool{}
		for pi := range rpaths {
			pth := &rpaths[pi]
			ret, isRet := pth.last().(*ssa.Return)
			if !isRet || pth.Loop || ret.Parent() != R || pth.indexOf(countVal.(ssa.Instruction)) < 0 {
				continue
			}
			e := errorOperand(ret)
			if e == nil {
				continue
			}
			ev := pth.value(e)
			short := isGlobalErrValue(ev, "io", "ErrShortBuffer")
			if os.Getenv("VCHECK_DEBUG") != "" {
				fmt.Fprintf(os.Stderr, "R5 path ret@%s e=%v ev=%v short=%v\n", p.Pos(ret.Pos()), e, ev, short)
			}
			if !short && !isNilConst(ev) {
				continue
			}
			n := pth.value(retValAt(ret, 0)[0])
			// what the path knows about length vs len(buffer)
			fits, tooLong := false, false
			for _, ft := range pth.Conds {
				cm, ok := normCmp(ft.Cond, ft.Val)
				if !ok {
					continue
				}
				x, y := pth.value(cm.X), pth.value(cm.Y)
				switch {
				case (x == countVal || isConvOf(x, countVal)) && isBufLen(y): // length op len(buf)
					if cm.Op == token.LEQ || cm.Op == token.LSS || cm.Op == token.EQL {
						fits = true
					}
				case isBufLen(x) && (y == countVal || isConvOf(y, countVal)): // len(buf) op length
					if cm.Op == token.LSS {
						tooLong = true
					}
					if cm.Op == token.EQL {
						fits = true
					}
				}
			}
			if os.Getenv("VCHECK_DEBUG") != "" {
				fmt.Fprintf(os.Stderr, "R5 path2 short=%v fits=%v tooLong=%v n=%v\n", short, fits, tooLong, n)
			}
			if fits && tooLong {
				continue // contradictory comparisons: not a feasible path
			}
			key := retKind{ret, short}
			if reported[key] && !(short && !tooLong) && !(!short && !fits) {
				continue
			}
			if short {
				nShort++
				if !reported[key] {
					o.Site(ret.Pos(), "return ErrShortBuffer")
				}
				if !tooLong {
					o.Fail(ret.Pos(), "ErrShortBuffer is not returned exactly on the edge copied < length (with copied as the returned count)")
				} else if !isBufLen(n) {
					o.Fail(ret.Pos(), "returned byte count is not min(length, len(buffer))")
				}
			} else {
				nOK++
				if !reported[key] {
					o.Site(ret.Pos(), "success return")
				}
				if !fits {
					o.Fail(ret.Pos(), "a success return of Read is reachable although fewer bytes than the packet length were copied")
				} else if !(n == countVal || isConvOf(n, countVal)) {
					o.Fail(ret.Pos(), "returned byte count is neither the packet length nor its minimum with the buffer length")
				}
			}
			reported[key] = true
		}
		if nShort == 0 {
			o.Fail(R.Pos(), "Read never reports ErrShortBuffer")
		}
		if nOK == 0 {
			o.Fail(R.Pos(), "Read never returns a packet successfully")
		}
	}

	// R5h: where the head ends up. Along every path of Read that takes a packet, the final head is the old head
	// advanced by 2 + length modulo len(data): evaluated symbolically with store-to-load forwarding; a wrap
	// "if head >= len(data) { head = 0 }" counts as head - len(data) (the ring invariant head <= len(data) at that
	// point makes the two equal), the reset of an empty buffer (head == tail: both to 0) is exempt.
	if countVal != nil {
		oh := c.Obl("R5h", fname(R), "on every path that takes a packet the head ends at (old head + 2 + packet length) modulo len(data), whatever was copied out: the next header is read where the next packet starts", 2)
		rp, okP := enumIterPathsU(R, 50000)
		if !okP {
			oh.Undecide("the paths of Read could not be enumerated")
		}
		recvName := R.Params[0].Name()
		headKey := recvName + "." + r.head
		Lf := linSym("len(" + recvName + "." + r.data + ")")
		failedAt := map[ssa.Instruction]bool{}
		sitedH := map[string]bool{}
		nTake := 0
		for pi := range rp {
			pt := rp[pi]
			ret, isRet := pt.last().(*ssa.Return)
			if !isRet || pt.Loop || ret.Parent() != R || pt.indexOf(countVal.(ssa.Instruction)) < 0 {
				continue
			}
			hasDec := false
			for _, in := range pt.Instrs {
				if d, ok := r.fieldDelta(in, r.count); ok && d == -1 {
					hasDec = true
				}
			}
			if !hasDec {
				continue
			}
			nTake++
			w := newSymWalker(&pt)
			ci := 0
			var lastWrapOf linForm // value of head found >= len(data) by the most recent condition
			haveWrap := false
			reset := false
			var stack []ssa.Value
			var lastHeadStore ssa.Instruction
			var wrapResults []linForm
			for idx, in := range pt.Instrs {
				w.cur = idx
				if iff, ok := in.(*ssa.If); ok {
					var ft fact
					if ci < len(pt.Conds) {
						ft = pt.Conds[ci]
					}
					ci++
					haveWrap = false
					if ft.If == iff {
						if cm, ok := normCmp(ft.Cond, ft.Val); ok && cm.Op == token.LEQ {
							// len(data) <= head
							if isLenOf(pt.value(cm.X), func(v ssa.Value) bool { return r.isLoad(pt.valueAt(v, idx), r.data) }) {
								// the value compared is the head, or the head plus one about to be stored (index helper)
								cur, okCur := w.mem[headKey]
								if !okCur {
									cur = linSym(headKey)
								}
								x := w.lin(cm.Y)
								if d := x.add(cur, -1); d.OK && len(d.Coef) == 0 && d.K >= 0 && d.K <= 1 {
									lastWrapOf, haveWrap = x, true
								} else {
									// the head kept in a local: the old head or an earlier wrap result, stepped by at most 2
									for _, cnd := range append([]linForm{linSym(headKey)}, wrapResults...) {
										if d := x.add(cnd, -1); d.OK && len(d.Coef) == 0 && d.K >= 0 && d.K <= 2 {
											lastWrapOf, haveWrap = x, true
										}
									}
								}
							}
						}
						if emptyHeadTail(r, ft) {
							reset = true // head == tail established: the buffer is empty, both indices may go to 0
						} else if cm, ok := normCmp(ft.Cond, ft.Val); ok && cm.Op == token.EQL {
							// the same test on a local holding the advanced head: a value congruent to head + 2 + length
							for _, pr := range [][2]ssa.Value{{cm.X, cm.Y}, {cm.Y, cm.X}} {
								if !r.isLoad(origin(pt.valueAt(pr[0], idx)), r.tail) {
									continue
								}
								want := linSym(headKey).add(linConst(2), 1).add(w.lin(countVal), 1)
								D := w.lin(pr[1]).add(want, -1)
								okMod := D.OK && D.K == 0
								for sym, cf := range D.Coef {
									if sym != Lf.String() && !(len(Lf.Coef) == 1 && Lf.Coef[sym] == 1) {
										okMod = false
									}
									if cf > 0 || cf < -3 {
										okMod = false
									}
								}
								if okMod {
									reset = true
								}
							}
						}
					}
					continue
				}
				if ph, isPhi := in.(*ssa.Phi); isPhi {
					delete(w.memo, ph) // a helper entered again: what an earlier occurrence meant does not carry over
				}
				if ph, isPhi := in.(*ssa.Phi); isPhi && haveWrap && isIntegerType(ph.Type()) {
					// "if i >= len(data) { i = 0 }" on a local copy of the head: the wrapped value is i - len(data)
					if e := pt.phiAt(ph, idx); e != nil {
						if k, isC := constInt(e); isC && k == 0 {
							wr := lastWrapOf.add(Lf, -1)
							w.memo[ph] = wr
							wrapResults = append(wrapResults, wr)
						}
					}
				}
				w.step(in)
				storesHead := r.isStoreTo(in, r.head)
				if st0, isSt := in.(*ssa.Store); isSt && !storesHead {
					// a stepping helper that advances whichever index it is handed (step(&b.head)): the address as
					// seen on this path
					if fr, ok := asFieldAddr(pt.valueAt(st0.Addr, idx)); ok && fr.SName == r.T && fr.Field == r.head {
						storesHead = true
					}
				}
				if st, ok := in.(*ssa.Store); ok && storesHead {
					lastHeadStore = in
					if sv := w.lin(st.Val); sv.OK && sv.eq(linConst(0)) && haveWrap {
						w.mem[headKey] = lastWrapOf.add(Lf, -1)
					}
					if bo, ok := strip(pt.valueAt(st.Val, idx)).(*ssa.BinOp); ok && bo.Op == token.REM &&
						isLenOf(pt.valueAt(bo.Y, idx), func(v ssa.Value) bool { return r.isLoad(pt.valueAt(v, idx), r.data) }) {
						// head = x % len(data): congruent to x and back in range
						if x := w.lin(bo.X); x.OK {
							w.mem[headKey] = x
						}
					}
				}
				if h := helperCallee(in); h != nil && idx+1 < len(pt.Instrs) && pt.Instrs[idx+1].Parent() == h {
					stack = append(stack, in.(*ssa.Call))
				}
				if _, isRetI := in.(*ssa.Return); isRetI && len(stack) > 0 && idx+1 < len(pt.Instrs) {
					w.bindReturn(stack[len(stack)-1])
					stack = stack[:len(stack)-1]
				}
			}
			if reset {
				continue
			}
			H, ok := w.mem[headKey]
			if !ok {
				if !failedAt[ret] {
					failedAt[ret] = true
					oh.Fail(ret.Pos(), "a path of Read takes a packet without moving the head")
				}
				continue
			}
			want := linSym(headKey).add(linConst(2), 1).add(w.lin(countVal), 1)
			D := H.add(want, -1)
			okMod := D.OK && D.K == 0
			for sym, cf := range D.Coef {
				if sym != Lf.String() && !(len(Lf.Coef) == 1 && Lf.Coef[sym] == 1) {
					okMod = false
				}
				if cf > 0 || cf < -3 {
					okMod = false
				}
			}
			at := ssa.Instruction(ret)
			if lastHeadStore != nil {
				at = lastHeadStore
			}
			if k := fmt.Sprintf("%p %s", at, H); !sitedH[k] {
				sitedH[k] = true
				oh.Site(at.Pos(), "head ends at %s", H)
			}
			if !okMod && !failedAt[at] {
				failedAt[at] = true
				oh.Fail(at.Pos(), "on a path that takes a packet the head ends at %s, which is not (head + 2 + length) modulo len(data) = %s - j*len(data): after a short read the rest of the packet would be parsed as the next header", H, want)
			}
		}
		if nTake == 0 {
			oh.Undecide("no path of Read takes a packet")
		}
	}

	// R6 wrap after every advance
	for _, f := range []*ssa.Function{W, R} {
		o = c.Obl("R6", fname(f), "after every advance of head/tail the index is compared (freshly loaded) with len(data) and wrapped before it is used or the lock is released", 1)
		for _, field := range []string{r.head, r.tail} {
			for _, in := range findU(f, func(in ssa.Instruction) bool { return r.isStoreTo(in, field) }) {
				st := in.(*ssa.Store)
				if r.isWrapAdvance(st.Val, field) {
					o.Site(in.Pos(), "%s advanced and wrapped by a helper returning i+1 < len(data) ? i+1 : 0", field)
					continue
				}
				if cl, ok := origin(st.Val).(*ssa.Call); ok && cl.Call.StaticCallee() != nil && inModule(cl.Call.StaticCallee()) {
					viaField := false
					for _, a := range cl.Call.Args {
						if r.isLoad(a, field) {
							viaField = true
						}
					}
					if viaField {
						o.Site(in.Pos(), "%s advanced by %s", field, fname(cl.Call.StaticCallee()))
						o.Fail(in.Pos(), "%s is advanced through %s, which does not return index+1 wrapped to 0 exactly when it reaches len(data)", field, fname(cl.Call.StaticCallee()))
						continue
					}
				}
				b, ok := origin(st.Val).(*ssa.BinOp)
				if !ok || b.Op != token.ADD || !r.isLoad(b.X, field) {
					continue
				}
				// an advance by the length of what was just copied, on the edge that has established that it ends
				// before the end of the ring (len(src) < len(data) - index), needs no wrap
				if cp, ok := origin(b.Y).(*ssa.Call); ok && isCall(cp, "builtin.copy") {
					fa0, isFA := st.Addr.(*ssa.FieldAddr)
					if !isFA {
						fa0, _ = origin(st.Addr).(*ssa.FieldAddr)
					}
					if fa0 == nil {
						o.Site(in.Pos(), "%s advanced", field)
						goto wrapRule
					}
					recvN := fa0.X
					want := linSym("len("+accessPath(recvN)+"."+r.data+")").add(linSym(accessPath(recvN)+"."+field), -1).add(linSym("len("+accessPath(origin(cp.Call.Args[1]))+")"), -1)
					inside := hasFact(in, func(ft fact) bool {
						a, pol, ok := atomOf(ft.Cond, ft.Val, nil)
						return ok && pol && !a.Eq && a.Form.eq(want)
					})
					if inside {
						o.Site(in.Pos(), "%s advanced by a copy that ends before the end of the ring", field)
						continue
					}
				}
				o.Site(in.Pos(), "%s advanced", field)
			wrapRule:
				// every path from the store to a use (index / slice / unlock) passes a wrap test on a fresh load
				isWrapTest := func(x ssa.Instruction) bool {
					iff, ok := x.(*ssa.If)
					if !ok {
						return false
					}
					cm, ok := normCmp(iff.Cond, true)
					if !ok {
						return false
					}
					// len(data) <= field   or   len(data) == field   (either orientation handled by normCmp)
					var fl ssa.Value
					if r.isLoad(cm.Y, field) && isLenOf(cm.X, func(v ssa.Value) bool { return r.isLoad(v, r.data) }) {
						fl = cm.Y
					} else if r.isLoad(cm.X, field) && isLenOf(cm.Y, func(v ssa.Value) bool { return r.isLoad(v, r.data) }) {
						fl = cm.X
					}
					if fl == nil {
						return false
					}
					ld, ok := fl.(ssa.Instruction)
					if !ok || !domU(in, ld) {
						return false
					}
					// the wrapping branch must store the field
					wrapBlk := iff.Block().Succs[0]
					if cm.Op == token.LSS {
						wrapBlk = iff.Block().Succs[1]
					}
					for _, wi := range wrapBlk.Instrs {
						if r.isStoreTo(wi, field) {
							return true
						}
					}
					return false
				}
				isUse := func(x ssa.Instruction) bool {
					if x == in {
						return false
					}
					switch y := x.(type) {
					case *ssa.IndexAddr:
						return r.isLoad(y.Index, field)
					case *ssa.Slice:
						return (y.Low != nil && r.isLoad(y.Low, field)) || (y.High != nil && r.isLoad(y.High, field))
					case *ssa.Call:
						return r.isLockCall(x, "unlock")
					case *ssa.Return:
						return true
					}
					return false
				}
				if ok, bad := mustPassU(posAfter(in), isUse, isWrapTest); !ok {
					o.Fail(in.Pos(), "%s is advanced here and then used at %s without a wrap test on the updated value (stale or missing comparison with len(data))", field, p.Pos(bad.Pos()))
				}
			}
		}
		r.ringIndexRule(o, f)
	}

	// R7 pairing of count updates
	o = c.Obl("R7", r.T+"."+r.count, "count is incremented exactly once on every success path of Write, decremented exactly once on every packet-returning path of Read, and changed nowhere else", 2)
	isInc := func(in ssa.Instruction) bool { d, ok := r.fieldDelta(in, r.count); return ok && d == 1 }
	isDec := func(in ssa.Instruction) bool { d, ok := r.fieldDelta(in, r.count); return ok && d == -1 }
	for _, f := range p.Funcs {
		if isPrivateHelper(f) && !unitExclude[f] {
			continue // analysed as part of the functions that call it
		}
		if pkgOf(f) != "packetio" {
			continue
		}
		for _, in := range findU(f, func(in ssa.Instruction) bool { return r.isStoreTo(in, r.count) }) {
			o.Site(in.Pos(), "store to count in %s", fname(f))
			if isIn(f, W) && isInc(in) || isIn(f, R) && isDec(in) {
				continue
			}
			if isFreshBase(in.(*ssa.Store).Addr.(*ssa.FieldAddr).X) {
				continue
			}
			o.Fail(in.Pos(), "count is modified in %s other than by Write's ++ / Read's --", fname(f))
		}
	}
	if ok, bad := mustPassU(entryPos(W), isSuccessReturn, isInc); !ok {
		o.Fail(bad.Pos(), "a success return of Write is reachable without count++")
	}
	if m, inf := maxEventsU(entryPos(W), isReturn, func(in ssa.Instruction) int { return b2i(isInc(in)) }); m > 1 || inf {
		o.Fail(W.Pos(), "count can be incremented more than once per Write")
	}
	// Read, path by path (one loop iteration): exactly one decrement on a path that returns a packet (nil or
	// ErrShortBuffer), none on any other path
	if rpaths, okP := enumIterPathsU(R, 50000); !okP {
		o.Undecide("the paths of Read could not be enumerated")
	} else {
		rep := map[ssa.Instruction]bool{}
		for pi := range rpaths {
			pth := &rpaths[pi]
			nDec := 0
			var dec ssa.Instruction
			for _, in := range pth.Instrs {
				if isDec(in) {
					nDec++
					dec = in
				}
			}
			ret, isRet := pth.last().(*ssa.Return)
			pkt := false
			if isRet && !pth.Loop && ret.Parent() == R {
				if e := errorOperand(ret); e != nil {
					ev := pth.value(e)
					pkt = isNilConst(ev) || isGlobalErrValue(ev, "io", "ErrShortBuffer")
				}
			}
			switch {
			case nDec > 1 && !rep[dec]:
				rep[dec] = true
				o.Fail(dec.Pos(), "count can be decremented twice for one returned packet")
			case pkt && nDec == 0 && !rep[ret]:
				rep[ret] = true
				o.Fail(ret.Pos(), "Read can return a packet without count--")
			case !pkt && nDec > 0 && !rep[dec]:
				rep[dec] = true
				o.Fail(dec.Pos(), "after count-- Read returns without delivering the packet (EOF/timeout) or goes on waiting: a packet is lost")
			}
		}
	}

	// R8 helper arithmetic (free-space test)
	c0607Available(c, r)

	// R9 Read copies out of the ring into the caller's slice, never the other way
	o = c.Obl("R9", fname(R), "Read only copies from the ring into the caller's slice and never stores the caller's slice", 1)
	for _, in := range findU(R, func(in ssa.Instruction) bool { return isCall(in, "builtin.copy") }) {
		o.Site(in.Pos(), "%s", in.String())
		if r.isRingWrite(in) {
			o.Fail(in.Pos(), "Read writes into the ring")
		}
	}
	for _, s := range retainedBy(p, R, 1, nil) {
		o.Fail(s.In.Pos(), "Read retains the caller's slice: %s", s.Why)
	}
}

func b2i(b bool) int {
	if b {
		return 1
	}
	return 0
}

func isConvOf(v, of ssa.Value) bool { return strip(v) == of }

func isLenOf(v ssa.Value, m func(ssa.Value) bool) bool {
	c, ok := v.(*ssa.Call)
	if !ok {
		return false
	}
	b, ok := c.Call.Value.(*ssa.Builtin)
	return ok && b.Name() == "len" && m(c.Call.Args[0])
}

// stripByteMask removes what a conversion to a byte does anyway: v & 0xff (or a wider all-ones mask), v % 256.
func stripByteMask(v ssa.Value) ssa.Value { return stripMask(v, 0xff) }

// stripMask: masks of at least min (all ones) are dropped.
func stripMask(v ssa.Value, min int64) ssa.Value {
	for i := 0; i < 6; i++ {
		b, ok := v.(*ssa.BinOp)
		if !ok {
			return v
		}
		switch b.Op {
		case token.AND:
			if k, isC := constInt(b.Y); isC && k >= min && (k+1)&k == 0 {
				v = strip(b.X)
				continue
			}
			if k, isC := constInt(b.X); isC && k >= min && (k+1)&k == 0 {
				v = strip(b.Y)
				continue
			}
		case token.REM:
			if k, isC := constInt(b.Y); isC && k > min && (k-1)&k == 0 {
				if isUnsignedType(b.X.Type()) || isLenCall(strip(b.X)) {
					v = strip(b.X)
					continue
				}
			}
		}
		return v
	}
	return v
}

func isLenCall(v ssa.Value) bool {
	c, ok := v.(*ssa.Call)
	if !ok {
		return false
	}
	b, ok := c.Call.Value.(*ssa.Builtin)
	return ok && b.Name() == "len"
}

// headerWriteShifts: the shift amounts of the bytes stored directly (not via copy) into the ring, in dominance order.
func (r *bufRoles) headerWriteShifts(W *ssa.Function, packet *ssa.Parameter) ([]int64, token.Pos) {
	// along every successful path of Write (helpers inlined, each call of a byte-storing helper with its own
	// argument): the single bytes stored into the ring, in order
	paths, ok := enumIterPathsU(W, 50000)
	pos := W.Pos()
	if !ok {
		return nil, pos
	}
	var first []int64
	have := false
	for pi := range paths {
		pth := &paths[pi]
		ret, isRet := pth.last().(*ssa.Return)
		if !isRet || pth.Loop || ret.Parent() != W {
			continue
		}
		if e := errorOperand(ret); e == nil || !isNilConst(pth.value(e)) {
			continue
		}
		var out []int64
		encoded := map[ssa.Value][]int64{} // local array -> shifts of its bytes (encoding/binary)
		for idx, in := range pth.Instrs {
			if cl, sh := binaryCodecCall(in, "PutUint16"); cl != nil && len(cl.Call.Args) == 3 {
				if arr := arrayOfSlice(pth.valueAt(cl.Call.Args[1], idx)); arr != nil {
					v := strip(pth.valueAt(cl.Call.Args[2], idx))
					if isLenOf(v, func(x ssa.Value) bool { return sameOrigin(pth.valueAt(x, idx), ssa.Value(packet)) }) {
						encoded[arr] = sh
					} else {
						encoded[arr] = []int64{-1, -1}
					}
				}
				continue
			}
			st, ok := in.(*ssa.Store)
			if !ok {
				continue
			}
			if _, isIA := st.Addr.(*ssa.IndexAddr); !isIA || !r.isRingWrite(in) {
				continue
			}
			pos = st.Pos()
			v := stripByteMask(strip(pth.valueAt(st.Val, idx)))
			isPkt := func(x ssa.Value) bool { return sameOrigin(pth.valueAt(x, idx), ssa.Value(packet)) }
			// byte k of an array encoded by encoding/binary (for _, v := range hdr)
			{
				var arrV, ixV ssa.Value
				switch e := v.(type) {
				case *ssa.Index:
					arrV, ixV = e.X, e.Index
				case *ssa.UnOp:
					if ia, ok := e.X.(*ssa.IndexAddr); ok && e.Op == token.MUL {
						arrV, ixV = ia.X, ia.Index
					}
				}
				if arrV != nil {
					if ld, ok := arrV.(*ssa.UnOp); ok && ld.Op == token.MUL {
						arrV = ld.X // a copy of the array taken after it was encoded
					}
					if sh, ok := encoded[arrV]; ok {
						if k, okk := pth.evalInt(ixV, idx, 0); okk && k >= 0 && int(k) < len(sh) {
							out = append(out, sh[k])
							continue
						}
					}
				}
			}
			if b, ok := v.(*ssa.BinOp); ok && b.Op == token.SHR {
				if k, ok := constInt(b.Y); ok && isLenOf(stripMask(strip(b.X), 0xffff), isPkt) {
					out = append(out, k)
					continue
				}
			}
			if b, ok := v.(*ssa.BinOp); ok && b.Op == token.QUO {
				// len / 256 is len >> 8 for the non-negative length
				if k, ok := constInt(b.Y); ok && k == 256 && isLenOf(strip(b.X), isPkt) {
					out = append(out, 8)
					continue
				}
			}
			if isLenOf(v, isPkt) {
				out = append(out, 0)
				continue
			}
			out = append(out, -1)
		}
		if len(out) == 0 {
			out = r.codecWriteShifts(pth, packet, &pos)
		}
		if !have {
			first, have = out, true
			continue
		}
		same := len(out) == len(first)
		for i := range out {
			if same && out[i] != first[i] {
				same = false
			}
		}
		if !same {
			return append(append([]int64{}, first...), -2), pos // paths disagree
		}
	}
	return first, pos
}

// binaryCodecCall: a call of encoding/binary's ByteOrder method name (PutUint16 / Uint16) on one of the two
// fixed orders; shifts are those of the first and second byte.
func binaryCodecCall(in ssa.Instruction, name string) (call *ssa.Call, shifts []int64) {
	cl, ok := in.(*ssa.Call)
	if !ok {
		return nil, nil
	}
	sc := cl.Call.StaticCallee()
	if sc == nil || sc.Pkg == nil || sc.Pkg.Pkg.Path() != "encoding/binary" || sc.Name() != name || sc.Signature.Recv() == nil {
		return nil, nil
	}
	switch typeName(sc.Signature.Recv().Type()) {
	case "binary.bigEndian", "encoding/binary.bigEndian", "bigEndian":
		return cl, []int64{8, 0}
	case "binary.littleEndian", "encoding/binary.littleEndian", "littleEndian":
		return cl, []int64{0, 8}
	}
	return nil, nil
}

// arrayOfSlice: the local array a[:] slices.
func arrayOfSlice(v ssa.Value) ssa.Value {
	for d := 0; d < 6; d++ {
		switch x := v.(type) {
		case *ssa.Slice:
			v = x.X
			continue
		case *ssa.ChangeType:
			v = x.X
			continue
		}
		break
	}
	if a, ok := v.(*ssa.Alloc); ok {
		if pt, ok := a.Type().Underlying().(*types.Pointer); ok {
			if _, isArr := pt.Elem().Underlying().(*types.Array); isArr {
				return a
			}
		}
	}
	return nil
}

// codecWriteShifts: the header is encoded into a local 2-byte array by encoding/binary and that array is the
// first thing copied into the ring on the path.
func (r *bufRoles) codecWriteShifts(pth *upath, packet *ssa.Parameter, pos *token.Pos) []int64 {
	type enc struct {
		arr    ssa.Value
		shifts []int64
	}
	var encs []enc
	for idx, in := range pth.Instrs {
		if cl, sh := binaryCodecCall(in, "PutUint16"); cl != nil && len(cl.Call.Args) == 3 {
			arr := arrayOfSlice(pth.valueAt(cl.Call.Args[1], idx))
			v := strip(pth.valueAt(cl.Call.Args[2], idx))
			isPkt := func(x ssa.Value) bool { return sameOrigin(pth.valueAt(x, idx), ssa.Value(packet)) }
			if arr != nil && isLenOf(v, isPkt) {
				encs = append(encs, enc{arr, sh})
			} else if arr != nil {
				encs = append(encs, enc{arr, []int64{-1, -1}})
			}
			continue
		}
		if isCall(in, "builtin.copy") && r.isRingWrite(in) {
			*pos = in.Pos()
			src := arrayOfSlice(pth.valueAt(in.(*ssa.Call).Call.Args[1], idx))
			for k := len(encs) - 1; k >= 0; k-- {
				if src != nil && encs[k].arr == src {
					return encs[k].shifts
				}
			}
			return []int64{-1} // the first bytes that enter the ring are not an encoded length
		}
	}
	return nil
}

// codecReadShifts: the length is decoded by encoding/binary from a local array filled from the ring at head.
func (r *bufRoles) codecReadShifts(R *ssa.Function) (shifts []int64, count ssa.Value, loads []ssa.Instruction) {
	var dec *ssa.Call
	n := 0
	for _, in := range findU(R, func(in ssa.Instruction) bool { c, _ := binaryCodecCall(in, "Uint16"); return c != nil }) {
		dec, shifts = binaryCodecCall(in, "Uint16")
		n++
	}
	if n != 1 || len(dec.Call.Args) != 2 {
		return nil, nil, nil
	}
	paths, ok := enumIterPathsU(R, 50000)
	if !ok {
		return nil, nil, nil
	}
	seen := false
	for pi := range paths {
		pth := &paths[pi]
		ci := pth.indexOf(dec)
		if ci < 0 {
			continue
		}
		seen = true
		arr := arrayOfSlice(pth.valueAt(dec.Call.Args[1], ci))
		if arr == nil {
			return nil, nil, nil
		}
		filled := false
		fills, steps := int64(0), int64(0)
		for idx, in := range pth.Instrs[:ci] {
			if r.isStoreTo(in, r.head) && !filled {
				if d, ok := r.fieldDelta(in, r.head); ok && d == 1 && fills > 0 {
					steps++ // byte by byte: the head steps once per byte fetched
					continue
				}
				if k, isC := constInt(in.(*ssa.Store).Val); isC && k == 0 && fills > 0 {
					continue // wrap of a byte step (C06.R6 checks the test)
				}
				return []int64{-1, -1}, nil, nil // head moves before the header is fetched
			}
			if st, isSt := in.(*ssa.Store); isSt {
				// hdr[k] = data[head], k counted along the unrolled loop
				if ia, ok := st.Addr.(*ssa.IndexAddr); ok && ia.X == arr {
					k, okk := pth.evalInt(ia.Index, idx, 0)
					ld, _ := strip(pth.valueAt(st.Val, idx)).(*ssa.UnOp)
					var src *ssa.IndexAddr
					if ld != nil && ld.Op == token.MUL {
						src, _ = ld.X.(*ssa.IndexAddr)
					}
					if !okk || k != fills || steps != fills || src == nil || !r.isLoad(src.X, r.data) || !r.isLoad(src.Index, r.head) {
						return []int64{-1, -1}, nil, nil
					}
					fills++
					if fills == 2 {
						filled = true
					}
				}
				continue
			}
			if !isCall(in, "builtin.copy") {
				continue
			}
			args := in.(*ssa.Call).Call.Args
			if arrayOfSlice(pth.valueAt(args[0], idx)) != arr {
				continue
			}
			// the first fill comes from the ring at head
			if !filled {
				sl, _ := strip(pth.valueAt(args[1], idx)).(*ssa.Slice)
				if sl == nil || !r.isLoad(sl.X, r.data) || sl.Low == nil || !r.isLoad(sl.Low, r.head) {
					return []int64{-1, -1}, nil, nil
				}
			}
			filled = true
		}
		if !filled {
			return []int64{-1, -1}, nil, nil
		}
	}
	if !seen {
		return nil, nil, nil
	}
	var cur ssa.Value = dec
	for {
		var nx ssa.Value
		if refs := cur.Referrers(); refs != nil {
			for _, r2 := range *refs {
				if cv, ok := r2.(*ssa.Convert); ok {
					nx = cv
				}
			}
		}
		if nx == nil {
			break
		}
		cur = nx
	}
	return shifts, cur, []ssa.Instruction{dec}
}

// ringIndexRule: along every complete path of f (one loop iteration, helpers inlined, stores forwarded to loads) each
// index into the ring - data[i], data[i:...] - is in range: it is the head or tail as found under the lock, 0, or
// a value the path has compared with len(data) and found smaller (the wrap test after an advance). Whether the
// index lives in the field or in a local copy that is stored back later makes no difference.
func (r *bufRoles) ringIndexRule(o *Obligation, f *ssa.Function) {
	paths, ok := enumIterPathsU(f, 50000)
	if !ok {
		o.Undecide("the paths of %s could not be enumerated", fname(f))
		return
	}
	recv := f.Params[0].Name()
	headSym, tailSym := linSym(recv+"."+r.head), linSym(recv+"."+r.tail)
	failed := map[ssa.Instruction]bool{}
	sited := map[ssa.Instruction]bool{}
	for pi := range paths {
		pt := &paths[pi]
		ret, isRet := pt.last().(*ssa.Return)
		if !isRet || pt.Loop || ret.Parent() != f {
			continue
		}
		w := newSymWalker(pt)
		var est, wrapped, copied []linForm
		lenF := linSym("len(" + recv + "." + r.data + ")")
		ci := 0
		var stack []*ssa.Call
		isRing := func(v ssa.Value, idx int) bool {
			v = pt.valueAt(v, idx)
			return r.isLoad(v, r.data) || r.isLoad(origin(v), r.data)
		}
		check := func(in ssa.Instruction, iv ssa.Value, what string) {
			I := w.lin(iv)
			good := false
			switch {
			case !I.OK:
			case I.eq(linConst(0)):
				good = true
			case I.eq(headSym) || I.eq(tailSym):
				good = true
			default:
				for _, e := range est {
					if e.eq(I) {
						good = true
					}
				}
				// wrapped by subtraction: the path found len(data) <= x and the index is x - len(data) (an advance
				// never exceeds the ring: what is skipped or stored was stored in it)
				for _, e := range wrapped {
					if e.add(lenF, -1).eq(I) {
						good = true
					}
				}
				// a slice may start at len(data): the number of bytes a copy put into the ring is at most that
				if what == "a slice start" {
					for _, e := range copied {
						if e.eq(I) {
							good = true
						}
					}
				}
			}
			if !sited[in] {
				sited[in] = true
				o.Site(in.Pos(), "ring index of %s in %s", what, fname(f))
			}
			if !good && !failed[in] {
				failed[in] = true
				o.Fail(in.Pos(), "the ring is indexed at %s on a path that has not compared this value with len(data) since it was advanced: past the end of the ring the index must wrap to 0", I)
			}
		}
		for idx, in := range pt.Instrs {
			w.cur = idx
			if iff, isIf := in.(*ssa.If); isIf {
				var ft fact
				if ci < len(pt.Conds) {
					ft = pt.Conds[ci]
				}
				ci++
				if ft.If != iff {
					continue
				}
				if cm, ok := normCmp(ft.Cond, ft.Val); ok && cm.Op == token.LSS {
					if isLenOf(pt.valueAt(cm.Y, idx), func(v ssa.Value) bool { return isRing(v, idx) }) {
						if x := w.lin(cm.X); x.OK {
							est = append(est, x)
						}
					}
				}
				if cm, ok := normCmp(ft.Cond, ft.Val); ok && cm.Op == token.LEQ {
					if isLenOf(pt.valueAt(cm.X, idx), func(v ssa.Value) bool { return isRing(v, idx) }) {
						if x := w.lin(cm.Y); x.OK {
							wrapped = append(wrapped, x)
						}
					}
				}
				continue
			}
			if call, isC := in.(*ssa.Call); isC && isCall(call, "builtin.copy") {
				if d := pt.valueAt(call.Call.Args[0], idx); isRing(d, idx) || derivesFrom(d, func(v ssa.Value) bool { return r.isLoad(v, r.data) }, false) {
					if f := w.lin(call); f.OK {
						copied = append(copied, f)
					}
				}
			}
			switch x := in.(type) {
			case *ssa.IndexAddr:
				if isRing(x.X, idx) {
					check(in, x.Index, "a byte")
				}
			case *ssa.Slice:
				if x.Low != nil && isRing(x.X, idx) {
					check(in, x.Low, "a slice start")
				}
			}
			w.step(in)
			if h := helperCallee(in); h != nil && idx+1 < len(pt.Instrs) && pt.Instrs[idx+1].Parent() == h {
				stack = append(stack, in.(*ssa.Call))
			}
			if _, isRetI := in.(*ssa.Return); isRetI && len(stack) > 0 && idx+1 < len(pt.Instrs) {
				w.bindReturn(stack[len(stack)-1])
				stack = stack[:len(stack)-1]
			}
		}
	}
}

// combineReadShifts: the decoded length as the expression that combines two ring bytes (b<<k | b'), whichever way
// the bytes are fetched (a byte-popping helper called twice, a local copy of head and data): the byte fetched at the
// old head is the first, the one at head+1 the second, as evaluated along a path of Read that takes a packet without
// wrapping inside the header.
func (r *bufRoles) combineReadShifts(R *ssa.Function) (shifts []int64, count ssa.Value, loads []ssa.Instruction) {
	ringByte := func(v ssa.Value) (*ssa.UnOp, bool) {
		u, ok := v.(*ssa.UnOp)
		if !ok || u.Op != token.MUL {
			return nil, false
		}
		ia, ok := u.X.(*ssa.IndexAddr)
		if !ok {
			return nil, false
		}
		return u, r.isLoad(origin(ia.X), r.data)
	}
	side := func(v ssa.Value) (k int64, prod ssa.Instruction, ok bool) {
		v = strip(v)
		if b, isB := v.(*ssa.BinOp); isB && b.Op == token.SHL {
			kk, isC := constInt(b.Y)
			if !isC {
				return 0, nil, false
			}
			k, v = kk, strip(b.X)
		}
		if u, isRB := ringByte(v); isRB {
			return k, u, true
		}
		if call, isC := v.(*ssa.Call); isC && helperCallee(call) != nil {
			if _, isRB := ringByte(strip(origin(v))); isRB {
				return k, call, true
			}
		}
		return 0, nil, false
	}
	var comb *ssa.BinOp
	var kx, ky int64
	var px, py ssa.Instruction
	n := 0
	instrsOfU(R, func(in ssa.Instruction) {
		b, ok := in.(*ssa.BinOp)
		if !ok || (b.Op != token.OR && b.Op != token.ADD) {
			return
		}
		k1, p1, ok1 := side(b.X)
		k2, p2, ok2 := side(b.Y)
		if ok1 && ok2 && p1 != p2 {
			comb, kx, ky, px, py = b, k1, k2, p1, p2
			n++
		}
	})
	if n != 1 {
		return nil, nil, nil
	}
	paths, ok := enumIterPathsU(R, 50000)
	if !ok {
		return nil, nil, nil
	}
	headKey := R.Params[0].Name() + "." + r.head
	decided := false
	for pi := range paths {
		pt := &paths[pi]
		ret, isRet := pt.last().(*ssa.Return)
		if !isRet || pt.Loop || ret.Parent() != R || pt.indexOf(comb) < 0 {
			continue
		}
		w := newSymWalker(pt)
		dOf := map[ssa.Instruction]int64{}
		bad := false
		var stack []*ssa.Call
		for idx, in := range pt.Instrs {
			w.cur = idx
			if _, isIf := in.(*ssa.If); isIf {
				continue
			}
			if u, isU := in.(*ssa.UnOp); isU {
				if _, isRB := ringByte(u); isRB {
					key := ssa.Instruction(u)
					if u.Parent() != R && len(stack) > 0 {
						key = stack[len(stack)-1]
					}
					d := w.lin(u.X.(*ssa.IndexAddr).Index).add(linSym(headKey), -1)
					if d.OK && len(d.Coef) == 0 {
						if _, dup := dOf[key]; !dup {
							dOf[key] = d.K
						}
					} else if key == px || key == py {
						bad = true
					}
				}
			}
			w.step(in)
			if h := helperCallee(in); h != nil && idx+1 < len(pt.Instrs) && pt.Instrs[idx+1].Parent() == h {
				stack = append(stack, in.(*ssa.Call))
			}
			if _, isRetI := in.(*ssa.Return); isRetI && len(stack) > 0 && idx+1 < len(pt.Instrs) {
				w.bindReturn(stack[len(stack)-1])
				stack = stack[:len(stack)-1]
			}
		}
		dx, okx := dOf[px]
		dy, oky := dOf[py]
		if bad || !okx || !oky {
			continue
		}
		if !((dx == 0 && dy == 1) || (dx == 1 && dy == 0)) {
			return []int64{-1, -1}, nil, nil // the two bytes are not those at head and head+1
		}
		sh := make([]int64, 2)
		sh[dx], sh[dy] = kx, ky
		if decided && (sh[0] != shifts[0] || sh[1] != shifts[1]) {
			return []int64{-1, -1}, nil, nil
		}
		shifts, decided = sh, true
		if dx == 0 {
			loads = []ssa.Instruction{px, py}
		} else {
			loads = []ssa.Instruction{py, px}
		}
	}
	if !decided {
		return nil, nil, nil
	}
	var cur ssa.Value = comb
	for {
		var nx ssa.Value
		if refs := cur.Referrers(); refs != nil {
			for _, r2 := range *refs {
				if cv, ok := r2.(*ssa.Convert); ok {
					nx = cv
				}
			}
		}
		if nx == nil {
			break
		}
		cur = nx
	}
	return shifts, cur, loads
}

// headerReadShifts: loads of single ring bytes at head in Read (dominance order) and the shifts with which they enter the decoded length.
func (r *bufRoles) headerReadShifts(R *ssa.Function) (shifts []int64, count ssa.Value, loads []ssa.Instruction) {
	var lds []*ssa.UnOp
	for _, in := range findU(R, func(in ssa.Instruction) bool {
		u, ok := in.(*ssa.UnOp)
		if !ok || u.Op != token.MUL {
			return false
		}
		ia, ok := origin(u.X).(*ssa.IndexAddr)
		return ok && r.isLoad(ia.X, r.data) && r.isLoad(ia.Index, r.head)
	}) {
		lds = append(lds, in.(*ssa.UnOp))
	}
	for i := 0; i < len(lds); i++ {
		for j := i + 1; j < len(lds); j++ {
			if domU(lds[j], lds[i]) {
				lds[i], lds[j] = lds[j], lds[i]
			}
		}
	}
	if len(lds) != 2 {
		if sh, cnt, ls := r.codecReadShifts(R); cnt != nil || sh != nil {
			return sh, cnt, ls
		}
		return r.combineReadShifts(R)
	}
	// find the OR/ADD combining both
	shiftOf := func(ld *ssa.UnOp) (int64, ssa.Value) {
		// follow converts, then optional SHL
		var cur ssa.Value = ld
		for steps := 0; steps < 6; steps++ {
			refs := cur.Referrers()
			if refs == nil {
				break
			}
			var next ssa.Value
			for _, rf := range *refs {
				switch x := rf.(type) {
				case *ssa.Convert:
					next = x
				case *ssa.BinOp:
					if x.Op == token.SHL && x.X == cur {
						if k, ok := constInt(x.Y); ok {
							return k, x
						}
					}
					if x.Op == token.OR || x.Op == token.ADD {
						return 0, cur
					}
				}
			}
			if next == nil {
				break
			}
			cur = next
		}
		return -1, nil
	}
	s0, v0 := shiftOf(lds[0])
	s1, v1 := shiftOf(lds[1])
	shifts = []int64{s0, s1}
	if v0 != nil && v1 != nil {
		if refs := v0.Referrers(); refs != nil {
			for _, rf := range *refs {
				if b, ok := rf.(*ssa.BinOp); ok && (b.Op == token.OR || b.Op == token.ADD) && ((b.X == v0 && b.Y == v1) || (b.X == v1 && b.Y == v0)) {
					var cur ssa.Value = b
					// through conversions to int
					for {
						refs := cur.Referrers()
						var nx ssa.Value
						if refs != nil && len(*refs) >= 1 {
							for _, r2 := range *refs {
								if cv, ok := r2.(*ssa.Convert); ok {
									nx = cv
								}
							}
						}
						if nx == nil {
							break
						}
						cur = nx
					}
					count = cur
				}
			}
		}
	}
	loads = []ssa.Instruction{lds[0], lds[1]}
	return
}

// c06Grow: growth re-linearises into a fresh array and is content preserving.
func c06Grow(c *Ctx, r *bufRoles) {
	o := c.Obl("R3g", "packetio.Buffer.grow", "growth writes only into the newly allocated array, stores head=0, tail=sum of the copied lengths, data=new array together, and refuses (ErrFull) unless the size strictly increases", 3)
	g := r.growFn
	if g == nil {
		o.Undecide("growth helper not found")
		return
	}
	var mk *ssa.MakeSlice
	for _, in := range findU(g, func(in ssa.Instruction) bool { _, ok := in.(*ssa.MakeSlice); return ok }) {
		mk = in.(*ssa.MakeSlice)
	}
	if mk == nil {
		o.Undecide("no allocation in the growth helper")
		return
	}
	o.Site(mk.Pos(), "new array allocated")
	var copies []*ssa.Call
	for _, in := range findU(g, func(in ssa.Instruction) bool { return isCall(in, "builtin.copy") }) {
		call := in.(*ssa.Call)
		copies = append(copies, call)
		o.Site(in.Pos(), "%s", in.String())
		if !derivesFrom(call.Call.Args[0], func(v ssa.Value) bool { return sameOrigin(v, ssa.Value(mk)) }, false) {
			o.Fail(in.Pos(), "growth copies into something that is not the new array")
		}
		if !derivesFrom(call.Call.Args[1], func(v ssa.Value) bool { return r.isLoad(v, r.data) }, false) {
			o.Fail(in.Pos(), "growth copies from something that is not the old ring")
		}
	}
	// any direct ring write in grow is forbidden
	for _, in := range findU(g, func(in ssa.Instruction) bool { return r.isRingWrite(in) }) {
		o.Fail(in.Pos(), "growth writes into the old ring")
	}
	paths, ok := enumPathsU(g, 3000)
	if !ok {
		o.Undecide("growth helper has a loop or too many paths")
		return
	}
	nSucc := 0
	sym := func(v ssa.Value) (string, bool) {
		if call, ok := v.(*ssa.Call); ok && isCall(call, "builtin.copy") {
			return fmt.Sprintf("copy@%d", call.Pos()), true
		}
		return defaultSym(v)
	}
	for pi := range paths {
		pt := &paths[pi]
		ret, _ := pt.last().(*ssa.Return)
		if ret == nil || ret.Parent() != g {
			continue
		}
		refused := false
		if e := errorOperand(ret); e != nil && !isNilConst(pt.value(e)) {
			refused = true
		}
		if refused {
			// no store on refusal
			for _, in := range pt.Instrs {
				if _, ok := in.(*ssa.Store); ok && (r.isStoreTo(in, r.head) || r.isStoreTo(in, r.tail) || r.isStoreTo(in, r.data)) {
					o.Fail(in.Pos(), "growth modifies the buffer on a path that ends in a refusal")
				}
			}
			continue
		}
		nSucc++
		var headV, tailV, dataV ssa.Value
		nCopies := linConst(0)
		for _, in := range pt.Instrs {
			if st, ok := in.(*ssa.Store); ok {
				switch {
				case r.isStoreTo(in, r.head):
					headV = pt.value(st.Val)
				case r.isStoreTo(in, r.tail):
					tailV = pt.value(st.Val)
				case r.isStoreTo(in, r.data):
					dataV = pt.value(st.Val)
				}
			}
			if call, ok := in.(*ssa.Call); ok && isCall(call, "builtin.copy") {
				nCopies = nCopies.add(linSym(fmt.Sprintf("copy@%d", call.Pos())), 1)
			}
		}
		// what is copied: exactly the stored bytes, oldest first - data[head:tail] when the path has found
		// head <= tail, otherwise data[head:] followed by data[:tail] placed right behind it
		{
			recvN := g.Params[0].Name()
			hF, tF := linSym(recvN+"."+r.head), linSym(recvN+"."+r.tail)
			type seg struct {
				lo, hi   *linForm
				dstLo    *linForm
				call     *ssa.Call
				fromRing bool
			}
			var segs []seg
			for idx, in := range pt.Instrs {
				call, ok := in.(*ssa.Call)
				if !ok || !isCall(call, "builtin.copy") {
					continue
				}
				sg := seg{call: call}
				form := func(v ssa.Value) *linForm {
					if v == nil {
						return nil
					}
					f := pathLin(pt, pt.valueAt(v, idx), sym)
					return &f
				}
				if sl, ok := strip(pt.valueAt(call.Call.Args[1], idx)).(*ssa.Slice); ok && r.isLoad(pt.valueAt(sl.X, idx), r.data) {
					sg.fromRing = true
					sg.lo, sg.hi = form(sl.Low), form(sl.High)
				}
				if dl, ok := strip(pt.valueAt(call.Call.Args[0], idx)).(*ssa.Slice); ok {
					sg.dstLo = form(dl.Low)
				}
				segs = append(segs, sg)
			}
			isF := func(p *linForm, want linForm) bool { return p != nil && p.eq(want) }
			contiguous := false
			for _, cnd := range pt.Conds {
				if a, pol, ok := atomOfP(cnd.Cond, cnd.Val, sym, pt.phi); ok && pol && !a.Eq {
					// head <= tail  <=>  tail - head + 1 > 0
					if a.Form.eq(tF.add(hF, -1).add(linConst(1), 1)) {
						contiguous = true
					}
				}
				if a, pol, ok := atomOfP(cnd.Cond, cnd.Val, sym, pt.phi); ok && !pol && !a.Eq {
					// not (tail < head)  <=>  not (head - tail > 0)
					if a.Form.eq(hF.add(tF, -1)) {
						contiguous = true
					}
				}
			}
			lenF := linSym("len(" + recvN + "." + r.data + ")")
			toEnd := func(p *linForm) bool { return p == nil || p.eq(lenF) }
			okSegs := false
			switch {
			case len(segs) == 1 && contiguous:
				okSegs = segs[0].fromRing && isF(segs[0].lo, hF) && isF(segs[0].hi, tF) && (segs[0].dstLo == nil || segs[0].dstLo.eq(linConst(0)))
			case len(segs) == 2 && !contiguous:
				first := linSym(fmt.Sprintf("copy@%d", segs[0].call.Pos()))
				okSegs = segs[0].fromRing && segs[1].fromRing && isF(segs[0].lo, hF) && toEnd(segs[0].hi) &&
					(segs[1].lo == nil || segs[1].lo.eq(linConst(0))) && isF(segs[1].hi, tF) &&
					(segs[0].dstLo == nil || segs[0].dstLo.eq(linConst(0))) && isF(segs[1].dstLo, first)
			}
			if !okSegs {
				o.Fail(ret.Pos(), "growth does not copy exactly the stored bytes in order (data[head:tail], or data[head:] followed by data[:tail] right behind it) on this path (contiguous=%v, %d copies): bytes already read are delivered again, or stored ones are lost", contiguous, len(segs))
			}
		}
		if headV == nil || tailV == nil || dataV == nil {
			o.Fail(ret.Pos(), "a successful growth path does not update head, tail and data together")
			continue
		}
		if k, ok := constInt(headV); !ok || k != 0 {
			o.Fail(ret.Pos(), "after growth head is not 0 although the data was linearised from offset 0")
		}
		if got := pathLin(pt, tailV, sym); !got.eq(nCopies) {
			o.Fail(ret.Pos(), "after growth tail (%s) is not the number of bytes copied (%s)", got, nCopies)
		}
		if !sameOrigin(dataV, ssa.Value(mk)) {
			o.Fail(ret.Pos(), "after growth data is not the new array")
		}
		// strictly larger: the path must carry the literal newSize > len(data)
		okGrow := false
		for _, cnd := range pt.Conds {
			cm, ok2 := normCmp(cnd.Cond, cnd.Val)
			if ok2 && cm.Op == token.LSS && isLenOf(pt.value(cm.X), func(v ssa.Value) bool { return r.isLoad(pt.value(v), r.data) }) {
				if pt.value(cm.Y) == pt.value(mk.Len) || sameOrigin(cm.Y, mk.Len) {
					okGrow = true
				}
			}
		}
		if !okGrow {
			o.Fail(ret.Pos(), "growth can succeed without the new size being strictly larger than the old one (Write's grow loop would not terminate / data would be truncated)")
		}
	}
	if nSucc < 2 {
		o.Undecide("expected a contiguous and a wrapped growth path, found %d successful paths", nSucc)
	}
}

// pathLin: the linear form of v along a path (phis by the edge taken, helper parameters and results bound).
func pathLin(pt *upath, v ssa.Value, sym symNamer) linForm {
	return linOfX(v, sym, pt.phi, func(x ssa.Value) (linForm, bool) {
		if r := pt.resolve(x); r != x {
			return pathLin(pt, r, sym), true
		}
		return linForm{}, false
	})
}

func resolvePhi(v ssa.Value, pr func(*ssa.Phi) ssa.Value) ssa.Value {
	for i := 0; i < 10; i++ {
		ph, ok := v.(*ssa.Phi)
		if !ok {
			return v
		}
		e := pr(ph)
		if e == nil {
			return v
		}
		v = e
	}
	return v
}

// c0607Available: the free-space test and the occupancy helper as exact linear forms.
func c0607Available(c *Ctx, r *bufRoles) {
	o := c.Obl("R8", "packetio.Buffer.available", "free-space test: with A = head-tail (+len(data) if A <= 0) a packet of size s fits iff s+2+1 <= A (one byte always stays free, so head==tail means empty)", 2)
	a := r.availFn
	if a == nil {
		o.Undecide("free-space helper not found")
	} else {
		recv, sz := a.Params[0].Name(), a.Params[1].Name()
		A := linSym(recv+"."+r.head).add(linSym(recv+"."+r.tail), -1)
		L := linSym("len(" + recv + "." + r.data + ")")
		// paths of the helper with the occupancy helper (and any private helper) inlined
		savedEx := unitExclude
		ex2 := map[*ssa.Function]bool{}
		for k, v := range savedEx {
			if k != r.sizeFn {
				ex2[k] = v
			}
		}
		unitExclude = ex2
		paths, ok := enumPathsU(a, 400)
		if !ok {
			o.Undecide("free-space helper has a loop")
		}
		for _, pt := range paths {
			ret, _ := pt.Instrs[len(pt.Instrs)-1].(*ssa.Return)
			if ret == nil || ret.Parent() != a {
				continue
			}
			pf := evalPath(pt)
			lits := pf.lits
			var Ap linForm
			switch {
			case hasIneq(lits, A): // A > 0
				Ap = A
			case hasIneq(lits, A.scale(-1).add(linConst(1), 1)): // A <= 0
				Ap = A.add(L, 1)
			default:
				// the result may not depend on the distinction at all only if it is computed from a value that does
				o.Fail(ret.Pos(), "path does not distinguish head-tail > 0 from <= 0")
				continue
			}
			ptc := pt
			val := ptc.value(ret.Results[0])
			cst, isC := val.(*ssa.Const)
			if !isC {
				// "return <comparison>": the packet fits iff the comparison holds
				want := Ap.add(linSym(sz), -1).add(linConst(-2), 1) // A'-s-2 > 0
				var got linForm
				okc := false
				if cm, ok := normCmp(val, true); ok {
					x, y := pf.w.lin(cm.X), pf.w.lin(cm.Y)
					switch cm.Op {
					case token.LSS:
						got, okc = y.add(x, -1), true
					case token.LEQ:
						got, okc = y.add(x, -1).add(linConst(1), 1), true
					}
				}
				o.Site(ret.Pos(), "returns the comparison %s > 0", got)
				if !okc || !got.eq(want) {
					o.Fail(ret.Pos(), "free-space test is not 'size+2+1 <= available': the helper returns [%s > 0] but fitting requires [%s > 0] (the byte that keeps head==tail unambiguous is lost or the threshold moved)", got, want)
				}
				continue
			}
			fits := cst.Value.String() == "true"
			var strs []string
			for _, l := range lits {
				strs = append(strs, l.A.String())
			}
			o.Site(ret.Pos(), "returns %v under %s", fits, strings.Join(strs, " & "))
			need := linSym(sz).add(linConst(3), 1).add(Ap, -1) // s+3-A' > 0  <=> does not fit
			if fits {
				need = Ap.add(linSym(sz), -1).add(linConst(-2), 1) // A'-s-2 > 0 <=> s+3 <= A'
			}
			if !hasIneq(lits, need) {
				o.Fail(ret.Pos(), "free-space test is not 'size+2+1 <= available': on the path returning %v the literal %s > 0 is required but the path has %s", fits, need, strings.Join(strs, " & "))
			}
		}
		unitExclude = savedEx
	}
	o = c.Obl("R8s", "packetio.Buffer.size", "occupancy helper returns tail-head, plus len(data) exactly when that is negative", 2)
	s := r.sizeFn
	recv := s.Params[0].Name()
	D := linSym(recv+"."+r.tail).add(linSym(recv+"."+r.head), -1)
	L := linSym("len(" + recv + "." + r.data + ")")
	paths, ok := enumPathsB(s, 50)
	if !ok {
		o.Undecide("occupancy helper has a loop")
	}
	for _, pt := range paths {
		last := pt.Blocks[len(pt.Blocks)-1]
		ret, _ := last.Instrs[len(last.Instrs)-1].(*ssa.Return)
		if ret == nil {
			continue
		}
		lits := pathLits(pt, nil)
		got := linOfP(ret.Results[0], nil, pathPhi(pt))
		o.Site(ret.Pos(), "returns %s", got)
		switch {
		case hasIneq(lits, D.scale(-1)): // D < 0  <=> -D > 0
			if !got.eq(D.add(L, 1)) {
				o.Fail(ret.Pos(), "occupancy on the wrapped path is %s, expected tail-head+len(data)", got)
			}
		case hasIneq(lits, D.add(linConst(1), 1)): // D >= 0 <=> D+1 > 0
			if !got.eq(D) {
				o.Fail(ret.Pos(), "occupancy on the contiguous path is %s, expected tail-head", got)
			}
		default:
			o.Fail(ret.Pos(), "occupancy helper does not distinguish tail-head < 0")
		}
	}
}

// ---------------------------------------------------------------------------------
// C07
// ---------------------------------------------------------------------------------

func runC07(c *Ctx) {
	p := c.P
	r := bufAnchors(c)
	if r == nil {
		return
	}
	la := computeLocksets(p)
	W := r.Write
	recv, pkt := W.Params[0].Name(), W.Params[1].Name()

	// R1+R2: the limit test as a decision structure
	o := c.Obl("R2", fname(W), "Write refuses with ErrFull exactly when (limitCount>0 and count+1>limitCount) or (limitSize>0 and size+2+len>limitSize); otherwise it proceeds to store", 1)
	// region start: the false edge of the closed test
	var start *ssa.BasicBlock
	for _, in := range findU(W, func(in ssa.Instruction) bool { _, ok := in.(*ssa.If); return ok }) {
		iff := in.(*ssa.If)
		if r.isLoad(iff.Cond, r.closed) {
			start = iff.Block().Succs[1]
		} else if u, ok := iff.Cond.(*ssa.UnOp); ok && u.Op == token.NOT && r.isLoad(u.X, r.closed) {
			start = iff.Block().Succs[0]
		}
	}
	if start == nil {
		o.Undecide("closed test not found in Write")
	} else {
		full := func(in ssa.Instruction) bool { return returnsGlobalErr(in, "packetio", "ErrFull") }
		d := &decisionRegion{start: blockStart(start), classify: func(in ssa.Instruction) string {
			if full(in) {
				return "refuse"
			}
			if isReturn(in) {
				return "other-return"
			}
			if call, ok := in.(*ssa.Call); ok {
				if sc := call.Call.StaticCallee(); sc != nil && (sc == r.availFn || sc == r.growFn) {
					return "store"
				}
				// a helper that makes room or stores (it calls the fit test / the growth, or writes the ring)
				if h := helperCallee(call); h != nil {
					stores := false
					instrsOfU(h, func(x ssa.Instruction) {
						if xc, ok := x.(*ssa.Call); ok {
							if sc := xc.Call.StaticCallee(); sc != nil && (sc == r.availFn || sc == r.growFn) {
								stores = true
							}
						}
						if r.isRingWrite(x) || r.isStoreTo(x, r.tail) || r.isStoreTo(x, r.count) {
							stores = true
						}
					})
					if stores {
						return "store"
					}
				}
			}
			if r.isRingWrite(in) || r.isStoreTo(in, r.tail) || r.isStoreTo(in, r.count) {
				return "store"
			}
			return ""
		}}
		lc, cnt, ls := linSym(recv+"."+r.limitCount), linSym(recv+"."+r.count), linSym(recv+"."+r.limitSize)
		sz := linSym(r.sizeFn.Name() + "(" + recv + ")")
		ln := linSym("len(" + pkt + ")")
		a1 := atom{Form: lc}                                            // limitCount > 0
		a2 := atom{Form: cnt.add(lc, -1).add(linConst(1), 1)}           // count + 1 > limitCount
		a3 := atom{Form: ls}                                            // limitSize > 0
		a4 := atom{Form: sz.add(ln, 1).add(linConst(2), 1).add(ls, -1)} // size + 2 + len > limitSize
		cex := d.compareWithSpec(func(val func(a atom) bool) string {
			if (val(a1) && val(a2)) || (val(a3) && val(a4)) {
				return "refuse"
			}
			return "store"
		})
		for _, a := range d.Atoms {
			o.Site(W.Pos(), "branch atom: %s", a)
		}
		for _, pr := range d.Problems {
			o.Fail(W.Pos(), "%s", pr)
		}
		for _, a := range []atom{a1, a2, a3, a4} {
			if !d.has(a) {
				o.Fail(W.Pos(), "the limit test does not contain the comparison %s (threshold moved or test missing)", a)
			}
		}
		if cex != "" {
			o.Fail(W.Pos(), "limit test differs from the rule: %s", cex)
		}
		// the test runs under the lock
		for _, in := range findU(W, full) {
			o.Site(in.Pos(), "return ErrFull")
		}
	}
	// R1: stores dominated by the test = stores unreachable without passing the region start, and no store before it
	o = c.Obl("R1", fname(W), "every store to contents/occupancy in Write comes after the limit test (dominated by the false edge of the closed test and by the limit comparisons' non-refusing edges)", 3)
	if start != nil {
		for _, st := range r.contentStores(W) {
			o.Site(st.Pos(), "%s", st.String())
			if !(start == st.Block() || start.Dominates(st.Block()) || domU(start.Instrs[0], st)) {
				o.Fail(st.Pos(), "store is not dominated by the limit test region")
			}
		}
	}
	// R3 = C06.R3 (refusal side-effect free) re-evaluated here for ErrFull specifically
	o = c.Obl("R3", fname(W), "a refused Write (ErrFull) performs no store to contents, Count or Size before refusing", 1)
	for _, in := range findInstrs(W, func(in ssa.Instruction) bool { return returnsGlobalErr(in, "packetio", "ErrFull") || isErrorReturn(in) }) {
		o.Site(in.Pos(), "error return")
	}
	for _, st := range findU(W, func(in ssa.Instruction) bool {
		return r.isRingWrite(in) || r.isStoreTo(in, r.tail) || r.isStoreTo(in, r.count) || r.isStoreTo(in, r.head)
	}) {
		for in := range reachU(posAfter(st), nil) {
			if isErrorReturn(in) {
				o.Fail(in.Pos(), "an error return is reachable after the store at %s", p.Pos(st.Pos()))
				break
			}
		}
	}
	c06Grow(c, r)

	// R4 accessors
	o = c.Obl("R4", r.T, "Count returns count and Size returns the occupancy helper's result, both under the mutex; SetLimitCount/SetLimitSize store their argument under the mutex", 4)
	for _, v := range returnedLeavesU(r.Count, 0) {
		o.Site(v.Pos(), "Count returns %s", accessPath(v))
		if !r.isLoad(v, r.count) {
			o.Fail(v.Pos(), "Count does not return the packet count")
		} else if !la.holdsOwner(v.(ssa.Instruction), r.T, false) {
			o.Fail(v.Pos(), "Count reads count without the mutex")
		}
	}
	for _, v := range returnedLeavesU(r.Size, 0) {
		call, ok := v.(*ssa.Call)
		o.Site(v.Pos(), "Size returns %s", v.String())
		if !ok || call.Call.StaticCallee() != r.sizeFn {
			o.Fail(v.Pos(), "Size does not return the occupancy helper's result")
		} else if !la.holdsOwner(call, r.T, false) {
			o.Fail(v.Pos(), "Size computes the occupancy without the mutex")
		}
	}
	for _, fs := range []struct {
		f     *ssa.Function
		field string
	}{{r.SetLimitCount, r.limitCount}, {r.SetLimitSize, r.limitSize}} {
		n := 0
		for _, in := range findU(fs.f, func(in ssa.Instruction) bool { return r.isStoreTo(in, fs.field) }) {
			n++
			st := in.(*ssa.Store)
			o.Site(in.Pos(), "%s stores %s", fname(fs.f), st.Val.Name())
			if !sameOrigin(st.Val, ssa.Value(fs.f.Params[1])) {
				o.Fail(in.Pos(), "%s does not store its argument", fname(fs.f))
			}
			if !la.holdsOwner(in, r.T, true) {
				o.Fail(in.Pos(), "%s stores the limit without the mutex", fname(fs.f))
			}
		}
		// a setter helper shared by both limits, storing through the field's address: each call on its own
		instrsOf(fs.f, func(ci ssa.Instruction) {
			call, ok := ci.(*ssa.Call)
			if !ok {
				return
			}
			h := helperCallee(call)
			if h == nil {
				return
			}
			withSite(call, func() {
				instrsOfU(h, func(in ssa.Instruction) {
					st, ok := in.(*ssa.Store)
					if !ok {
						return
					}
					if _, direct := asFieldAddr(st.Addr); direct {
						return
					}
					fr, ok := asFieldAddr(origin(st.Addr))
					if !ok || fr.SName != r.T || fr.Field != fs.field {
						return
					}
					n++
					o.Site(in.Pos(), "%s stores %s through %s", fname(fs.f), st.Val.Name(), fname(h))
					if !sameOrigin(st.Val, ssa.Value(fs.f.Params[1])) {
						o.Fail(in.Pos(), "%s does not store its argument", fname(fs.f))
					}
					if !la.holdsOwner(in, r.T, true) {
						o.Fail(in.Pos(), "%s stores the limit without the mutex", fname(fs.f))
					}
				})
			})
		})
		if n != 1 {
			o.Fail(fs.f.Pos(), "%s: expected exactly one store of the limit, found %d", fname(fs.f), n)
		}
	}
	// limits are only written by the setters
	for _, f := range p.Funcs {
		if isPrivateHelper(f) && !unitExclude[f] {
			continue // analysed as part of the functions that call it
		}
		if pkgOf(f) != "packetio" || f == r.SetLimitCount || f == r.SetLimitSize {
			continue
		}
		for _, in := range findU(f, func(in ssa.Instruction) bool { return r.isStoreTo(in, r.limitCount) || r.isStoreTo(in, r.limitSize) }) {
			if !isFreshBase(in.(*ssa.Store).Addr.(*ssa.FieldAddr).X) {
				o.Fail(in.Pos(), "a limit is modified in %s", fname(f))
			}
		}
	}

	// R5 = count pairing and helper arithmetic
	c0607Available(c, r)
	o = c.Obl("R5", r.T+"."+r.count, "count++ once per accepted Write, count-- once per returned packet (pairing; see C06.R7)", 2)
	isInc := func(in ssa.Instruction) bool { d, ok := r.fieldDelta(in, r.count); return ok && d == 1 }
	isDec := func(in ssa.Instruction) bool { d, ok := r.fieldDelta(in, r.count); return ok && d == -1 }
	for _, in := range findU(W, isInc) {
		o.Site(in.Pos(), "count++")
	}
	for _, in := range findU(r.Read, isDec) {
		o.Site(in.Pos(), "count--")
	}
	if ok, bad := mustPassU(entryPos(W), isSuccessReturn, isInc); !ok {
		o.Fail(bad.Pos(), "a success return of Write is reachable without count++")
	}
	if m, inf := maxEventsU(entryPos(W), isReturn, func(in ssa.Instruction) int { return b2i(isInc(in)) }); m > 1 || inf {
		o.Fail(W.Pos(), "count can be incremented more than once per Write")
	}
	pktRet := func(in ssa.Instruction) bool {
		return isSuccessReturn(in) || returnsGlobalErr(in, "io", "ErrShortBuffer")
	}
	if ok, bad := mustPassU(entryPos(r.Read), pktRet, isDec); !ok {
		o.Fail(bad.Pos(), "Read can return a packet without count--")
	}
	// growth cap: R6 — maximum size constants
	c07GrowCap(c, r)
	// Size() is tail - head: what the ring rules of C06 establish about the two indices (advanced by exactly what
	// was stored / consumed, wrapped before use, growth re-linearising) is part of "Size reports the occupancy"
	if c.RulePrefix == "" {
		c.RulePrefix = "Ring."
		runC06(c)
		c.RulePrefix = ""
	}
}

// c07GrowCap: the new size is capped at limitSize+1 when a size limit is set, else at the 4 MiB constant.
func c07GrowCap(c *Ctx, r *bufRoles) {
	o := c.Obl("R6", "packetio.Buffer.grow", "growth is capped: with a size limit at limitSize+1 (the slack byte), without one at the 4 MiB constant; the cap comparisons are present in the growth helper", 2)
	g := r.growFn
	if g == nil {
		o.Undecide("growth helper not found")
		return
	}
	recv := g.Params[0].Name()
	seenLimit, seenMax := false, false
	var clampIfs []*ssa.If
	instrsOfU(g, func(in ssa.Instruction) {
		iff, ok := in.(*ssa.If)
		if !ok {
			return
		}
		cm, ok := normCmp(iff.Cond, true)
		if !ok {
			return
		}
		lx := linOf(cm.X, nil)
		want := linSym(recv+"."+r.limitSize).add(linConst(1), 1)
		if cm.Op == token.LSS && lx.eq(want) { // limitSize+1 < newSize
			seenLimit = true
			o.Site(in.Pos(), "cap at limitSize+1")
		}
		if cm.Op == token.LSS && lx.OK && len(lx.Coef) == 0 && lx.K == 4*1024*1024 {
			seenMax = true
			o.Site(in.Pos(), "cap at 4 MiB")
			clampIfs = append(clampIfs, iff)
		}
	})
	// the 4 MiB clamp applies only when no size limit is set (or the hard-limit build tag makes the condition constant)
	for _, clampIf := range clampIfs {
		fn := clampIf.Parent()
		var cut []cfgEdge
		noLimit := atom{Form: linSym(recv+"."+r.limitSize).scale(-1).add(linConst(1), 1)} // limitSize <= 0
		for _, b := range fn.Blocks {
			iff, ok := b.Instrs[len(b.Instrs)-1].(*ssa.If)
			if !ok {
				continue
			}
			if _, ok := iff.Cond.(*ssa.Const); ok {
				// a build-time constant (sizeHardLimit): its true edge is either infeasible or the hard-limit configuration
				cut = append(cut, cfgEdge{b, b.Succs[0]})
				continue
			}
			for k := 0; k < 2; k++ {
				a, pol, ok := atomOf(iff.Cond, k == 0, nil)
				if ok && pol && !a.Eq && a.Form.eq(noLimit.Form) {
					cut = append(cut, cfgEdge{b, b.Succs[k]})
				}
			}
		}
		o.Site(clampIf.Pos(), "4 MiB clamp guarded by %d 'no size limit' / constant edge(s)", len(cut))
		guarded := len(cut) > 0 && unreachableWithout(fn, clampIf, cut)
		if !guarded {
			// the guard kept in a boolean (userLimitOnly := limitSize > 0 && !sizeHardLimit; if !userLimitOnly && …):
			// path by path, with the boolean resolved by the edge taken
			hasLimit := atom{Form: linSym(recv + "." + r.limitSize)} // limitSize > 0
			okAll, decided := everyUnitPathToResolved(fn, clampIf, func(conds []fact) bool {
				for _, ft := range conds {
					if _, isC := ft.Cond.(*ssa.Const); isC {
						return true // decided by a build-time constant (the hard-limit configuration)
					}
					a, pol, ok := atomOf(ft.Cond, ft.Val, nil)
					if !ok || a.Eq {
						continue
					}
					if (pol && a.Form.eq(noLimit.Form)) || (!pol && a.Form.eq(hasLimit.Form)) {
						return true
					}
				}
				return false
			})
			guarded = okAll && decided
		}
		if !guarded {
			o.Fail(clampIf.Pos(), "the 4 MiB clamp can apply although a size limit is set (it must be guarded by limitSize <= 0, or by the hard-limit build constant): with a limit near 4 MiB the ring cannot hold limitSize bytes plus the slack byte")
		}
	}
	if !seenLimit {
		o.Fail(g.Pos(), "no comparison 'newSize > limitSize+1' in the growth helper: with a size limit the ring may not be able to hold limitSize bytes, or grows beyond it")
	}
	if !seenMax {
		o.Fail(g.Pos(), "no comparison with the 4 MiB cap in the growth helper")
	}
}

// isWrapAdvance: v is h(<load of field>) where the module function h returns its argument plus one,
// wrapped to zero when that reaches len(data): the advance and its wrap in one step.
func (r *bufRoles) isWrapAdvance(v ssa.Value, field string) bool {
	call, ok := v.(*ssa.Call)
	if !ok {
		return false
	}
	h := call.Call.StaticCallee()
	if h == nil || !inModule(h) || len(h.Blocks) == 0 || h.Signature.Results().Len() != 1 {
		return false
	}
	var prm *ssa.Parameter
	for i, a := range call.Call.Args {
		if r.isLoad(a, field) && i < len(h.Params) {
			prm = h.Params[i]
		}
	}
	if prm == nil {
		return false
	}
	isNext := func(x ssa.Value) bool {
		b, ok := x.(*ssa.BinOp)
		if !ok || b.Op != token.ADD {
			return false
		}
		k, isC := constInt(b.Y)
		return isC && k == 1 && sameOrigin(b.X, ssa.Value(prm))
	}
	// limitFact: the edge establishes next >= len(data) (want=true) or next < len(data) (want=false)
	limitFact := func(ft fact, want bool) bool {
		cm, ok := normCmp(ft.Cond, ft.Val)
		if !ok {
			return false
		}
		isLen := func(x ssa.Value) bool { return isLenOf(x, func(y ssa.Value) bool { return r.isLoad(y, r.data) }) }
		switch {
		case isNext(cm.X) && isLen(cm.Y):
			if want {
				return cm.Op == token.GEQ || cm.Op == token.EQL
			}
			return cm.Op == token.LSS
		case isLen(cm.X) && isNext(cm.Y):
			if want {
				return cm.Op == token.LEQ || cm.Op == token.EQL
			}
			return cm.Op == token.GTR
		}
		return false
	}
	nZero, nNext := 0, 0
	for _, ret := range findInstrs(h, isReturn) {
		for _, rv := range retValAt(ret.(*ssa.Return), 0) {
			for _, leaf := range phiLeavesWithPred(rv) {
				blk := ret.Block()
				if leaf.pred != nil {
					blk = leaf.pred
				}
				has := func(want bool) bool {
					if leaf.pred != nil {
						return blockHasFact(leaf.pred, phiBlockOf(rv, ret), func(ft fact) bool { return limitFact(ft, want) })
					}
					for _, ft := range guardsOfBlock(blk) {
						if limitFact(ft, want) {
							return true
						}
					}
					return false
				}
				switch {
				case isConstZero(leaf.v):
					if !has(true) {
						return false
					}
					nZero++
				case isNext(leaf.v):
					if !has(false) {
						return false
					}
					nNext++
				default:
					return false
				}
			}
		}
	}
	return nZero > 0 && nNext > 0
}

func phiBlockOf(v ssa.Value, ret ssa.Instruction) *ssa.BasicBlock {
	if ph, ok := v.(*ssa.Phi); ok {
		return ph.Block()
	}
	return ret.Block()
}

// isGlobalErrValue: v is the value of the package-level error variable pkg.name.
func isGlobalErrValue(v ssa.Value, pkgPath, name string) bool {
	u, ok := v.(*ssa.UnOp)
	if !ok || u.Op != token.MUL {
		return false
	}
	g, ok := u.X.(*ssa.Global)
	return ok && g.Name() == name && g.Pkg != nil && (g.Pkg.Pkg.Path() == pkgPath || shortPkg(g.Pkg.Pkg.Path()) == pkgPath)
}

type retKind struct {
	ret   ssa.Instruction
	short bool
}

// emptyHeadTail: the fact establishes head == tail.
func emptyHeadTail(r *bufRoles, ft fact) bool {
	cm, ok := normCmp(ft.Cond, ft.Val)
	if !ok || cm.Op != token.EQL {
		return false
	}
	return (r.isLoad(cm.X, r.head) && r.isLoad(cm.Y, r.tail)) || (r.isLoad(cm.X, r.tail) && r.isLoad(cm.Y, r.head))
}

// returnedLeavesU: the values result i of f can take, looking through private helpers with any number of results.
func returnedLeavesU(f *ssa.Function, i int) []ssa.Value {
	var out []ssa.Value
	seen := map[ssa.Value]bool{}
	var expand func(f *ssa.Function, i int, d int)
	expand = func(f *ssa.Function, i int, d int) {
		for _, v := range returnedValues(f, i) {
			if seen[v] {
				continue
			}
			seen[v] = true
			if d < 4 {
				if ex, ok := v.(*ssa.Extract); ok {
					if call, ok := ex.Tuple.(*ssa.Call); ok {
						if h := helperCallee(call); h != nil {
							expand(h, ex.Index, d+1)
							continue
						}
					}
				}
				if call, ok := v.(*ssa.Call); ok {
					if h := helperCallee(call); h != nil && h.Signature.Results().Len() == 1 && h != f {
						// keep the call itself too: some rules name the helper
						out = append(out, v)
						continue
					}
				}
			}
			out = append(out, v)
		}
	}
	expand(f, i, 0)
	return out
}
