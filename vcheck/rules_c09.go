package main

// C09 — deadline.Deadline: typestate / counting discipline of Set and timeout, decided
// by enumerating every acyclic path of the two functions over the abstract entry state
// {stopped, started, exceeded} x the outcome of timer.Stop() x the class of the
// argument (zero / future / past).

import (
	"fmt"
	"go/token"
	"go/types"
	"sort"
	"strings"

	"golang.org/x/tools/go/ssa"
)

type dlRoles struct {
	T                                         string
	Set, Timeout, New, Done, Err, DeadlineFn  *ssa.Function
	mu, timer, done, deadline, state, pending string
	stStopped, stStarted, stExceeded          int64
	problems                                  []string
	armCalls                                  map[*ssa.Call]bool
}

func resolveDeadline(p *Prog) *dlRoles {
	r := &dlRoles{T: "deadline.Deadline", stStopped: 0, stStarted: -1, stExceeded: -1}
	miss := func(s string, a ...interface{}) { r.problems = append(r.problems, fmt.Sprintf(s, a...)) }
	named := p.Named("deadline", "Deadline")
	if named == nil {
		miss("type deadline.Deadline not found")
		return r
	}
	st, _ := named.Underlying().(*types.Struct)
	if st == nil {
		miss("deadline.Deadline is not a struct")
		return r
	}
	r.Set = p.Func("deadline", "Deadline", "Set")
	r.New = p.Func("deadline", "", "New")
	r.Done = p.Func("deadline", "Deadline", "Done")
	r.Err = p.Func("deadline", "Deadline", "Err")
	r.DeadlineFn = p.Func("deadline", "Deadline", "Deadline")
	if r.Set == nil || r.New == nil || r.Done == nil || r.Err == nil || r.DeadlineFn == nil {
		miss("exported API of deadline.Deadline (New, Set, Done, Err, Deadline) incomplete")
		return r
	}
	// fields regrouped into an unexported inner struct (embedded: promoted names; named field: dotted names) keep
	// their roles
	flattenFields = true
	for _, f := range flatStructFields(st, "", 0) {
		switch t := f.Type.(type) {
		case *types.Named:
			switch {
			case isMutexType(t):
				r.mu = f.Name
			case t.Obj().Pkg() != nil && t.Obj().Pkg().Path() == "time" && t.Obj().Name() == "Time":
				r.deadline = f.Name
			default:
				if _, ok := t.Underlying().(*types.Interface); ok {
					r.timer = f.Name
				} else if b, ok := t.Underlying().(*types.Basic); ok && b.Info()&types.IsInteger != 0 {
					r.state = f.Name
				}
			}
		case *types.Chan:
			r.done = f.Name
		case *types.Basic:
			if t.Info()&types.IsInteger != 0 {
				r.pending = f.Name
			}
		}
	}
	for k, v := range map[string]string{"mutex": r.mu, "timer": r.timer, "done": r.done, "deadline": r.deadline, "state": r.state, "pending": r.pending} {
		if v == "" {
			miss("role %q of deadline.Deadline could not be resolved", k)
		}
	}
	if len(r.problems) > 0 {
		return r
	}
	// the timer callback: the bound method handed to the arming call in Set
	for _, in := range findU(r.Set, func(ssa.Instruction) bool { return true }) {
		if mc, ok := in.(*ssa.MakeClosure); ok {
			if fn, ok := mc.Fn.(*ssa.Function); ok && strings.HasSuffix(fn.Name(), "$bound") {
				if m := p.Func("deadline", "Deadline", strings.TrimSuffix(fn.Name(), "$bound")); m != nil {
					r.Timeout = m
				}
			}
		}
	}
	if r.Timeout == nil {
		r.Timeout = p.Func("deadline", "Deadline", "timeout")
	}
	if r.Timeout == nil {
		miss("timer callback of Deadline not found")
		return r
	}
	// exceeded: the constant the callback stores to state; started: the constant stored in Set on the arming path
	instrsOfU(r.Timeout, func(in ssa.Instruction) {
		if st, ok := in.(*ssa.Store); ok && isFieldStore(in, r.T, r.state) {
			if k, ok := constInt(st.Val); ok {
				r.stExceeded = k
			}
		}
	})
	arm := findU(r.Set, func(in ssa.Instruction) bool { return r.isArm(in) })
	for _, a := range arm {
		for _, in := range findU(r.Set, func(in ssa.Instruction) bool { return isFieldStore(in, r.T, r.state) }) {
			st := in.(*ssa.Store)
			if k, ok := constInt(st.Val); ok && (domU(in, a) || domU(a, in)) {
				r.stStarted = k
			}
		}
	}
	if r.stStarted < 0 && r.stExceeded > 0 {
		// the state the callback requires before it signals: the constant it compares the state with
		instrsOfU(r.Timeout, func(in ssa.Instruction) {
			b, ok := in.(*ssa.BinOp)
			if !ok || (b.Op != token.EQL && b.Op != token.NEQ) {
				return
			}
			var k int64
			var okc bool
			if isFieldLoad(b.X, r.T, r.state) {
				k, okc = constInt(b.Y)
			} else if isFieldLoad(b.Y, r.T, r.state) {
				k, okc = constInt(b.X)
			}
			if okc && k != r.stExceeded && k != 0 {
				r.stStarted = k
			}
		})
	}
	if r.stExceeded < 0 || r.stStarted < 0 || r.stExceeded == r.stStarted || r.stStarted == 0 || r.stExceeded == 0 {
		miss("state constants could not be resolved (started=%d exceeded=%d)", r.stStarted, r.stExceeded)
	}
	return r
}

// isArm: a call that (re)arms the runtime timer: Reset invoked on the timer field, or a
// call whose result is stored into the timer field (afterFunc).
func (r *dlRoles) isArm(in ssa.Instruction) bool {
	c, ok := in.(*ssa.Call)
	if !ok {
		return false
	}
	if c.Call.IsInvoke() && c.Call.Method.Name() == "Reset" && isFieldLoad(c.Call.Value, r.T, r.timer) {
		return true
	}
	// calls that create the timer, directly or inside helpers whose result ends up in the timer field: the innermost
	// creating call counts (time.AfterFunc inside afterFunc inside restart); a helper that builds the timer object
	// itself (the js timer) is the creating call
	if r.armCalls == nil && r.Set != nil {
		r.armCalls = map[*ssa.Call]bool{}
		var expand func(v ssa.Value, d int) int
		expand = func(v ssa.Value, d int) int {
			n := 0
			for _, lf := range phiLeaves(strip(v)) {
				cl, ok := strip(lf).(*ssa.Call)
				if !ok {
					continue
				}
				if h := helperCallee(cl); h != nil && d < 4 && h.Signature.Results().Len() == 1 {
					inner := 0
					for _, rv := range returnedValues(h, 0) {
						inner += expand(rv, d+1)
					}
					if inner == 0 {
						r.armCalls[cl] = true // the helper builds the timer itself
					}
					n++
					continue
				}
				r.armCalls[cl] = true
				n++
			}
			return n
		}
		instrsOfU(r.Set, func(x ssa.Instruction) {
			if st, ok := x.(*ssa.Store); ok && isFieldStore(st, r.T, r.timer) {
				expand(st.Val, 0)
			}
		})
	}
	return r.armCalls[c]
}

func (r *dlRoles) isStop(in ssa.Instruction) bool {
	c, ok := in.(*ssa.Call)
	return ok && c.Call.IsInvoke() && c.Call.Method.Name() == "Stop" && isFieldLoad(c.Call.Value, r.T, r.timer)
}

func (r *dlRoles) isCloseDone(in ssa.Instruction) bool {
	if !isCall(in, "builtin.close") {
		return false
	}
	a := in.(ssa.CallInstruction).Common().Args[0]
	return len(r.doneLoads(a)) > 0
}

// isCloseDoneOnPath: close(v) where v, on this path, is the value loaded from the done field (kept in a local that
// is nil on the paths that do not signal).
func (r *dlRoles) isCloseDoneOnPath(in ssa.Instruction, pt *upath, idx int) bool {
	if !isCall(in, "builtin.close") {
		return false
	}
	a := in.(ssa.CallInstruction).Common().Args[0]
	return isFieldLoad(pt.valueAt(a, idx), r.T, r.done)
}

// doneLoads: the loads of the done field a value stands for: the load itself, or what a private helper hands
// back (the channel read under the lock, or nil when there is nothing to close).
func (r *dlRoles) doneLoads(a ssa.Value) []ssa.Value {
	if isFieldLoad(a, r.T, r.done) {
		return []ssa.Value{origin(a)}
	}
	o := origin(a)
	var call *ssa.Call
	idx := 0
	switch x := o.(type) {
	case *ssa.Call:
		call = x
	case *ssa.Extract:
		call, _ = x.Tuple.(*ssa.Call)
		idx = x.Index
	}
	if call == nil || helperCallee(call) == nil {
		return nil
	}
	var out []ssa.Value
	for _, rv := range returnedValues(helperCallee(call), idx) {
		if isNilConst(rv) {
			continue
		}
		if !isFieldLoad(rv, r.T, r.done) {
			return nil
		}
		out = append(out, origin(rv))
	}
	return out
}

func (r *dlRoles) stName(k int64) string {
	switch k {
	case r.stStopped:
		return "stopped"
	case r.stStarted:
		return "started"
	case r.stExceeded:
		return "exceeded"
	}
	return fmt.Sprintf("state(%d)", k)
}

// dlPath is the abstract summary of one path.
type dlPath struct {
	entry             map[int64]bool // possible entry states
	stopCalled        bool
	stopTrue          bool
	stopKnown         bool
	arg               string // zero | future | past | ?
	dPending          int64
	arms              int
	closes            int
	newDone           int
	newDoneFirst      bool // NEWDONE precedes every CLOSE/ARM
	finalState        int64
	stateSet          bool
	deadlineSet       bool
	feasible          bool
	firstEffect       string
	closeGuardOK      bool
	desc              []string
	lastPos           token.Pos
	stopBeforeEffects bool
	closedVal         ssa.Value
	unlockBeforeClose bool
	stopEntry         map[int64]bool // entry states under which Stop may be invoked
	pendingAtClose    string
}

func (r *dlRoles) walk(f *ssa.Function, path upath) dlPath {
	s := dlPath{entry: map[int64]bool{r.stStopped: true, r.stStarted: true, r.stExceeded: true}, arg: "?", feasible: true, newDoneFirst: true, finalState: -1}
	curState := int64(-1)            // -1: still the entry state
	loadVal := map[ssa.Value]int64{} // state loads -> abstract value at load time (-1 entry)
	pendLoadEpoch := map[ssa.Value]int{}
	pendEpoch := 0
	timerWritten := false
	var stopVal ssa.Value
	effects := 0
	var pendZeroAfterDec *bool
	ci := 0
	res := func(v ssa.Value) ssa.Value { return path.resolve(v) }
	for pidx, in := range path.Instrs {
		switch x := in.(type) {
		case *ssa.UnOp:
			if x.Op == token.MUL && isFieldLoad(x, r.T, r.state) {
				loadVal[x] = curState
			}
			if x.Op == token.MUL && isFieldLoad(x, r.T, r.pending) {
				pendLoadEpoch[x] = pendEpoch
			}
		case *ssa.Store:
			switch {
			case isFieldStore(x, r.T, r.state):
				if k, ok := constInt(res(x.Val)); ok {
					curState = k
					s.finalState = k
					s.stateSet = true
				} else {
					s.desc = append(s.desc, "non-constant store to state")
					curState = -2
				}
				effects++
			case isFieldStore(x, r.T, r.pending):
				if bo, ok := origin(x.Val).(*ssa.BinOp); ok {
					if k, ok2 := constInt(bo.Y); ok2 && isFieldLoad(bo.X, r.T, r.pending) {
						if bo.Op == token.ADD {
							s.dPending += k
						} else if bo.Op == token.SUB {
							s.dPending -= k
						}
					} else {
						s.desc = append(s.desc, "unrecognised update of pending")
						s.dPending += 1000
					}
				} else {
					s.desc = append(s.desc, "unrecognised store to pending")
					s.dPending += 1000
				}
				pendEpoch++
				if effects == 0 {
					s.firstEffect = "pending"
				}
				effects++
			case isFieldStore(x, r.T, r.done):
				if _, ok := res(x.Val).(*ssa.MakeChan); ok {
					s.newDone++
					if s.closes > 0 || s.arms > 0 {
						s.newDoneFirst = false
					}
				} else {
					s.desc = append(s.desc, "done replaced by something that is not a fresh channel")
					s.newDone += 100
				}
				effects++
			case isFieldStore(x, r.T, r.deadline):
				if _, ok := res(x.Val).(*ssa.Parameter); ok {
					s.deadlineSet = true
				}
			case isFieldStore(x, r.T, r.timer):
				timerWritten = true
			}
		case *ssa.Call:
			switch {
			case r.isStop(x):
				s.stopCalled = true
				stopVal = x
				s.stopEntry = map[int64]bool{}
				for k, v := range s.entry {
					if v {
						s.stopEntry[k] = true
					}
				}
				if effects == 0 {
					s.stopBeforeEffects = true
				}
			case r.isArm(x):
				s.arms++
				effects++
			case r.isCloseDone(x) || r.isCloseDoneOnPath(x, &path, pidx):
				s.closes++
				s.lastPos = x.Pos()
				effects++
			}
			if lo, _ := lockOp(x); lo == "unlock" && s.closes == 0 {
				s.unlockBeforeClose = true
			}
		}
		iff, isIf := in.(*ssa.If)
		if !isIf || ci >= len(path.Conds) {
			continue
		}
		_ = iff
		ft := path.Conds[ci]
		ci++
		cond, val := ft.Cond, ft.Val
		for {
			u, ok := cond.(*ssa.UnOp)
			if ok && u.Op == token.NOT {
				cond, val = u.X, !val
				continue
			}
			break
		}
		cond = res(cond)
		for {
			u, ok := cond.(*ssa.UnOp)
			if ok && u.Op == token.NOT {
				cond, val = u.X, !val
				continue
			}
			break
		}
		if cond == stopVal && stopVal != nil {
			s.stopKnown = true
			s.stopTrue = val
			continue
		}
		if call, ok := cond.(*ssa.Call); ok && callName(call) == "(time.Time).IsZero" {
			if _, isParam := res(call.Call.Args[0]).(*ssa.Parameter); isParam {
				if val {
					s.arg = "zero"
				} else if s.arg == "?" {
					s.arg = "nonzero"
				}
			}
			continue
		}
		if cm, ok := normCmp(cond, val); ok {
			cm.X, cm.Y = res(cm.X), res(cm.Y)
			// "no timer was ever created" excludes the started entry state: the state is set to started only together
			// with arming the timer (rule on the outcome by argument class) and the timer field is never cleared
			// (checked with the timer rules), so started implies a timer
			if cm.Op == token.EQL && !timerWritten && ((isFieldLoad(cm.X, r.T, r.timer) && isNilConst(cm.Y)) || (isFieldLoad(cm.Y, r.T, r.timer) && isNilConst(cm.X))) {
				s.entry[r.stStarted] = false
				continue
			}
			// state comparisons
			var ld ssa.Value
			var k int64
			var isState bool
			if _, ok1 := loadVal[cm.X]; ok1 {
				if c, ok2 := constInt(cm.Y); ok2 {
					ld, k, isState = cm.X, c, true
				}
			} else if _, ok1 := loadVal[cm.Y]; ok1 {
				if c, ok2 := constInt(cm.X); ok2 {
					ld, k, isState = cm.Y, c, true
				}
			}
			if isState && (cm.Op == token.EQL || cm.Op == token.NEQ) {
				at := loadVal[ld]
				wantEq := cm.Op == token.EQL
				if at == -1 {
					for st := range s.entry {
						if (st == k) != wantEq {
							s.entry[st] = false
						}
					}
				} else if at >= 0 {
					if (at == k) != wantEq {
						s.feasible = false
					}
				}
				continue
			}
			isDur := func(v ssa.Value) bool {
				return derivesFrom(v, func(v ssa.Value) bool {
					c, ok := res(v).(*ssa.Call)
					return ok && (callName(c) == "time.Until" || callName(c) == "(time.Time).Sub")
				}, false)
			}
			// 0 < dur
			if isDur(cm.Y) {
				if c, ok := constInt(cm.X); ok && c == 0 && (cm.Op == token.LSS || cm.Op == token.LEQ) {
					s.arg = "future"
				}
				continue
			}
			// dur <= 0
			if isDur(cm.X) {
				if c, ok := constInt(cm.Y); ok && c == 0 && (cm.Op == token.LEQ || cm.Op == token.LSS) {
					s.arg = "past"
				}
				continue
			}
			// pending == 0 / != 0 (after the decrement)
			if ep, ok := pendLoadEpoch[cm.X]; ok {
				if c, ok2 := constInt(cm.Y); ok2 && c == 0 && ep == pendEpoch && pendEpoch > 0 {
					switch cm.Op {
					case token.EQL, token.NEQ:
						z := cm.Op == token.EQL
						pendZeroAfterDec = &z
					case token.LEQ: // pending <= 0 (the counter is unsigned): zero
						if isUnsignedVal(cm.X) {
							z := true
							pendZeroAfterDec = &z
						}
					}
				}
				continue
			}
			if ep, ok := pendLoadEpoch[cm.Y]; ok {
				// 0 < pending (the counter is unsigned): not zero
				if c, ok2 := constInt(cm.X); ok2 && c == 0 && ep == pendEpoch && pendEpoch > 0 && cm.Op == token.LSS && isUnsignedVal(cm.Y) {
					z := false
					pendZeroAfterDec = &z
				}
				continue
			}
		}
	}
	any := false
	for _, v := range s.entry {
		if v {
			any = true
		}
	}
	if !any {
		s.feasible = false
	}
	if pendZeroAfterDec != nil {
		if *pendZeroAfterDec {
			s.pendingAtClose = "zero"
		} else {
			s.pendingAtClose = "nonzero"
		}
	}
	return s
}

func (r *dlRoles) entryStr(s dlPath) string {
	var out []string
	for _, k := range []int64{r.stStopped, r.stStarted, r.stExceeded} {
		if s.entry[k] {
			out = append(out, r.stName(k))
		}
	}
	sort.Strings(out)
	return strings.Join(out, "|")
}

func deadlineRules(c *Ctx, prefix string) {
	p := c.P
	r := resolveDeadline(p)
	if len(r.problems) > 0 {
		o := c.Obl(prefix+"0", r.T, "anchors of deadline.Deadline are resolved", 1)
		for _, pr := range r.problems {
			o.Undecide("%s", pr)
		}
		return
	}
	la := computeLocksets(p)

	// ---- Set ---------------------------------------------------------------------
	paths, ok := enumPathsU(r.Set, 400)
	o1 := c.Obl(prefix+"1", fname(r.Set), "Set: on every feasible path the change of pending equals (#arms) - [Stop() returned true]; Stop() is called (first, and its result used) exactly when the entry state is started", 6)
	o2 := c.Obl(prefix+"2", fname(r.Set), "Set: outcome by argument - zero: state stopped, no arm, no close; future: exactly one arm, state started, no close; past: exactly one close(done), state exceeded, no arm", 6)
	o3 := c.Obl(prefix+"3", fname(r.Set), "Set: a fresh done channel is installed iff the entry state is exceeded, before any close/arm (no double close, waiters never orphaned)", 6)
	o4 := c.Obl(prefix+"4", fname(r.Set), "Set stores its argument as the deadline on every path; Deadline() returns it", 3)
	if !ok {
		o1.Undecide("Set has a loop or more than 400 paths: typestate enumeration not applicable")
		return
	}
	nFeasible := 0
	for _, pt := range paths {
		s := r.walk(r.Set, pt)
		if !s.feasible {
			continue
		}
		nFeasible++
		pos := lastPos(pt, r.Set)
		sum := fmt.Sprintf("entry=%s stop(called=%v,true=%v) arg=%s: dPending=%+d arms=%d closes=%d newDone=%d final=%s", r.entryStr(s), s.stopCalled, s.stopTrue, s.arg, s.dPending, s.arms, s.closes, s.newDone, r.stName(s.finalState))
		o1.Site(pos, "%s", sum)
		o2.Site(pos, "%s", sum)
		o3.Site(pos, "%s", sum)
		for _, d := range s.desc {
			o1.Fail(pos, "path [%s]: %s", sum, d)
		}
		// R1
		want := int64(s.arms)
		if s.stopCalled && s.stopKnown && s.stopTrue {
			want--
		}
		if s.dPending != want {
			o1.Fail(pos, "path [%s]: pending changes by %+d but %d timer(s) armed and Stop()==true is %v: the callback count no longer equals the callbacks that will run (a stale callback signals, or the current one never does)", sum, s.dPending, s.arms, s.stopCalled && s.stopTrue)
		}
		if s.stopCalled && !s.stopKnown {
			o1.Fail(pos, "path [%s]: the result of timer.Stop() is not examined", sum)
		}
		// Stop iff entry started
		if s.entry[r.stStarted] && !s.stopCalled {
			o1.Fail(pos, "path [%s]: entry state may be started but the running timer is not stopped: it stays armed / is silently cancelled by a later Reset", sum)
		}
		if s.stopCalled {
			for k := range s.stopEntry {
				if k != r.stStarted {
					o1.Fail(pos, "path [%s]: timer.Stop() may be invoked when the entry state is %s (timer may be nil or already fired)", sum, r.stName(k))
				}
			}
			if !s.stopBeforeEffects {
				o1.Fail(pos, "path [%s]: Stop() is called after other effects on the bookkeeping", sum)
			}
		}
		// R2
		switch s.arg {
		case "zero":
			if s.arms != 0 || s.closes != 0 || s.finalState != r.stStopped {
				o2.Fail(pos, "path [%s]: Set(zero) must leave state stopped without arming or signalling", sum)
			}
		case "future":
			if s.arms != 1 || s.closes != 0 || s.finalState != r.stStarted {
				o2.Fail(pos, "path [%s]: Set(future) must arm exactly one timer, leave state started and not signal", sum)
			}
		case "past":
			if s.arms != 0 || s.closes != 1 || s.finalState != r.stExceeded {
				o2.Fail(pos, "path [%s]: Set(past) must signal exactly once, leave state exceeded and not arm", sum)
			}
		default:
			o2.Fail(pos, "path [%s]: cannot classify the argument (zero / future / past) on this path", sum)
		}
		// R3
		ent := trueKeys(s.entry)
		if len(ent) == 1 && ent[0] == r.stExceeded {
			if s.newDone != 1 {
				o3.Fail(pos, "path [%s]: entry state exceeded (done already closed) but no fresh channel is installed: close of closed channel / stale signal", sum)
			}
		} else if !s.entry[r.stExceeded] {
			if s.newDone != 0 {
				o3.Fail(pos, "path [%s]: done is replaced although it was not signalled: waiters on the old channel are orphaned", sum)
			}
		} else if s.newDone != 0 || s.closes != 0 {
			o3.Fail(pos, "path [%s]: entry state not distinguished (exceeded vs. not) on a path that touches done", sum)
		}
		if !s.newDoneFirst {
			o3.Fail(pos, "path [%s]: the fresh channel is installed after a close/arm", sum)
		}
		// R4
		if !s.deadlineSet {
			o4.Fail(pos, "path [%s]: the argument is not stored as the deadline", sum)
		}
	}
	if nFeasible < 6 {
		o1.Undecide("only %d feasible paths through Set (floor 6)", nFeasible)
	}
	o4.Site(r.Set.Pos(), "%d feasible paths of Set store the argument", nFeasible)
	for _, v := range returnedValues(r.DeadlineFn, 0) {
		o4.Site(v.Pos(), "Deadline() returns %s", accessPath(v))
		if !isFieldLoad(v, r.T, r.deadline) {
			o4.Fail(v.Pos(), "Deadline() returns something else than the stored deadline")
		}
	}
	for _, v := range returnedValues(r.Done, 0) {
		o4.Site(v.Pos(), "Done() returns %s", accessPath(v))
		if !isFieldLoad(strip(v), r.T, r.done) {
			o4.Fail(v.Pos(), "Done() does not return the current signal channel")
		}
	}

	// ---- timeout -----------------------------------------------------------------
	o5 := c.Obl(prefix+"5", fname(r.Timeout), "timer callback: decrements pending exactly once first; signals only if it is the last outstanding callback (pending==0 after the decrement) and the state is started; then state=exceeded and close of the channel read under the lock; never arms or replaces done", 2)
	tp, ok := enumPathsU(r.Timeout, 100)
	if !ok {
		o5.Undecide("callback has a loop or too many paths")
	} else {
		for _, pt := range tp {
			s := r.walk(r.Timeout, pt)
			if !s.feasible {
				continue
			}
			pos := lastPos(pt, r.Timeout)
			sum := fmt.Sprintf("entry=%s pendingAfterDec=%s: dPending=%+d closes=%d final=%s", r.entryStr(s), s.pendingAtClose, s.dPending, s.closes, r.stName(s.finalState))
			o5.Site(pos, "%s", sum)
			if s.dPending != -1 {
				o5.Fail(pos, "path [%s]: the callback must decrement pending exactly once", sum)
			}
			if s.firstEffect != "pending" {
				o5.Fail(pos, "path [%s]: the decrement of pending is not the first effect", sum)
			}
			if s.arms != 0 || s.newDone != 0 {
				o5.Fail(pos, "path [%s]: the callback arms a timer or replaces done", sum)
			}
			ent := trueKeys(s.entry)
			if s.closes > 0 {
				if s.closes != 1 || s.pendingAtClose != "zero" || len(ent) != 1 || ent[0] != r.stStarted || s.finalState != r.stExceeded {
					o5.Fail(pos, "path [%s]: done is closed although not (pending==0 and state==started), or the state is not set to exceeded: a stale callback signals / double close", sum)
				}
			} else if s.pendingAtClose == "zero" && len(ent) == 1 && ent[0] == r.stStarted {
				o5.Fail(pos, "path [%s]: the last outstanding callback of a started deadline does not signal", sum)
			}
			if s.stateSet && s.closes == 0 {
				o5.Fail(pos, "path [%s]: state changed without signalling", sum)
			}
		}
		// the closed channel is the value read under the lock
		for _, in := range findU(r.Timeout, r.isCloseDone) {
			arg := in.(ssa.CallInstruction).Common().Args[0]
			for _, lv := range r.doneLoads(arg) {
				if ld, ok := lv.(*ssa.UnOp); ok {
					if !la.holdsOwner(ld, r.T, false) {
						o5.Fail(in.Pos(), "the channel to close is read outside the lock: a concurrent Set may have replaced it (wrong channel closed)")
					}
				}
			}
		}
	}

	// ---- R8: how and when the runtime timer is driven --------------------------------
	o8 := c.Obl(prefix+"8", r.T+".timer", "the runtime timer is stopped, re-armed and created only while the Deadline's mutex is held exclusively (two Sets cannot reach it in the opposite order of their state updates), and it is armed with exactly time.Until(t) of Set's argument: every helper on the way hands the duration on unchanged", 3)
	for _, in := range findU(r.Set, func(in ssa.Instruction) bool { return r.isArm(in) || r.isStop(in) }) {
		o8.Site(in.Pos(), "%s held=%s", callName(in.(ssa.CallInstruction)), la.heldAt(in))
		if !la.holdsOwner(in, r.T, true) {
			o8.Fail(in.Pos(), "the timer is driven outside the Deadline's mutex: a concurrent Set can re-arm it in the other order than the state was updated (the timer then runs for a superseded deadline)")
		}
	}
	isDur := func(t types.Type) bool { return t.String() == "time.Duration" }
	for _, f := range p.Funcs {
		if pkgOf(f) != "deadline" {
			continue
		}
		instrsOf(f, func(in ssa.Instruction) {
			if st, ok := in.(*ssa.Store); ok && isFieldStore(st, r.T, r.timer) && isNilConst(st.Val) {
				o8.Fail(in.Pos(), "the timer field is cleared in %s: 'started implies a timer exists' no longer holds (Set would skip Stop for a running timer)", fname(f))
			}
		})
		instrsOf(f, func(in ssa.Instruction) {
			cl, ok := in.(*ssa.Call)
			if !ok {
				return
			}
			var dur ssa.Value
			switch {
			case callName(cl) == "time.AfterFunc" || callName(cl) == "time.NewTimer" || callName(cl) == "time.After":
				dur = cl.Call.Args[0]
			case callName(cl) == "(*time.Timer).Reset":
				dur = cl.Call.Args[1]
			case cl.Call.IsInvoke() && cl.Call.Method.Name() == "Reset" && len(cl.Call.Args) == 1 && isDur(cl.Call.Args[0].Type()):
				dur = cl.Call.Args[0]
			default:
				if sc := cl.Call.StaticCallee(); sc != nil && inModule(sc) && pkgOf(sc) == "deadline" {
					// a module function taking a duration (afterFunc, the js timer's Reset)
					for k, prm := range sc.Params {
						if isDur(prm.Type()) && k < len(cl.Call.Args) {
							dur = cl.Call.Args[k]
						}
					}
				}
			}
			if dur == nil {
				return
			}
			o8.Site(in.Pos(), "%s armed with %s in %s", callName(cl), dur.Name(), fname(f))
			dv := origin(dur)
			if prm, isP := dv.(*ssa.Parameter); isP && isDur(prm.Type()) {
				return // handed on unchanged
			}
			if isIn(f, r.Set) || f == r.Set {
				// time.Until(t), possibly computed ahead and joined with the 0 of the "no deadline" case
				okAll, nUntil := true, 0
				var leaves []ssa.Value
				var expand func(v ssa.Value, d int)
				expand = func(v ssa.Value, d int) {
					for _, lf := range phiLeaves(origin(v)) {
						lf = origin(lf)
						var hc *ssa.Call
						hidx := 0
						switch x := lf.(type) {
						case *ssa.Call:
							hc = x
						case *ssa.Extract:
							hc, _ = x.Tuple.(*ssa.Call)
							hidx = x.Index
						}
						if hc != nil && helperCallee(hc) != nil && d < 3 {
							// a pure helper that computes (state, remaining time): what it can return
							withSite(hc, func() {
								for _, rv := range returnedValues(helperCallee(hc), hidx) {
									expand(rv, d+1)
								}
							})
							continue
						}
						leaves = append(leaves, lf)
					}
				}
				expand(dv, 0)
				for _, lf := range leaves {
					if u, ok := lf.(*ssa.Call); ok && callName(u) == "time.Until" && len(r.Set.Params) > 1 && sameOrigin(u.Call.Args[0], ssa.Value(r.Set.Params[1])) {
						nUntil++
						continue
					}
					if u, ok := lf.(*ssa.Call); ok && callName(u) == "(time.Time).Sub" && len(r.Set.Params) > 1 && sameOrigin(u.Call.Args[0], ssa.Value(r.Set.Params[1])) {
						if nw, ok := origin(u.Call.Args[1]).(*ssa.Call); ok && callName(nw) == "time.Now" {
							nUntil++ // t.Sub(time.Now()) is time.Until(t)
							continue
						}
					}
					if k, isC := constInt(lf); isC && k == 0 {
						continue
					}
					okAll = false
				}
				if okAll && nUntil > 0 {
					return
				}
			}
			o8.Fail(in.Pos(), "the timer is armed with %s, which is not the time remaining until the deadline handed to Set (rounded, shifted or taken from something else): the deadline fires early or late", dv.String())
		})
	}

	// ---- R6: lock balance ----------------------------------------------------------
	for _, f := range []*ssa.Function{r.Set, r.Timeout, r.Done, r.Err, r.DeadlineFn} {
		ob := c.Obl(prefix+"6", fname(f), "lock balance on every path", 1)
		la.lockBalance(ob, f)
	}
	// Err reports exceeded iff state == exceeded
	o7 := c.Obl(prefix+"7", fname(r.Err), "Err returns DeadlineExceeded exactly on the state==exceeded edge", 1)
	errPaths, okEP := enumPathsU(r.Err, 200)
	if !okEP {
		o7.Undecide("the paths of Err could not be enumerated")
	}
	tableDone := false
	for _, ret := range findInstrs(r.Err, isReturn) {
		if r.Err.Recover != nil && ret.Block() == r.Err.Recover {
			continue
		}
		var vals []ssa.Value
		for _, in := range ret.Block().Instrs {
			if st, ok := in.(*ssa.Store); ok {
				if _, isAlloc := st.Addr.(*ssa.Alloc); isAlloc {
					vals = append(vals, st.Val)
				}
			}
		}
		if len(vals) == 0 {
			vals = append(vals, ret.(*ssa.Return).Results...)
		}
		// a table indexed by the state: every state's entry is checked against the rule
		if len(vals) == 1 {
			if ld, ok := origin(vals[0]).(*ssa.UnOp); ok && ld.Op == token.MUL {
				if ia, ok := ld.X.(*ssa.IndexAddr); ok {
					if g, ok := ia.X.(*ssa.Global); ok && isFieldLoad(strip(ia.Index), r.T, r.state) {
						tableDone = true
						tbl, size, okT := globalTable(p, g)
						if !okT {
							o7.Undecide("Err reads %s[state], which is not a table filled once by the package initialiser", g.Name())
							continue
						}
						o7.Site(ret.Pos(), "returns %s[state] (%d entries)", g.Name(), size)
						for _, st := range []int64{r.stStopped, r.stStarted, r.stExceeded} {
							if st >= size {
								o7.Fail(ret.Pos(), "state %s is outside the table %s: Err would panic", r.stName(st), g.Name())
								continue
							}
							e := tbl[st]
							isNil := e == nil || isNilConst(e)
							if st == r.stExceeded && (isNil || !isGlobalErrValue(e, "context", "DeadlineExceeded")) {
								o7.Fail(ret.Pos(), "the table entry of the exceeded state is not context.DeadlineExceeded")
							}
							if st != r.stExceeded && !isNil {
								o7.Fail(ret.Pos(), "the table reports an error in state %s", r.stName(st))
							}
						}
					}
				}
			}
		}
	}
	if !tableDone {
		// path by path (helpers such as state.err() / state.exceeded() inlined): the value returned against what the
		// path has established about the state
		seen7 := map[string]bool{}
		for pi := range errPaths {
			pt := &errPaths[pi]
			ret, isRet := pt.last().(*ssa.Return)
			if !isRet || ret.Parent() != r.Err {
				continue
			}
			e := errorOperand(ret)
			if e == nil {
				continue
			}
			rv := pt.value(e)
			// a named result left to a bare return: what this path assigned last (or the zero value)
			if raw := ret.Results[len(ret.Results)-1]; raw != nil {
				if u, isU := raw.(*ssa.UnOp); isU && u.Op == token.MUL {
					if pv := pt.valueAt(raw, len(pt.Instrs)-1); pv != raw {
						rv = pv
					}
				}
			}
			isNil := isNilConst(rv)
			exceeded, notExc := false, false
			for _, ft := range pt.Conds {
				at := len(pt.Instrs) - 1
				if ft.If != nil {
					if k := pt.indexOf(ft.If); k >= 0 {
						at = k
					}
				}
				cm, ok := normCmp(ft.Cond, ft.Val)
				if !ok {
					continue
				}
				x, y := pt.valueAt(cm.X, at), pt.valueAt(cm.Y, at)
				var cst int64
				var okc bool
				if isFieldLoad(x, r.T, r.state) {
					cst, okc = constInt(y)
				} else if isFieldLoad(y, r.T, r.state) {
					cst, okc = constInt(x)
				}
				if !okc || cst != r.stExceeded {
					continue
				}
				if cm.Op == token.EQL {
					exceeded = true
				}
				if cm.Op == token.NEQ {
					notExc = true
				}
			}
			key := fmt.Sprintf("%v %v %v", isNil, exceeded, notExc)
			if !seen7[key] {
				seen7[key] = true
				o7.Site(ret.Pos(), "returns nil=%v exceededEdge=%v", isNil, exceeded)
			}
			if isNil && !notExc && !seen7["f1"] {
				seen7["f1"] = true
				o7.Fail(ret.Pos(), "Err returns nil on a path where state may be exceeded")
			}
			if !isNil && !exceeded && !seen7["f2"] {
				seen7["f2"] = true
				o7.Fail(ret.Pos(), "Err returns an error on a path where state is not known to be exceeded")
			}
			if !isNil && exceeded && !isGlobalErrValue(rv, "context", "DeadlineExceeded") {
				// a package variable aliasing the sentinel
				okAlias := false
				if ld, ok := rv.(*ssa.UnOp); ok && ld.Op == token.MUL {
					if g, ok := ld.X.(*ssa.Global); ok && g.Pkg != nil {
						if ini := g.Pkg.Func("init"); ini != nil {
							instrsOf(ini, func(in ssa.Instruction) {
								if st, ok := in.(*ssa.Store); ok && st.Addr == ssa.Value(g) && isGlobalErrValue(st.Val, "context", "DeadlineExceeded") {
									okAlias = true
								}
							})
						}
					}
				}
				if !okAlias && !seen7["f3"] {
					seen7["f3"] = true
					o7.Fail(ret.Pos(), "Err reports something else than context.DeadlineExceeded in the exceeded state")
				}
			}
		}
	}
}

func (r *dlRoles) stateFact(f fact, k int64, eq bool) bool {
	cm, ok := normCmp(f.Cond, f.Val)
	if !ok {
		return false
	}
	var c int64
	var okc bool
	if isFieldLoad(cm.X, r.T, r.state) {
		c, okc = constInt(cm.Y)
	} else if isFieldLoad(cm.Y, r.T, r.state) {
		c, okc = constInt(cm.X)
	}
	if !okc || c != k {
		return false
	}
	if eq {
		return cm.Op == token.EQL
	}
	return cm.Op == token.NEQ
}

func trueKeys(m map[int64]bool) []int64 {
	var out []int64
	for k, v := range m {
		if v {
			out = append(out, k)
		}
	}
	sort.Slice(out, func(i, j int) bool { return out[i] < out[j] })
	return out
}

func runC09(c *Ctx) { deadlineRules(c, "R") }

// lastPos: a valid source position near the end of the path.
func lastPos(pt upath, f *ssa.Function) token.Pos {
	for i := len(pt.Instrs) - 1; i >= 0; i-- {
		if p := pt.Instrs[i].Pos(); p.IsValid() && pt.Instrs[i].Parent() == f {
			return p
		}
	}
	return f.Pos()
}

func isUnsignedVal(v ssa.Value) bool {
	b, ok := v.Type().Underlying().(*types.Basic)
	return ok && b.Info()&types.IsUnsigned != 0
}
