package main

// C10 — read deadlines of every connection type of the module: sibling rule over all
// owners of SetReadDeadline (level-triggered deadline.Deadline, never a one-shot timer
// channel), pre-check and blocking case on Done(), timeout-class errors only after Done().

import (
	"fmt"
	"go/token"
	"go/types"
	"sort"
	"strings"

	"golang.org/x/tools/go/ssa"
)

type dlOwner struct {
	T        string
	Named    *types.Named
	Set      *ssa.Function // SetReadDeadline
	SetAll   *ssa.Function // SetDeadline (may be nil)
	Field    string        // deadline field (direct owners)
	Delegate string        // field holding another owner (delegating owners)
	DelegT   string
	Reads    []*ssa.Function
}

func findDeadlineOwners(p *Prog) []*dlOwner {
	var out []*dlOwner
	var pks []string
	for pk := range p.SPkgs {
		pks = append(pks, pk)
	}
	sort.Strings(pks)
	for _, pk := range pks {
		sp := p.SPkgs[pk]
		var names []string
		for n := range sp.Members {
			names = append(names, n)
		}
		sort.Strings(names)
		for _, n := range names {
			t, ok := sp.Members[n].(*ssa.Type)
			if !ok {
				continue
			}
			named, ok := t.Type().(*types.Named)
			if !ok {
				continue
			}
			if _, isStruct := named.Underlying().(*types.Struct); !isStruct {
				continue
			}
			set := p.Func(pk, n, "SetReadDeadline")
			if set == nil || len(set.Blocks) == 0 {
				continue
			}
			o := &dlOwner{T: pk + "." + n, Named: named, Set: set, SetAll: p.Func(pk, n, "SetDeadline")}
			for i := 0; i < named.NumMethods(); i++ {
				m := named.Method(i)
				if !strings.HasPrefix(m.Name(), "Read") {
					continue
				}
				f := p.SSA.FuncValue(m)
				if f == nil || len(f.Blocks) == 0 {
					continue
				}
				hasBuf := false
				for _, prm := range f.Params[1:] {
					if isByteSlice(prm.Type()) {
						hasBuf = true
					}
				}
				if hasBuf {
					o.Reads = append(o.Reads, f)
				}
			}
			out = append(out, o)
		}
	}
	return out
}

// isTimeoutValue: v is an error value whose Timeout() is true.
func isTimeoutValue(p *Prog, v ssa.Value, depth int) bool { return isTimeoutValueR(p, v, depth, nil) }

// isTimeoutValueR: res resolves helper parameters along the path being examined (nil: every call site must agree).
func isTimeoutValueR(p *Prog, v ssa.Value, depth int, res func(ssa.Value) ssa.Value) bool {
	if depth > 8 || v == nil {
		return false
	}
	if res != nil {
		if r := res(v); r != v {
			return isTimeoutValueR(p, r, depth+1, res)
		}
	}
	switch x := v.(type) {
	case *ssa.Parameter:
		all := originsAll(x)
		if len(all) == 0 {
			return false
		}
		for _, o := range all {
			if o == ssa.Value(x) || !isTimeoutValueR(p, o, depth+1, res) {
				return false
			}
		}
		return true
	case *ssa.UnOp:
		if x.Op == token.MUL {
			if g, ok := x.X.(*ssa.Global); ok {
				n := g.Pkg.Pkg.Path() + "." + g.Name()
				return n == "context.DeadlineExceeded" || n == "os.ErrDeadlineExceeded"
			}
		}
	case *ssa.MakeInterface:
		return isTimeoutValueR(p, x.X, depth+1, res)
	case *ssa.ChangeInterface:
		return isTimeoutValueR(p, x.X, depth+1, res)
	case *ssa.Phi:
		for _, e := range x.Edges {
			if !isTimeoutValueR(p, e, depth+1, res) {
				return false
			}
		}
		return len(x.Edges) > 0
	case *ssa.Alloc:
		et := x.Type().(*types.Pointer).Elem()
		tn := typeName(et)
		stored := func(field string) ssa.Value {
			var val ssa.Value
			for _, r := range *x.Referrers() {
				if fa, ok := r.(*ssa.FieldAddr); ok {
					if fr, _ := asFieldAddr(fa); fr.Field == field {
						for _, rr := range *fa.Referrers() {
							if st, ok := rr.(*ssa.Store); ok && sameOrigin(st.Addr, ssa.Value(fa)) {
								val = st.Val
							}
						}
					}
				}
			}
			return val
		}
		if tn == "net.OpError" {
			return isTimeoutValueR(p, stored("Err"), depth+1, res)
		}
		named := namedOf(et)
		if named == nil || named.Obj().Pkg() == nil || !strings.HasPrefix(named.Obj().Pkg().Path(), modPath) {
			return false
		}
		for i := 0; i < named.NumMethods(); i++ {
			if named.Method(i).Name() != "Timeout" {
				continue
			}
			mf := p.SSA.FuncValue(named.Method(i))
			if mf == nil {
				return false
			}
			for _, rv := range returnedValues(mf, 0) {
				if isConstBool(rv, true) {
					return true
				}
				if fr, ok := asFieldLoad(rv); ok {
					return isConstBool(stored(fr.Field), true)
				}
			}
		}
	case *ssa.Call:
		if sc := x.Call.StaticCallee(); sc != nil && inModule(sc) && len(sc.Blocks) > 0 {
			vals := returnedValues(sc, sc.Signature.Results().Len()-1)
			if len(vals) == 0 {
				return false
			}
			for _, rv := range vals {
				if !isTimeoutValueR(p, rv, depth+1, res) {
					return false
				}
			}
			return true
		}
	}
	return false
}

func runC10(c *Ctx) {
	p := c.P
	setUnitExclude()
	owners := findDeadlineOwners(p)
	{
		var ex []*ssa.Function
		for _, ow := range owners {
			ex = append(ex, ow.Set, ow.SetAll)
			ex = append(ex, ow.Reads...)
		}
		setUnitExclude(ex...)
	}
	deadlineSettersRule(c, "Rw", "")
	fl := c.Obl("R0", "read-deadline-owners", "every module type with SetReadDeadline(time.Time) error is found (packetio.Buffer, dpipe.conn, udp.Conn, vnet.UDPConn, test.bridgeConn)", 5)
	byT := map[string]*dlOwner{}
	for _, o := range owners {
		fl.Sites = append(fl.Sites, fmt.Sprintf("%s (%d read methods)", o.T, len(o.Reads)))
		byT[o.T] = o
	}
	// classify: direct (argument passed to Deadline.Set of a field) or delegating
	for _, ow := range owners {
		o := c.Obl("R1", ow.T, "SetReadDeadline hands its argument to a level-triggered deadline.Deadline held in a field (or to another owner it also reads from) on every path; SetDeadline reaches it with the same argument; nothing reachable from the type's Read methods waits on a one-shot timer channel", 1)
		arg := ow.Set.Params[1]
		setCall := func(in ssa.Instruction) bool {
			call, ok := in.(*ssa.Call)
			if !ok {
				return false
			}
			n := callName(call)
			if n == "(*deadline.Deadline).Set" && sameOrigin(call.Call.Args[1], ssa.Value(arg)) {
				if fr, ok := asFieldLoad(call.Call.Args[0]); ok && fr.SName == ow.T {
					ow.Field = fr.Field
					return true
				}
			}
			if sc := call.Call.StaticCallee(); sc != nil && sc.Name() == "SetReadDeadline" && len(call.Call.Args) == 2 && sameOrigin(call.Call.Args[1], ssa.Value(arg)) {
				if fr, ok := asFieldLoad(call.Call.Args[0]); ok && fr.SName == ow.T {
					if d := byT[typeName(call.Call.Args[0].Type())]; d != nil {
						ow.Delegate, ow.DelegT = fr.Field, d.T
						return true
					}
				}
			}
			return false
		}
		for _, in := range findU(ow.Set, setCall) {
			o.Site(in.Pos(), "%s", in.String())
		}
		if ok, bad := mustPassU(entryPos(ow.Set), isReturn, setCall); !ok {
			o.Fail(bad.Pos(), "%s.SetReadDeadline can return without arming a deadline.Deadline with its argument (one-shot timers lose the expiry after one read and fire stale ticks after an extension)", ow.T)
			continue
		}
		// SetDeadline
		if ow.SetAll != nil && len(ow.SetAll.Blocks) > 0 {
			a2 := ow.SetAll.Params[1]
			ok, bad := mustPassU(entryPos(ow.SetAll), isReturn, func(in ssa.Instruction) bool {
				call, ok := in.(*ssa.Call)
				if !ok {
					return false
				}
				if sc := call.Call.StaticCallee(); sc == ow.Set && sameOrigin(call.Call.Args[1], ssa.Value(a2)) && sameOrigin(call.Call.Args[0], ssa.Value(ow.SetAll.Params[0])) {
					return true
				}
				if callName(call) == "(*deadline.Deadline).Set" && sameOrigin(call.Call.Args[1], ssa.Value(a2)) {
					if fr, ok := asFieldLoad(call.Call.Args[0]); ok && fr.SName == ow.T && fr.Field == ow.Field && ow.Field != "" {
						return true
					}
				}
				return false
			})
			o.Site(ow.SetAll.Pos(), "SetDeadline")
			if !ok {
				o.Fail(bad.Pos(), "%s.SetDeadline does not set the read deadline with its argument on every path", ow.T)
			}
		}
		// no timer channels on read paths
		cg := p.CG()
		reach := cg.reachableFrom(ow.Reads, func(e cgEdge) bool {
			// stay inside the owner's package (delegation to other owners is checked there)
			return pkgOf(e.To) == pkgOf(ow.Set) && e.Kind != "ref"
		})
		for f := range reach {
			for _, cm := range commsOfU(f) {
				if cm.Dir != types.RecvOnly {
					continue
				}
				role := chanRole(cm.Chan)
				if strings.HasPrefix(role, "timer.C") || role == "time.After" || role == "ticker.C" {
					o.Fail(cm.Instr.Pos(), "%s (reachable from %s's Read methods) waits on a one-shot timer channel (%s): the tick is consumed by one read and a stale tick survives an extension", fname(f), ow.T, role)
				}
			}
		}
		// the deadline field is never a *time.Timer
		if st, ok := ow.Named.Underlying().(*types.Struct); ok {
			for i := 0; i < st.NumFields(); i++ {
				if ts := st.Field(i).Type().String(); ts == "*time.Timer" && strings.Contains(strings.ToLower(st.Field(i).Name()), "read") {
					o.Fail(ow.Set.Pos(), "%s keeps a *time.Timer (%s) for its read deadline", ow.T, st.Field(i).Name())
				}
			}
		}
	}

	// R2/R3 per read method
	for _, ow := range owners {
		for _, rf := range ow.Reads {
			o := c.Obl("R2", fname(rf), "the read tests the deadline without blocking before waiting, every blocking wait for data also waits on Done(), the Done() branches return a timeout-class error, and timeout-class errors are returned nowhere else", 1)
			// delegation inside the same type (Read -> ReadFrom) or to the delegate owner
			if del := readDelegation(rf, ow, byT); del != "" {
				o.Site(rf.Pos(), "delegates to %s", del)
				delegationPassesError(o, rf)
				continue
			}
			if len(commsOfU(rf)) == 0 && len(rf.Blocks) == 1 && len(findInstrs(rf, isErrorReturn)) == 1 {
				o.Site(rf.Pos(), "not implemented: returns a constant error without reading")
				continue
			}
			if ow.Field == "" {
				o.Fail(rf.Pos(), "%s does not delegate and its type has no deadline field", fname(rf))
				continue
			}
			doneRole := "done " + ow.T + "." + ow.Field
			var pre *ssa.Select
			var waits []selCase
			for _, cm := range commsOfU(rf) {
				if cm.Dir != types.RecvOnly {
					continue
				}
				role := chanRoleIn(rf, cm.Instr, cm.Chan)
				if role == doneRole && cm.Sel != nil && !cm.Sel.Blocking {
					if pre == nil || domU(cm.Sel, pre) {
						pre = cm.Sel
					}
				}
				if role != doneRole && strings.HasPrefix(role, "field "+ow.T+".") {
					blocking := cm.Sel == nil || cm.Sel.Blocking
					if blocking {
						waits = append(waits, cm)
					}
				}
			}
			if pre == nil {
				o.Fail(rf.Pos(), "%s has no non-blocking test of %s.Done() (an already expired deadline would not fail the read when data is queued)", fname(rf), ow.Field)
			} else {
				o.Site(pre.Pos(), "non-blocking test of Done()")
			}
			nData := 0
			for _, w := range waits {
				// data waits: blocking receive on a field channel of the owner
				if w.Sel == nil {
					nData++
					o.Fail(w.Instr.Pos(), "%s blocks on %s without a Done() alternative: its deadline never releases it", fname(rf), chanRole(w.Chan))
					continue
				}
				has := false
				for _, st := range w.Sel.States {
					if st.Dir == types.RecvOnly && chanRoleIn(rf, w.Sel, st.Chan) == doneRole {
						has = true
					}
				}
				nData++
				o.Site(w.Sel.Pos(), "blocking wait on %s (with Done case: %v)", chanRole(w.Chan), has)
				if !has {
					o.Fail(w.Sel.Pos(), "%s blocks on %s without a Done() case: its deadline never releases it", fname(rf), chanRole(w.Chan))
				}
				if pre != nil && !domU(pre, w.Sel) {
					o.Fail(w.Sel.Pos(), "the blocking wait is reachable without passing the non-blocking deadline test")
				}
			}
			if nData == 0 && ow.T != "packetio.Buffer" {
				o.Fail(rf.Pos(), "no blocking wait for data found in %s", fname(rf))
			}
			// Done() branches and timeout-class errors, path by path (private helpers inlined, one loop iteration):
			// a path on which a Done() case fired ends in a return of a timeout-class error; no other path does
			paths, okP := enumIterPathsU(rf, 20000)
			if !okP {
				o.Undecide("the paths of %s could not be enumerated", fname(rf))
				continue
			}
			reported, sited := map[ssa.Instruction]bool{}, map[ssa.Instruction]bool{}
			failOnce := func(in ssa.Instruction, f string, a ...interface{}) {
				if !reported[in] {
					reported[in] = true
					o.Fail(in.Pos(), f, a...)
				}
			}
			nDoneRet := 0
			for pi := range paths {
				pth := &paths[pi]
				var doneAt ssa.Instruction
				for idx, in := range pth.Instrs {
					// an operand inside a shared helper is resolved through the call this path made
					roleOf := func(v ssa.Value) string {
						role := chanRole(pth.resolve(v))
						if site := pth.siteAt(idx); site != nil {
							withSite(site, func() { role = chanRole(pth.resolve(v)) })
						}
						return role
					}
					switch x := in.(type) {
					case *ssa.Select:
						if k := selCaseOnPath(pth, x); k >= 0 && k < len(x.States) && x.States[k].Dir == types.RecvOnly && roleOf(x.States[k].Chan) == doneRole {
							doneAt = in
						}
					case *ssa.UnOp:
						if x.Op == token.ARROW && roleOf(x.X) == doneRole {
							doneAt = in
						}
					}
				}
				ret, isRet := pth.last().(*ssa.Return)
				if !isRet {
					if doneAt != nil && pth.Loop {
						failOnce(doneAt, "after the deadline fired %s goes on waiting instead of returning a timeout-class error", fname(rf))
					}
					continue
				}
				if rf.Recover != nil && ret.Block() == rf.Recover {
					continue
				}
				e := errorOperand(ret)
				isT := false
				if e != nil {
					for _, v := range unspill(e) {
						if isTimeoutValueR(p, pth.value(v), 0, pth.value) {
							isT = true
						}
					}
				}
				if doneAt != nil {
					nDoneRet++
					if !sited[ret] {
						sited[ret] = true
						o.Site(ret.Pos(), "Done() branch returns timeout-class error: %v", isT)
					}
					if !isT {
						failOnce(ret, "the expired-deadline branch of %s does not return a timeout-class error", fname(rf))
					}
				} else if isT {
					failOnce(ret, "%s returns a timeout-class error on a path that did not receive from Done(): a spurious timeout", fname(rf))
				}
			}
			if nDoneRet == 0 {
				o.Fail(rf.Pos(), "no path of %s returns through a Done() case", fname(rf))
			}
		}
	}
	// Deadline itself
	deadlineRules(c, "D")
}

// readDelegation: the read method only forwards to another read method of the same
// receiver, or to the Read of the delegate owner field.
func readDelegation(rf *ssa.Function, ow *dlOwner, byT map[string]*dlOwner) string {
	var target string
	n := 0
	instrsOf(rf, func(in ssa.Instruction) {
		call, ok := in.(*ssa.Call)
		if !ok {
			return
		}
		sc := call.Call.StaticCallee()
		if sc == nil || !strings.HasPrefix(sc.Name(), "Read") || len(call.Call.Args) == 0 {
			return
		}
		if sameOrigin(call.Call.Args[0], ssa.Value(rf.Params[0])) && sc != rf {
			target = fname(sc)
			n++
			return
		}
		if fr, ok := asFieldLoad(call.Call.Args[0]); ok && fr.SName == ow.T && fr.Field == ow.Delegate && ow.Delegate != "" && rootOf(fr.Base) == ssa.Value(rf.Params[0]) {
			target = fname(sc)
			n++
		}
	})
	if n == 1 && len(commsOfU(rf)) == 0 {
		return target
	}
	return ""
}

// delegationPassesError: a read method that is implemented by another read method returns that method's error
// whenever it is not nil (a timeout of the delegate stays a timeout; it is not replaced by an error of the
// wrapper's own making).
func delegationPassesError(o *Obligation, rf *ssa.Function) {
	var call *ssa.Call
	instrsOf(rf, func(in ssa.Instruction) {
		if cl, ok := in.(*ssa.Call); ok {
			if sc := cl.Call.StaticCallee(); sc != nil && strings.HasPrefix(sc.Name(), "Read") && sc != rf {
				call = cl
			}
		}
	})
	if call == nil {
		return
	}
	res := call.Call.Signature().Results()
	if res.Len() == 0 || res.At(res.Len()-1).Type().String() != "error" {
		return
	}
	var derr ssa.Value = call
	if res.Len() > 1 {
		derr = nil
		if refs := call.Referrers(); refs != nil {
			for _, rfr := range *refs {
				if ex, ok := rfr.(*ssa.Extract); ok && ex.Index == res.Len()-1 {
					derr = ex
				}
			}
		}
	}
	paths, ok := enumPathsU(rf, 500)
	if !ok {
		o.Undecide("the paths of the delegating read %s could not be enumerated", fname(rf))
		return
	}
	for pi := range paths {
		pt := &paths[pi]
		ret, isRet := pt.last().(*ssa.Return)
		if !isRet || ret.Parent() != rf || pt.indexOf(call) < 0 {
			continue
		}
		e := errorOperand(ret)
		if e == nil {
			continue
		}
		rv := pt.value(e)
		if derr != nil && (rv == derr || sameOrigin(rv, derr)) {
			continue
		}
		knownNil := false
		for _, ft := range pt.Conds {
			if derr != nil && nilFact(ft, func(v ssa.Value) bool { return v == derr || sameOrigin(v, derr) }, true) {
				knownNil = true
			}
		}
		if !knownNil {
			o.Fail(ret.Pos(), "%s returns an error of its own making on a path where the error of the read it delegates to was not found nil: a timeout (or EOF) of the underlying read is reported as something else", fname(rf))
			return
		}
	}
}

// chanRoleIn: the role of a channel operand of an instruction that may sit in a helper shared by several callers
// (expired(d *deadline.Deadline) called for the read and for the write deadline): resolved through the call made
// from root's unit.
func chanRoleIn(root *ssa.Function, in ssa.Instruction, v ssa.Value) string {
	role := chanRole(v)
	h := in.Parent()
	if h == root || curSites == nil || !isPrivateHelper(h) || len(curSites.sites[h]) < 2 {
		return role
	}
	for _, s := range curSites.sites[h] {
		if s.Parent() == root || isIn(s.Parent(), root) {
			withSite(s, func() { role = chanRole(v) })
			return role
		}
	}
	return role
}

// deadlineSettersRule: who may move a deadline. A deadline held in a field is set only by the Set*Deadline methods of
// its owner (a Close that clears it, or any other method that re-arms it, changes what a passed deadline means for
// later reads). pkg restricts the rule to the deadlines of one package ("" = all).
func deadlineSettersRule(c *Ctx, id, pkg string) {
	p := c.P
	floor := 5
	if pkg != "" {
		floor = 1
	}
	ow := c.Obl(id, "deadline-setters", "a deadline.Deadline held in a struct field is Set only from a Set…Deadline method of the type that holds it (not from Close, Read or other methods): a passed deadline keeps failing reads until the user changes it", floor)
	for _, f := range p.Funcs {
		if pkgOf(f) == "deadline" || (pkg != "" && pkgOf(f) != pkg) {
			continue
		}
		instrsOf(f, func(in ssa.Instruction) {
			cl, ok := in.(ssa.CallInstruction)
			if !ok {
				return
			}
			sc := cl.Common().StaticCallee()
			if sc == nil || fname(sc) != "(*deadline.Deadline).Set" || len(cl.Common().Args) == 0 {
				return
			}
			fr, okF := asFieldLoad(cl.Common().Args[0])
			if !okF {
				return // a local deadline
			}
			ow.Site(in.Pos(), "%s.%s set in %s", fr.SName, fr.Field, fname(f))
			// the enclosing method (a private helper counts for its callers)
			okCaller := false
			var up func(g *ssa.Function, d int) bool
			up = func(g *ssa.Function, d int) bool {
				root := g
				for root.Parent() != nil {
					root = root.Parent()
				}
				if strings.HasPrefix(root.Name(), "Set") && strings.HasSuffix(root.Name(), "Deadline") && root.Signature.Recv() != nil && typeName(root.Signature.Recv().Type()) == fr.SName {
					return true
				}
				if d > 2 || !isPrivateHelper(root) {
					return false
				}
				ins := p.CG().In[root]
				if len(ins) == 0 {
					return false
				}
				for _, e := range ins {
					if e.Kind == "ref" {
						continue
					}
					if !up(e.From, d+1) {
						return false
					}
				}
				return true
			}
			okCaller = up(f, 0)
			if !okCaller {
				ow.Fail(in.Pos(), "%s sets the deadline %s.%s: only the Set…Deadline methods of %s may move it", fname(f), fr.SName, fr.Field, fr.SName)
			}
		})
	}
}
