package main

// C18 — dpipe and test.Bridge.

import (
	"fmt"
	"go/token"
	"go/types"
	"sort"
	"strings"

	"golang.org/x/tools/go/ssa"
)

// ---- mirror comparison (engine E6) --------------------------------------------------

func swapDir(name string) string {
	switch {
	case strings.Contains(name, "0to1"):
		return strings.Replace(name, "0to1", "1to0", 1)
	case strings.Contains(name, "1to0"):
		return strings.Replace(name, "1to0", "0to1", 1)
	case strings.HasSuffix(name, "0"):
		return name[:len(name)-1] + "1"
	case strings.HasSuffix(name, "1"):
		return name[:len(name)-1] + "0"
	}
	return name
}

// mirrorHelperPairs: per-direction helper pairs met while printing the direction-1 side (direction-0 helper first).
var mirrorHelperPairs = map[[2]*ssa.Function]bool{}

// siblingFunc: the function or method of the same package and receiver named name.
func siblingFunc(f *ssa.Function, name string) *ssa.Function {
	if f.Pkg == nil {
		return nil
	}
	if recv := f.Signature.Recv(); recv != nil {
		return f.Prog.LookupMethod(recv.Type(), f.Pkg.Pkg, name)
	}
	return f.Pkg.Func(name)
}

type exprPrinter struct {
	rename func(string) string
	region map[*ssa.BasicBlock]int
	res    func(ssa.Value) ssa.Value // resolves values along a path (phis by the edge taken, helper parameters)
}

func (ep *exprPrinter) str(v ssa.Value, d int) string {
	if v == nil {
		return "nil"
	}
	if ep.res != nil {
		v = ep.res(v)
	}
	if d > 12 {
		return "..."
	}
	switch x := v.(type) {
	case *ssa.Const:
		if x.Value == nil {
			return "zero"
		}
		return x.Value.String()
	case *ssa.Parameter:
		return "$" + x.Name()
	case *ssa.FreeVar:
		return "$" + x.Name()
	case *ssa.Global:
		return "@" + x.Name()
	case *ssa.FieldAddr:
		st := structOf(x.X.Type())
		return "&" + ep.str(x.X, d+1) + "." + ep.rename(st.Field(x.Field).Name())
	case *ssa.Field:
		st := structOf(x.X.Type())
		return ep.str(x.X, d+1) + "." + ep.rename(st.Field(x.Field).Name())
	case *ssa.UnOp:
		if x.Op == token.MUL {
			if fa, ok := origin(x.X).(*ssa.FieldAddr); ok {
				st := structOf(fa.X.Type())
				return ep.str(fa.X, d+1) + "." + ep.rename(st.Field(fa.Field).Name())
			}
			return "*" + ep.str(x.X, d+1)
		}
		return x.Op.String() + ep.str(x.X, d+1)
	case *ssa.BinOp:
		return "(" + ep.str(x.X, d+1) + x.Op.String() + ep.str(x.Y, d+1) + ")"
	case *ssa.Call:
		var as []string
		for _, a := range callArgs(x) {
			as = append(as, ep.str(a, d+1))
		}
		cn := callName(x)
		// a pair of per-direction helpers of the package (reorder0 / reorder1) is renamed like a pair of fields;
		// that the two are mirror images of each other is checked separately (mirrorHelperPairs)
		if sc := x.Call.StaticCallee(); sc != nil && len(sc.Blocks) > 0 && !token.IsExported(sc.Name()) && ep.rename != nil {
			if rn := ep.rename(sc.Name()); rn != sc.Name() {
				if other := siblingFunc(sc, rn); other != nil {
					cn = strings.TrimSuffix(cn, sc.Name()) + rn
					mirrorHelperPairs[[2]*ssa.Function{other, sc}] = true
				}
			}
		}
		return cn + "(" + strings.Join(as, ",") + ")"
	case *ssa.Slice:
		return ep.str(x.X, d+1) + "[" + ep.str(x.Low, d+1) + ":" + ep.str(x.High, d+1) + "]"
	case *ssa.IndexAddr:
		return "&" + ep.str(x.X, d+1) + "[" + ep.dirIndex(x.X, x.Index, d) + "]"
	case *ssa.Index:
		return ep.str(x.X, d+1) + "[" + ep.dirIndex(x.X, x.Index, d) + "]"
	case *ssa.Extract:
		return fmt.Sprintf("%s#%d", ep.str(x.Tuple, d+1), x.Index)
	case *ssa.Phi:
		var es []string
		for _, e := range x.Edges {
			es = append(es, ep.str(e, d+4))
		}
		sort.Strings(es)
		return "phi{" + strings.Join(es, "|") + "}"
	case *ssa.Alloc:
		return "alloc(" + x.Comment + ")"
	case *ssa.MakeInterface:
		return ep.str(x.X, d+1)
	case *ssa.ChangeType:
		return ep.str(x.X, d+1)
	case *ssa.Convert:
		return "conv(" + ep.str(x.X, d+1) + ")"
	case *ssa.Select:
		var ss []string
		for _, st := range x.States {
			dir := "recv"
			if st.Dir == types.SendOnly {
				dir = "send"
			}
			ss = append(ss, dir+" "+ep.str(st.Chan, d+1)+" "+ep.str(st.Send, d+1))
		}
		return fmt.Sprintf("select(blocking=%v){%s}", x.Blocking, strings.Join(ss, ";"))
	case *ssa.MakeSlice:
		return "make(" + ep.str(x.Len, d+1) + ")"
	case *ssa.TypeAssert:
		return "assert(" + ep.str(x.X, d+1) + ")"
	case *ssa.Lookup:
		return ep.str(x.X, d+1) + "[" + ep.str(x.Index, d+1) + "]"
	}
	return fmt.Sprintf("%T", v)
}

// dirIndex prints an index; the constant index 0 / 1 into a two-element array (state kept per direction in an
// array instead of a pair of fields) is renamed like the digit at the end of a field name.
func (ep *exprPrinter) dirIndex(arr, idx ssa.Value, d int) string {
	t := arr.Type().Underlying()
	if pt, ok := t.(*types.Pointer); ok {
		t = pt.Elem().Underlying()
	}
	iv := idx
	if ep.res != nil {
		iv = ep.res(idx)
	}
	if a, ok := t.(*types.Array); ok && a.Len() == 2 {
		if k, isC := constInt(iv); isC && (k == 0 || k == 1) {
			return strings.TrimPrefix(ep.rename(fmt.Sprintf("i%d", k)), "i")
		}
	}
	return ep.str(idx, d+1)
}

// serializeRegion renders the blocks dominated by entry as a canonical list of effects.
func serializeRegion(entry *ssa.BasicBlock, rename func(string) string) []string {
	ep := &exprPrinter{rename: rename, region: map[*ssa.BasicBlock]int{}}
	var order []*ssa.BasicBlock
	var visit func(b *ssa.BasicBlock)
	visit = func(b *ssa.BasicBlock) {
		if _, ok := ep.region[b]; ok {
			return
		}
		if b != entry && !entry.Dominates(b) {
			return
		}
		ep.region[b] = len(order)
		order = append(order, b)
		for _, s := range b.Succs {
			visit(s)
		}
	}
	visit(entry)
	num := func(b *ssa.BasicBlock) string {
		if n, ok := ep.region[b]; ok {
			return fmt.Sprintf("B%d", n)
		}
		return "exit"
	}
	var out []string
	for _, b := range order {
		out = append(out, num(b)+":")
		for _, in := range b.Instrs {
			switch x := in.(type) {
			case *ssa.Store:
				out = append(out, "  store "+ep.str(x.Addr, 0)+" = "+ep.str(x.Val, 0))
			case *ssa.MapUpdate:
				out = append(out, "  mapupdate "+ep.str(x.Map, 0)+"["+ep.str(x.Key, 0)+"]="+ep.str(x.Value, 0))
			case *ssa.Call:
				if _, isB := x.Call.Value.(*ssa.Builtin); isB && (x.Call.Value.Name() == "len" || x.Call.Value.Name() == "cap") {
					continue
				}
				if refs := x.Referrers(); refs != nil && len(*refs) > 0 && !hasEffect(x) {
					continue // pure call whose value is printed where it is used
				}
				out = append(out, "  call "+ep.str(x, 0))
			case *ssa.Send:
				out = append(out, "  send "+ep.str(x.Chan, 0)+" "+ep.str(x.X, 0))
			case *ssa.Select:
				out = append(out, "  "+ep.str(x, 0))
			case *ssa.Go, *ssa.Defer:
				out = append(out, "  "+in.String())
			case *ssa.If:
				out = append(out, "  if "+ep.str(x.Cond, 0)+" -> "+num(b.Succs[0])+" else "+num(b.Succs[1]))
			case *ssa.Jump:
				out = append(out, "  jump "+num(b.Succs[0]))
			case *ssa.Return:
				var rs []string
				for _, r := range x.Results {
					rs = append(rs, ep.str(r, 0))
				}
				out = append(out, "  return "+strings.Join(rs, ","))
			}
		}
	}
	return out
}

func hasEffect(c *ssa.Call) bool {
	n := callName(c)
	switch {
	case strings.HasPrefix(n, "builtin.append"), strings.HasPrefix(n, "builtin.len"), strings.HasPrefix(n, "builtin.cap"):
		return false
	}
	return true
}

// pathSummaries: the observable behaviour of f per direction, path by path: the conditions tested (other than
// the direction test), stores, effectful calls, sends and the values returned, with values resolved along the path.
func pathSummaries(f *ssa.Function) (dir0, dir1 []string, ok bool) {
	var curPath *upath
	paths, okP := enumIterPathsU(f, 20000)
	if !okP {
		return nil, nil, false
	}
	isDirTest := func(ft fact) (bool, bool) { // (is a direction test, direction is 0)
		cm, ok := normCmp(ft.Cond, ft.Val)
		if !ok || (cm.Op != token.EQL && cm.Op != token.NEQ) {
			return false, false
		}
		prm, isP := origin(cm.X).(*ssa.Parameter)
		if isP && prm.Parent() != f && curPath != nil {
			// the test sits in a helper shared by several callers: the path knows which argument it tests
			prm, isP = curPath.valueAt(cm.X, curPath.indexOf(ft.If)).(*ssa.Parameter)
		}
		k, isC := constInt(cm.Y)
		if !isP || !isC || k != 0 || prm.Parent() != f {
			return false, false
		}
		if b, ok := prm.Type().Underlying().(*types.Basic); !ok || b.Info()&types.IsInteger == 0 {
			return false, false
		}
		return true, cm.Op == token.EQL
	}
	for pi := range paths {
		pt := &paths[pi]
		dir := -1
		curPath = pt
		for _, ft := range pt.Conds {
			if is, zero := isDirTest(ft); is {
				if zero {
					dir = 0
				} else {
					dir = 1
				}
			}
		}
		if dir < 0 {
			continue
		}
		rename := func(s string) string { return s }
		if dir == 1 {
			rename = swapDir
		}
		ep := &exprPrinter{rename: rename, region: map[*ssa.BasicBlock]int{}, res: pt.value}
		var out []string
		ci := 0
		for _, in := range pt.Instrs {
			switch x := in.(type) {
			case *ssa.If:
				var ft fact
				if ci < len(pt.Conds) {
					ft = pt.Conds[ci]
				}
				ci++
				if ft.If != x {
					continue
				}
				if is, _ := isDirTest(ft); is {
					continue
				}
				out = append(out, fmt.Sprintf("cond %s = %v", ep.str(ft.Cond, 0), ft.Val))
			case *ssa.Store:
				if _, isAlloc := x.Addr.(*ssa.Alloc); isAlloc {
					continue // local variable
				}
				out = append(out, "store "+ep.str(x.Addr, 0)+" = "+ep.str(x.Val, 0))
			case *ssa.MapUpdate:
				out = append(out, "mapupdate "+ep.str(x.Map, 0)+"["+ep.str(x.Key, 0)+"]="+ep.str(x.Value, 0))
			case *ssa.Call:
				if helperCallee(x) != nil {
					continue // inlined
				}
				if _, isB := x.Call.Value.(*ssa.Builtin); isB && (x.Call.Value.Name() == "len" || x.Call.Value.Name() == "cap") {
					continue
				}
				if refs := x.Referrers(); refs != nil && len(*refs) > 0 && !hasEffect(x) {
					continue
				}
				out = append(out, "call "+ep.str(x, 0))
			case *ssa.Send:
				out = append(out, "send "+ep.str(x.Chan, 0)+" "+ep.str(x.X, 0))
			case *ssa.Select:
				out = append(out, ep.str(x, 0))
			case *ssa.Go, *ssa.Defer:
				out = append(out, in.String())
			case *ssa.Return:
				if x.Parent() != f {
					continue
				}
				var rs []string
				for k := range x.Results {
					for _, rv := range retValAt(x, k) {
						rs = append(rs, ep.str(rv, 0))
					}
				}
				out = append(out, "return "+strings.Join(rs, ","))
			}
		}
		if pt.Loop {
			out = append(out, "loop")
		}
		sum := strings.Join(out, " ; ")
		if dir == 0 {
			dir0 = append(dir0, sum)
		} else {
			dir1 = append(dir1, sum)
		}
	}
	sort.Strings(dir0)
	sort.Strings(dir1)
	uniq := func(xs []string) []string {
		var o []string
		for i, x := range xs {
			if i == 0 || x != xs[i-1] {
				o = append(o, x)
			}
		}
		return o
	}
	return uniq(dir0), uniq(dir1), true
}

// dirBranches finds, in f, the branch on "fromID == 0" (parameter compared with constant 0).
func dirBranches(f *ssa.Function) (zero, other *ssa.BasicBlock) {
	for _, b := range f.Blocks {
		iff, ok := b.Instrs[len(b.Instrs)-1].(*ssa.If)
		if !ok {
			continue
		}
		cm, ok := normCmp(iff.Cond, true)
		if !ok || (cm.Op != token.EQL && cm.Op != token.NEQ) {
			continue
		}
		_, isP := cm.X.(*ssa.Parameter)
		k, isC := constInt(cm.Y)
		if !isP || !isC || k != 0 {
			continue
		}
		if len(b.Succs[0].Preds) != 1 || len(b.Succs[1].Preds) != 1 {
			continue
		}
		if cm.Op == token.EQL {
			return b.Succs[0], b.Succs[1]
		}
		return b.Succs[1], b.Succs[0]
	}
	return nil, nil
}

var dropChecked = map[*ssa.Function]bool{}

func runC18(c *Ctx) {
	dropChecked = map[*ssa.Function]bool{}
	p := c.P
	setUnitExclude()
	// ---------------- dpipe ----------------
	pipe := p.Func("dpipe", "", "Pipe")
	dw := p.Func("dpipe", "conn", "Write")
	dr := p.Func("dpipe", "conn", "Read")
	dc := p.Func("dpipe", "conn", "Close")
	push := p.Func("test", "Bridge", "Push")
	tick := p.Func("test", "Bridge", "Tick")
	nb := p.Func("test", "", "NewBridge")
	if pipe == nil || dw == nil || dr == nil || dc == nil || push == nil || tick == nil || nb == nil {
		c.Obl("R0", "dpipe/test.Bridge", "anchors are resolved", 1).Undecide("dpipe.Pipe/conn.Read/Write/Close or test.Bridge.Push/Tick/NewBridge not found")
		return
	}
	// channel roles of a pipe end: the message channel Read receives from, the one Write sends to, and the
	// channel whose closing makes Write refuse
	rField, wField, closedField := "", "", ""
	for _, cm := range commsOfU(dr) {
		if cm.Dir == types.RecvOnly && cm.Sel != nil {
			if ct, ok := cm.Chan.Type().Underlying().(*types.Chan); ok && isByteSlice(ct.Elem()) {
				if fr, ok := asFieldLoad(cm.Chan); ok && fr.SName == "dpipe.conn" {
					rField = fr.Field
				}
			}
		}
	}
	for _, cm := range commsOfU(dw) {
		fr, ok := asFieldLoad(cm.Chan)
		if !ok || fr.SName != "dpipe.conn" {
			continue
		}
		if cm.Dir == types.SendOnly {
			wField = fr.Field
		} else if ct, ok := cm.Chan.Type().Underlying().(*types.Chan); ok && !isByteSlice(ct.Elem()) {
			closedField = fr.Field
		}
	}
	o := c.Obl("R1", fname(dw), "dpipe Write copies the caller's slice: what is queued is a fresh copy", 1)
	for _, s := range retainedBy(p, dw, 1, nil) {
		o.Fail(s.In.Pos(), "the caller's buffer is queued itself: %s", s.Why)
	}
	for _, cm := range commsOfU(dw) {
		if cm.Dir == types.SendOnly {
			o.Site(cm.Instr.Pos(), "send %s", cm.Send.String())
			if _, ok := rootOf(cm.Send).(*ssa.MakeSlice); !ok {
				if k, _ := freshCopyKind(cm.Send, func(v ssa.Value) bool { return sameOrigin(v, ssa.Value(dw.Params[1])) }); k != "append" && k != "clone" {
					o.Fail(cm.Instr.Pos(), "the message queued is not a freshly allocated copy")
				}
			}
			if fr, ok := asFieldLoad(cm.Chan); !ok || fr.SName != "dpipe.conn" {
				o.Fail(cm.Instr.Pos(), "Write queues on %s, not on a channel of the pipe end", chanRole(cm.Chan))
			}
		}
	}
	// every successful Write has queued one message (also an empty one: a zero-length datagram is a datagram)
	if ok, bad := mustPassU(entryPos(dw), func(in ssa.Instruction) bool { return isSuccessReturnOf(in, 1) }, func(in ssa.Instruction) bool {
		if sel, ok := in.(*ssa.Select); ok {
			for _, st := range sel.States {
				if st.Dir == types.SendOnly {
					return true
				}
			}
		}
		_, isSend := in.(*ssa.Send)
		return isSend
	}); !ok {
		o.Fail(bad.Pos(), "Write reports success on a path that has not queued the message: the datagram is silently lost (the peer's reads fall out of step with the writes)")
	}
	if rField == "" || wField == "" || closedField == "" {
		o.Fail(dw.Pos(), "channel roles of a pipe end not found (Read receives messages from %q, Write sends to %q and refuses on %q)", rField, wField, closedField)
	} else if rField == wField {
		o.Fail(dw.Pos(), "Write sends on the channel the same end reads from (%s)", rField)
	}

	o = c.Obl("R2", fname(pipe), "Pipe cross-wires two distinct channels (a.rCh = b.wCh, a.wCh = b.rCh), gives each end its own closed channel, and Close closes only the end's own closed channel, once", 3)
	type endT struct{ rCh, wCh, closed string } // identities of the channels an end is built with ("" = not a fresh channel)
	var ends []endT
	for _, g := range unitOf(pipe) {
		var sites []ssa.Instruction
		if g == pipe {
			sites = []ssa.Instruction{nil}
		} else {
			sites = curSites.sites[g]
		}
		instrsOf(g, func(in ssa.Instruction) {
			al, ok := in.(*ssa.Alloc)
			if !ok || typeName(al.Type()) != "dpipe.conn" {
				return
			}
			for _, site := range sites {
				ident := func(v ssa.Value) string {
					if prm, ok := v.(*ssa.Parameter); ok && site != nil {
						for k, q := range g.Params {
							if q == prm {
								v = site.(ssa.CallInstruction).Common().Args[k]
							}
						}
						if _, ok := v.(*ssa.MakeChan); ok {
							return fmt.Sprintf("make@%s", p.Pos(v.Pos()))
						}
						return ""
					}
					if _, ok := v.(*ssa.MakeChan); ok {
						if site != nil {
							return fmt.Sprintf("make@%s/call#%d", p.Pos(v.Pos()), site.Pos())
						}
						return fmt.Sprintf("make@%s", p.Pos(v.Pos()))
					}
					return ""
				}
				var e endT
				for _, rf := range *al.Referrers() {
					if fa, ok := rf.(*ssa.FieldAddr); ok {
						fr, _ := asFieldAddr(fa)
						for _, rr := range *fa.Referrers() {
							if st, ok := rr.(*ssa.Store); ok {
								switch fr.Field {
								case rField:
									e.rCh = ident(st.Val)
								case wField:
									e.wCh = ident(st.Val)
								case closedField:
									e.closed = ident(st.Val)
								}
							}
						}
					}
				}
				ends = append(ends, e)
				o.Site(in.Pos(), "end: %s=%s %s=%s %s=%s", rField, e.rCh, wField, e.wCh, closedField, e.closed)
			}
		})
	}
	if len(ends) != 2 {
		o.Fail(pipe.Pos(), "Pipe does not create two ends")
	} else {
		a, b := ends[0], ends[1]
		if a.rCh == "" || a.wCh == "" || a.rCh == a.wCh {
			o.Fail(pipe.Pos(), "the two directions do not use two distinct channels")
		}
		if a.rCh != b.wCh || a.wCh != b.rCh {
			o.Fail(pipe.Pos(), "the ends are not cross-wired (one end would read its own writes)")
		}
		if a.closed == "" || b.closed == "" || a.closed == b.closed {
			o.Fail(pipe.Pos(), "the two ends share a closed channel: closing one end closes the other")
		}
	}
	nCl := 0
	for _, f := range withClosures(dc) {
		instrsOf(f, func(in ssa.Instruction) {
			if isCall(in, "builtin.close") {
				nCl++
				role := chanRole(in.(ssa.CallInstruction).Common().Args[0])
				o.Site(in.Pos(), "close(%s) in %s", role, fname(f))
				if role != "field dpipe.conn."+closedField {
					o.Fail(in.Pos(), "Close closes %s", role)
				}
				if f == dc {
					o.Fail(in.Pos(), "close is not protected by sync.Once (double Close panics)")
				}
			}
		})
	}
	if nCl != 1 {
		o.Fail(dc.Pos(), "expected one close in dpipe Close, found %d", nCl)
	}

	o = c.Obl("R3", fname(dr), "dpipe Read takes one message per data return from the read channel and returns min(len(message), len(buffer)) bytes", 1)
	type oldFail struct {
		pos token.Pos
		msg string
	}
	var oldFails []oldFail
	var msg ssa.Value
	for _, cm := range commsOfU(dr) {
		if cm.Dir == types.RecvOnly && chanRole(cm.Chan) == "field dpipe.conn."+rField && cm.Sel != nil {
			for _, rf := range *cm.Sel.Referrers() {
				if ex, ok := rf.(*ssa.Extract); ok && isByteSlice(ex.Type()) {
					msg = ex
				}
			}
		}
	}
	// nothing is written behind the caller's slice: its capacity is never consulted and it is not re-sliced
	// beyond its length
	{
		bufP := dr.Params[1]
		instrsOfU(dr, func(in ssa.Instruction) {
			switch x := in.(type) {
			case *ssa.Call:
				if b, ok := x.Call.Value.(*ssa.Builtin); ok && b.Name() == "cap" && derivesFrom(x.Call.Args[0], func(v ssa.Value) bool { return sameOrigin(v, ssa.Value(bufP)) }, false) {
					o.Fail(in.Pos(), "Read consults the capacity of the caller's slice: a message is cut to the length of the slice handed in, bytes behind it belong to the caller")
				}
			case *ssa.Slice:
				if x.High == nil || !sameOrigin(x.X, ssa.Value(bufP)) {
					return
				}
				hi := origin(x.High)
				okHi := isLenOf(hi, func(v ssa.Value) bool { return sameOrigin(v, ssa.Value(bufP)) }) || isCall2(hi, "builtin.min")
				if !okHi {
					okHi = hasFact(in, func(ft fact) bool {
						cm, ok := normCmp(ft.Cond, ft.Val)
						if !ok || (cm.Op != token.LEQ && cm.Op != token.LSS) {
							return false
						}
						return sameOrigin(cm.X, hi) && isLenOf(origin(cm.Y), func(v ssa.Value) bool { return sameOrigin(v, ssa.Value(bufP)) })
					})
				}
				if !okHi {
					oldFails = append(oldFails, oldFail{in.Pos(), "Read re-slices the caller's slice up to a bound that is not known to be within its length (it can reach into the capacity behind it)"})
				}
			}
		})
	}
	if msg == nil {
		o.Fail(dr.Pos(), "Read does not receive a message from the read channel")
	} else {
		buf := dr.Params[1]
		for _, in := range findInstrs(dr, func(in ssa.Instruction) bool { return isSuccessReturnOf(in, 1) }) {
			ret := in.(*ssa.Return)
			if !msgDominates(msg, ret) {
				continue
			}
			n := retValAt(ret, 0)[0]
			o.Site(ret.Pos(), "returns %s", n.String())
			switch {
			case isLenOf(n, func(v ssa.Value) bool { return v == msg }):
				// must be on the edge len(msg) <= len(buf)
				if !hasFact(ret, func(ft fact) bool {
					cm, ok := normCmp(ft.Cond, ft.Val)
					return ok && cm.Op == token.LEQ && isLenOf(cm.X, func(v ssa.Value) bool { return v == msg }) && isLenOf(cm.Y, func(v ssa.Value) bool { return sameOrigin(v, ssa.Value(buf)) })
				}) {
					oldFails = append(oldFails, oldFail{ret.Pos(), "Read reports len(message) bytes although the buffer may be shorter (more bytes reported than copied)"})
				}
			case isLenOf(n, func(v ssa.Value) bool { return sameOrigin(v, ssa.Value(buf)) }):
			default:
				if cl, ok := n.(*ssa.Call); ok && isCall(cl, "builtin.copy") || isCall2(n, "builtin.min") {
					break
				}
				// size := len(msg); if size > len(buf) { size = len(buf) }: each leaf on its own edge
				if _, isPhi := n.(*ssa.Phi); isPhi {
					okAll := true
					for _, lf := range phiLeavesWithPred(n) {
						switch {
						case isLenOf(lf.v, func(v ssa.Value) bool { return sameOrigin(v, ssa.Value(buf)) }):
						case isLenOf(lf.v, func(v ssa.Value) bool { return v == msg }):
							fits := false
							facts := guardsOfBlock(ret.Block())
							if lf.pred != nil {
								facts = lf.edgeFacts()
							}
							for _, ft := range facts {
								cm, ok := normCmp(ft.Cond, ft.Val)
								if ok && cm.Op == token.LEQ && isLenOf(cm.X, func(v ssa.Value) bool { return v == msg }) && isLenOf(cm.Y, func(v ssa.Value) bool { return sameOrigin(v, ssa.Value(buf)) }) {
									fits = true
								}
							}
							if !fits {
								okAll = false
							}
						default:
							okAll = false
						}
					}
					if okAll {
						break
					}
				}
				oldFails = append(oldFails, oldFail{ret.Pos(), "the byte count returned is neither len(message) nor len(buffer)"})
			}
		}
		// the same two questions path by path (helpers inlined, values resolved on the path): decisive where it
		// finds message-returning paths; the shape-based findings above stand only where it finds none
		nMsgPaths, pathProblems := dpipeReadPaths(o, dr, rField)
		if nMsgPaths > 0 {
			for _, pr := range pathProblems {
				o.Fail(pr.pos, "%s", pr.msg)
			}
		} else {
			for _, f := range oldFails {
				o.Fail(f.pos, "%s", f.msg)
			}
		}
		// exactly one receive per return: the receive is not in an inner loop with another receive before returning
		if m, inf := maxEventsU(entryPos(dr), isReturn, func(in ssa.Instruction) int {
			if ex, ok := in.(*ssa.Extract); ok && ssa.Value(ex) == msg {
				return 1
			}
			return 0
		}); m > 1 && !inf {
			o.Fail(dr.Pos(), "Read can take two messages for one return")
		}
	}

	// ---------------- Bridge ----------------
	o = c.Obl("R4", fname(push), "Bridge.Push copies the caller's slice before queueing it", 1)
	for _, s := range retainedBy(p, push, 1, nil) {
		o.Fail(s.In.Pos(), "the caller's buffer is queued itself: %s", s.Why)
	}
	o.Site(push.Pos(), "taint of %s followed", push.Params[1].Name())

	// R5 mirror of the two directions
	for _, fn := range []string{"Push", "Len", "Reorder", "Drop", "DropNextNWrites", "ReorderNextNWrites", "Filter"} {
		f := p.Func("test", "Bridge", fn)
		o := c.Obl("R5", "test.Bridge."+fn, "the handling of direction 0 and direction 1 is the same code up to renaming 0<->1 (mirror comparison of the two branches)", 1)
		if f == nil {
			o.Undecide("Bridge.%s not found", fn)
			continue
		}
		z, ot := dirBranches(f)
		if z == nil {
			// no two-armed branch on the direction (one direction computed as the default, or the direction folded
			// into helper arguments): compare the behaviour of the paths of each direction instead
			d0, d1, okS := pathSummaries(f)
			if !okS || len(d0) == 0 || len(d1) == 0 {
				o.Undecide("no branch on the direction id in Bridge.%s", fn)
				continue
			}
			o.Site(f.Pos(), "direction 0: %d distinct path behaviours, direction 1: %d", len(d0), len(d1))
			for i := 0; i < len(d0) || i < len(d1); i++ {
				var la, lb string
				if i < len(d0) {
					la = d0[i]
				}
				if i < len(d1) {
					lb = d1[i]
				}
				if la != lb {
					o.Fail(f.Pos(), "Bridge.%s treats the two directions differently; a path of one direction has no counterpart in the other (direction 0 vs direction 1 renamed): [%s] vs [%s]", fn, la, lb)
					break
				}
			}
			continue
		}
		a := serializeRegion(z, func(s string) string { return s })
		b := serializeRegion(ot, swapDir)
		o.Site(z.Instrs[0].Pos(), "direction 0: %d lines, direction 1: %d lines", len(a), len(b))
		for i := 0; i < len(a) || i < len(b); i++ {
			var la, lb string
			if i < len(a) {
				la = a[i]
			}
			if i < len(b) {
				lb = b[i]
			}
			if la != lb {
				o.Fail(z.Instrs[0].Pos(), "Bridge.%s treats the two directions differently; first divergence (direction 0 vs direction 1 renamed): [%s] vs [%s]", fn, strings.TrimSpace(la), strings.TrimSpace(lb))
				break
			}
		}
		// per-direction helpers called from the two branches must themselves be mirror images
		for round := 0; round < 3 && len(mirrorHelperPairs) > 0; round++ {
			pairs := mirrorHelperPairs
			mirrorHelperPairs = map[[2]*ssa.Function]bool{}
			for pr := range pairs {
				h0, h1 := pr[0], pr[1]
				if len(h0.Blocks) == 0 || len(h1.Blocks) == 0 {
					continue
				}
				a0 := serializeRegion(h0.Blocks[0], func(s string) string { return s })
				b1 := serializeRegion(h1.Blocks[0], swapDir)
				o.Site(h0.Pos(), "helper pair %s / %s", fname(h0), fname(h1))
				for i := 0; i < len(a0) || i < len(b1); i++ {
					var la, lb string
					if i < len(a0) {
						la = a0[i]
					}
					if i < len(b1) {
						lb = b1[i]
					}
					if la != lb {
						o.Fail(h0.Pos(), "the per-direction helpers %s and %s differ (direction 1 renamed): [%s] vs [%s]", fname(h0), fname(h1), strings.TrimSpace(la), strings.TrimSpace(lb))
						break
					}
				}
			}
		}
		mirrorHelperPairs = map[[2]*ssa.Function]bool{}
	}

	// R10 the Bridge endpoint reports the end of the stream only when its channel was closed
	if br := p.Func("test", "bridgeConn", "Read"); br != nil {
		o10 := c.Obl("R10", fname(br), "a Bridge endpoint's Read reports io.EOF only on the closed edge of the receive (the comma-ok result is false), never from the value received: an empty message is a message", 1)
		for _, in := range findU(br, func(in ssa.Instruction) bool { return returnsGlobalErr(in, "io", "EOF") }) {
			o10.Site(in.Pos(), "return io.EOF")
			if !hasFact(in, func(ft fact) bool {
				return boolFact(ft, func(v ssa.Value) bool {
					ex, ok := origin(v).(*ssa.Extract)
					if !ok || !isBoolType(ex.Type()) {
						return false
					}
					switch t := ex.Tuple.(type) {
					case *ssa.Select:
						return true
					case *ssa.UnOp:
						return t.Op == token.ARROW && t.CommaOk
					}
					return false
				}, false)
			}) {
				o10.Fail(in.Pos(), "Read reports io.EOF without having found the read channel closed (comma-ok false): a received value such as an empty or nil message is taken for the end of the stream")
			}
		}
	}

	// R11 the script setters only set their counter
	{
		o11 := c.Obl("R11", "test.Bridge.script-setters", "DropNextNWrites and ReorderNextNWrites store the pending counter of the direction and touch nothing else of the Bridge (messages already held back for an open reorder window, or queued, stay)", 2)
		for _, fn := range []string{"DropNextNWrites", "ReorderNextNWrites"} {
			f := p.Func("test", "Bridge", fn)
			if f == nil {
				o11.Undecide("Bridge.%s not found", fn)
				continue
			}
			instrsOfU(f, func(in ssa.Instruction) {
				var addr ssa.Value
				switch x := in.(type) {
				case *ssa.Store:
					addr = x.Addr
				case *ssa.MapUpdate:
					addr = x.Map
				default:
					return
				}
				a := origin(addr)
				if ia, ok := a.(*ssa.IndexAddr); ok {
					a = origin(ia.X)
				}
				fr, ok := asFieldAddr(a)
				if !ok || fr.SName != "test.Bridge" {
					return
				}
				o11.Site(in.Pos(), "%s stores %s", fn, fr.Field)
				st := structOf(fr.Base.Type())
				isInt := false
				if st != nil {
					for i := 0; i < st.NumFields(); i++ {
						if st.Field(i).Name() == fr.Field {
							t := st.Field(i).Type().Underlying()
							if arr, isArr := t.(*types.Array); isArr {
								t = arr.Elem().Underlying()
							}
							if b, isB := t.(*types.Basic); isB && b.Info()&types.IsInteger != 0 {
								isInt = true
							}
						}
					}
				}
				if !isInt {
					o11.Fail(in.Pos(), "%s writes %s: a script setter must not touch the held-back or queued messages", fn, fr.Field)
				}
			})
		}
	}

	// R2w messages already handed to the peer are taken back only by an expired write deadline
	{
		ow := c.Obl("R2w", fname(dw), "Write receives from its own write channel (taking back messages the peer has not read yet) only on the edge where the write deadline has expired: closing an end, or writing on a closed end, leaves what was already sent to the peer", 1)
		wpaths, okW := enumIterPathsU(dw, 50000)
		if !okW {
			ow.Undecide("the paths of dpipe Write could not be enumerated")
		}
		failedW := map[ssa.Instruction]bool{}
		sitedW := map[ssa.Instruction]bool{}
		for pi := range wpaths {
			pt := &wpaths[pi]
			deadline := false
			for idx, in := range pt.Instrs {
				sel, ok := in.(*ssa.Select)
				if !ok {
					continue
				}
				// a drain step of this select?
				for _, st := range sel.States {
					if st.Dir != types.RecvOnly {
						continue
					}
					if fr, ok := asFieldLoad(pt.valueAt(st.Chan, idx)); ok && fr.SName == "dpipe.conn" && fr.Field == wField {
						if !sitedW[in] {
							sitedW[in] = true
							ow.Site(in.Pos(), "receive from the write channel")
						}
						if !deadline && !failedW[in] {
							failedW[in] = true
							ow.Fail(in.Pos(), "Write can receive from its own write channel on a path on which the write deadline was not found expired: messages already sent to the peer are discarded")
						}
					}
				}
				if k := selCaseOnPathAt(pt, sel, idx); k >= 0 && k < len(sel.States) {
					if strings.HasPrefix(chanRole(pt.valueAt(sel.States[k].Chan, idx)), "done ") {
						deadline = true
					}
				}
			}
		}
	}

	// R9 a scripted drop or reorder claims the write before the filter is asked
	{
		o9 := c.Obl("R9", fname(push), "DropNextNWrites / ReorderNextNWrites count every write: the filter callback is consulted only on paths that have found both pending counters of the direction not positive (a write the filter would refuse still uses up its slot of the script)", 1)
		paths, okP := enumIterPathsU(push, 50000)
		if !okP {
			o9.Undecide("the paths of Push could not be enumerated")
		}
		// the cell a value was loaded from, as seen on the path: a field of the Bridge, possibly indexed, possibly
		// reached through a pointer handed to a per-direction helper
		cellOf := func(pt *upath, v ssa.Value, idx int) string {
			u, ok := pt.valueAt(v, idx).(*ssa.UnOp)
			if !ok || u.Op != token.MUL {
				return ""
			}
			a := pt.valueAt(u.X, idx)
			suffix := ""
			if ia, ok := a.(*ssa.IndexAddr); ok {
				a, suffix = pt.valueAt(ia.X, idx), "[]"
			}
			if fr, ok := asFieldAddr(a); ok && fr.SName == "test.Bridge" {
				return fr.Field + suffix
			}
			return ""
		}
		counters := map[string]bool{}
		for pi := range paths {
			pt := &paths[pi]
			for idx, in := range pt.Instrs {
				st, ok := in.(*ssa.Store)
				if !ok {
					continue
				}
				b, ok := pt.valueAt(st.Val, idx).(*ssa.BinOp)
				if !ok || b.Op != token.SUB {
					continue
				}
				if k, isC := constInt(b.Y); !isC || k != 1 {
					continue
				}
				a := pt.valueAt(st.Addr, idx)
				suffix := ""
				if ia, ok := a.(*ssa.IndexAddr); ok {
					a, suffix = pt.valueAt(ia.X, idx), "[]"
				}
				if fr, ok := asFieldAddr(a); ok && fr.SName == "test.Bridge" && cellOf(pt, b.X, idx) == fr.Field+suffix {
					counters[fr.Field+suffix] = true
				}
			}
		}
		nCalls := 0
		failed := map[ssa.Instruction]bool{}
		sited := map[ssa.Instruction]bool{}
		for pi := range paths {
			pt := &paths[pi]
			ci := 0
			found := map[string]int{}
			for idx, in := range pt.Instrs {
				if _, isIf := in.(*ssa.If); isIf {
					if ci < len(pt.Conds) {
						ft := pt.Conds[ci]
						if cm, ok := normCmp(ft.Cond, ft.Val); ok {
							if k, isC := constInt(cm.Y); isC && ((cm.Op == token.LEQ && k == 0) || (cm.Op == token.LSS && k == 1) || (cm.Op == token.EQL && k == 0)) {
								if cell := cellOf(pt, cm.X, idx); cell != "" && counters[cell] {
									found[cell]++
								}
							}
						}
					}
					ci++
					continue
				}
				call, ok := in.(*ssa.Call)
				if !ok || call.Call.IsInvoke() || call.Call.StaticCallee() != nil {
					continue
				}
				fr, ok := asFieldLoad(pt.valueAt(call.Call.Value, idx))
				if !ok || fr.SName != "test.Bridge" {
					continue
				}
				if _, isFn := call.Call.Value.Type().Underlying().(*types.Signature); !isFn {
					continue
				}
				nCalls++
				if !sited[in] {
					sited[in] = true
					o9.Site(in.Pos(), "filter callback consulted")
				}
				n := 0
				for _, k := range found {
					n += k
				}
				// two pending counters per direction: both found exhausted (an indexed pair counts per test)
				if (len(found) < 2 && n < 2) && !failed[in] {
					failed[in] = true
					o9.Fail(in.Pos(), "the filter is consulted on a path that has not found the pending drop and reorder counters exhausted: a refused write does not use up its slot and the script shifts onto later writes")
				}
			}
		}
		if nCalls == 0 && okP {
			o9.Undecide("no call of a filter callback found in Push")
		}
	}

	// R6 flush empties the holding area
	o = c.Obl("R6", fname(push), "when a reorder burst completes the stack is appended to the queue (queue = append(queue, stack...)) and then reset to nil before the lock is released: no aliasing, no second delivery", 2)
	for _, dir := range []struct{ q, s string }{{"queue0to1", "stack0"}, {"queue1to0", "stack1"}} {
		// a helper instantiated once per direction (it receives the addresses of this direction's fields): analyse
		// the instantiation of this direction
		var site ssa.Instruction
		instrsOfU(push, func(in ssa.Instruction) {
			if cl, ok := in.(*ssa.Call); ok && helperCallee(cl) != nil {
				for _, a := range cl.Call.Args {
					if fa, ok := a.(*ssa.FieldAddr); ok {
						if fr, ok := asFieldAddr(fa); ok && fr.SName == "test.Bridge" && fr.Field == dir.q {
							site = in
						}
					}
				}
			}
		})
		withSite(site, func() {
			var flush *ssa.Store
			instrsOfU(push, func(in ssa.Instruction) {
				st, ok := in.(*ssa.Store)
				if !ok || !isFieldStore(st, "test.Bridge", dir.q) {
					return
				}
				if a0, a1, ok := appendOf(st.Val, 0); ok && isFieldLoad(a1, "test.Bridge", dir.s) {
					flush = st
					if !isFieldLoad(a0, "test.Bridge", dir.q) {
						o.Fail(in.Pos(), "the flushed stack is not appended to the existing queue")
					}
				} else if derivesFrom(st.Val, func(v ssa.Value) bool { return isFieldLoad(v, "test.Bridge", dir.s) }, false) {
					o.Fail(in.Pos(), "the stack itself is installed as the queue (%s aliases %s): later pushes onto the stack overwrite queued messages", dir.q, dir.s)
				}
			})
			if flush == nil {
				o.Fail(push.Pos(), "no flush of %s into %s", dir.s, dir.q)
				return
			}
			o.Site(flush.Pos(), "flush of %s", dir.s)
			// once a message is put on the stack, every path either finds the burst unfinished (countdown not 0)
			// or flushes: a completed burst never keeps its messages back
			ppaths, okPP := enumIterPathsU(push, 50000)
			if !okPP {
				o.Undecide("the paths of Push could not be enumerated")
			}
			reported := false
			for pi := range ppaths {
				pt := &ppaths[pi]
				if rt, isRet := pt.last().(*ssa.Return); !isRet || pt.Loop || rt.Parent() != push {
					continue
				}
				stacked, flushed, zero := -1, false, false
				for idx, in := range pt.Instrs {
					if st, ok := in.(*ssa.Store); ok && isFieldStore(st, "test.Bridge", dir.s) && !isNilConst(st.Val) {
						if _, _, isApp := appendOf(st.Val, 0); isApp && stacked < 0 {
							stacked = idx
						}
					}
					if in == ssa.Instruction(flush) {
						flushed = true
					}
				}
				if stacked < 0 {
					continue
				}
				for _, ft := range pt.Conds {
					cm, ok := normCmp(ft.Cond, ft.Val)
					if !ok || cm.Op != token.EQL || ft.If == nil || pt.indexOf(ft.If) < stacked {
						continue
					}
					var fl ssa.Value
					if k, isC := constInt(cm.Y); isC && k == 0 {
						fl = cm.X
					} else if k, isC := constInt(cm.X); isC && k == 0 {
						fl = cm.Y
					}
					if fl == nil {
						continue
					}
					if fr, ok := asFieldLoad(pt.value(fl)); ok && fr.SName == "test.Bridge" {
						if bt, ok := fl.Type().Underlying().(*types.Basic); ok && bt.Info()&types.IsInteger != 0 {
							zero = true
						}
					}
				}
				if zero && !flushed && !reported {
					reported = true
					o.Fail(pt.last().Pos(), "after a message was put on %s, Push can return with the reorder countdown found at 0 without having appended the stack to the queue: the messages of a completed burst are withheld", dir.s)
				}
			}
			isReset := func(in ssa.Instruction) bool {
				st, ok := in.(*ssa.Store)
				return ok && isFieldStore(st, "test.Bridge", dir.s) && isNilConst(st.Val)
			}
			if ok, bad := mustPassU(posAfter(flush), isReturn, isReset); !ok {
				o.Fail(bad.Pos(), "after flushing %s into the queue the stack is not reset to nil: the next reorder burst delivers the old messages again", dir.s)
			}
			instrsOfU(push, func(in ssa.Instruction) {
				if st, ok := in.(*ssa.Store); ok && isFieldStore(st, "test.Bridge", dir.s) && !isNilConst(st.Val) {
					if _, _, ok := appendOf(st.Val, 0); !ok {
						o.Fail(in.Pos(), "%s is set to something else than nil or append(%s, data) (re-slicing keeps the backing array shared with the queue)", dir.s, dir.s)
					}
				}
			})
		})
	}

	// R8 Drop removes exactly the requested range
	if dropM := p.Func("test", "Bridge", "Drop"); dropM != nil {
		o8 := c.Obl("R8", fname(dropM), "Drop(id, offset, n) replaces the queue of that direction by queue[:offset] followed by queue[min(offset+n, len):]: exactly the requested messages disappear, the ones before and after keep their order", 2)
		calls := 0
		instrsOfU(dropM, func(in ssa.Instruction) {
			st, ok := in.(*ssa.Store)
			if !ok {
				return
			}
			fr, ok := asFieldAddr(st.Addr)
			if !ok || fr.SName != "test.Bridge" || !strings.HasPrefix(fr.Field, "queue") {
				return
			}
			calls++
			o8.Site(in.Pos(), "store to %s", fr.Field)
			cl, ok := st.Val.(*ssa.Call)
			h := (*ssa.Function)(nil)
			if ok {
				h = cl.Call.StaticCallee()
			}
			if h == nil || !inModule(h) || len(h.Blocks) == 0 || len(cl.Call.Args) != 3 {
				o8.Undecide("the new queue of %s is not computed by a three-argument module helper (queue, offset, n)", fr.Field)
				return
			}
			if !isFieldLoad(cl.Call.Args[0], "test.Bridge", fr.Field) {
				o8.Fail(in.Pos(), "%s is replaced by a range of another queue", fr.Field)
			}
			if len(dropM.Params) < 4 || !sameOrigin(cl.Call.Args[1], ssa.Value(dropM.Params[2])) || !sameOrigin(cl.Call.Args[2], ssa.Value(dropM.Params[3])) {
				o8.Fail(in.Pos(), "Drop does not hand (offset, n) to the helper in this order")
			}
			if dropChecked[h] {
				return
			}
			dropChecked[h] = true
			// the helper, path by path
			sP, offP, nP := h.Params[0], h.Params[1], h.Params[2]
			sym := func(v ssa.Value) (string, bool) {
				switch {
				case v == ssa.Value(offP):
					return "offset", true
				case v == ssa.Value(nP):
					return "n", true
				case isLenOf(v, func(x ssa.Value) bool { return x == ssa.Value(sP) }):
					return "len", true
				}
				return defaultSym(v)
			}
			hp, okH := enumPathsU(h, 200)
			if !okH {
				o8.Undecide("the paths of %s could not be enumerated", fname(h))
				return
			}
			off, nn, ln := linSym("offset"), linSym("n"), linSym("len")
			for pi := range hp {
				pt := &hp[pi]
				ret, isRet := pt.last().(*ssa.Return)
				if !isRet || ret.Parent() != h {
					continue
				}
				rv := pt.value(retValAt(ret, 0)[0])
				d, sarg, isApp := appendOf(rv, 0)
				var lo, hi *ssa.Slice
				if isApp {
					lo, _ = pt.value(d).(*ssa.Slice)
					hi, _ = pt.value(sarg).(*ssa.Slice)
				}
				if dc, ok := rv.(*ssa.Call); ok && !isApp {
					// slices.Delete(s, a, b) removes s[a:b]
					if sc := dc.Call.StaticCallee(); sc != nil && strings.HasPrefix(callName(dc), "slices.Delete") && len(dc.Call.Args) == 3 && pt.value(dc.Call.Args[0]) == ssa.Value(sP) {
						a := pathLin(pt, dc.Call.Args[1], sym)
						b := pathLin(pt, dc.Call.Args[2], sym)
						within, beyond := false, false
						for _, ft := range pt.Conds {
							if at, pol, ok := atomOfP(ft.Cond, ft.Val, sym, pt.phi); ok && pol && !at.Eq {
								if at.Form.eq(linSym("len").add(linSym("offset"), -1).add(linSym("n"), -1).add(linConst(1), 1)) {
									within = true
								}
								if at.Form.eq(linSym("offset").add(linSym("n"), 1).add(linSym("len"), -1)) {
									beyond = true
								}
							}
						}
						okB := (within && b.eq(linSym("offset").add(linSym("n"), 1))) || (beyond && b.eq(linSym("len")))
						o8.Site(ret.Pos(), "%s returns slices.Delete(s, %s, %s)", h.Name(), a, b)
						if !a.eq(linSym("offset")) || !okB {
							o8.Fail(ret.Pos(), "%s deletes s[%s:%s]: not the messages [offset, min(offset+n, len))", fname(h), a, b)
						}
						continue
					}
				}
				if lo == nil || hi == nil || lo.X != ssa.Value(sP) || hi.X != ssa.Value(sP) || lo.Low != nil || lo.High == nil || hi.Low == nil || hi.High != nil {
					o8.Undecide("%s does not return append(s[:a], s[b:]...) on a path (other idiom: not recognised)", fname(h))
					continue
				}
				a := pathLin(pt, lo.High, sym)
				b := pathLin(pt, hi.Low, sym)
				// what the path knows: offset+n <= len, or offset+n > len
				within, beyond := false, false
				for _, ft := range pt.Conds {
					if at, pol, ok := atomOfP(ft.Cond, ft.Val, sym, pt.phi); ok && pol && !at.Eq {
						if at.Form.eq(ln.add(off, -1).add(nn, -1).add(linConst(1), 1)) { // len - offset - n + 1 > 0
							within = true
						}
						if at.Form.eq(off.add(nn, 1).add(ln, -1)) { // offset + n - len > 0
							beyond = true
						}
					}
				}
				okB := (within && b.eq(off.add(nn, 1))) || (beyond && b.eq(ln))
				o8.Site(ret.Pos(), "%s returns append(s[:%s], s[%s:]...) (within=%v beyond=%v)", h.Name(), a, b, within, beyond)
				if !a.eq(off) || !okB {
					o8.Fail(ret.Pos(), "%s keeps s[:%s] and s[%s:]: not the queue without the messages [offset, min(offset+n, len))", fname(h), a, b)
				}
			}
		})
		if calls == 0 {
			o8.Undecide("Drop does not store a queue")
		}
	}

	// R7 Tick: hand over the head only to a waiting reader; dequeue iff handed over
	o = c.Obl("R7", fname(tick), "Tick offers the head of each queue to the peer's unbuffered read channel without blocking and removes it from the queue exactly on the success edge", 2)
	tpaths, okTP := enumIterPathsU(tick, 100000)
	if !okTP {
		o.Undecide("the paths of Tick could not be enumerated")
	}
	for _, dir := range []struct{ q, conn string }{{"queue0to1", "conn1"}, {"queue1to0", "conn0"}} {
		// path by path (an offer helper shared by both directions is followed with each call's own arguments): the
		// head of the queue is offered to the peer's read channel without blocking, and the queue loses its head
		// exactly on the paths on which the offer was taken
		nDeliver := 0
		failed := map[string]bool{}
		failOnce := func(pos token.Pos, f string, a ...interface{}) {
			m := fmt.Sprintf(f, a...)
			if !failed[m] {
				failed[m] = true
				o.Fail(pos, "%s", m)
			}
		}
		var siteSel *ssa.Select
		for pi := range tpaths {
			pt := &tpaths[pi]
			if rt, isRet := pt.last().(*ssa.Return); !isRet || pt.Loop || rt.Parent() != tick {
				continue
			}
			delivered, removed := -1, -1
			for idx, in := range pt.Instrs {
				switch x := in.(type) {
				case *ssa.Select:
					for k, st := range x.States {
						if st.Dir != types.SendOnly {
							continue
						}
						ld, ok := pt.valueAt(st.Send, idx).(*ssa.UnOp)
						if !ok {
							continue
						}
						ia, ok := ld.X.(*ssa.IndexAddr)
						if !ok || !pathFieldLoad(pt, ia.X, idx, "test.Bridge", dir.q) {
							continue
						}
						siteSel = x
						if kk, isC := constInt(ia.Index); !isC || kk != 0 {
							failOnce(x.Pos(), "Tick does not offer the head (index 0) of %s", dir.q)
						}
						chOK := false
						if cl, ok := pt.valueAt(st.Chan, idx).(*ssa.UnOp); ok {
							if fa, ok := cl.X.(*ssa.FieldAddr); ok {
								if stt := structOf(fa.X.Type()); stt != nil && stt.Field(fa.Field).Name() == "readCh" && isFieldLoad(pt.valueAt(fa.X, idx), "test.Bridge", dir.conn) {
									chOK = true
								}
							}
						}
						if !chOK {
							failOnce(x.Pos(), "the head of %s is not offered to %s", dir.q, dir.conn)
						}
						if x.Blocking {
							failOnce(x.Pos(), "the delivery blocks")
						}
						if selCaseOnPathAt(pt, x, idx) == k {
							delivered = idx
						}
					}
				case *ssa.Store:
					if !isFieldStore(x, "test.Bridge", dir.q) && !pathFieldStore(pt, x, idx, "test.Bridge", dir.q) {
						continue
					}
					sl, ok := pt.valueAt(x.Val, idx).(*ssa.Slice)
					okS := ok && pathFieldLoad(pt, sl.X, idx, "test.Bridge", dir.q) && sl.High == nil
					if okS {
						k, isC := constInt(sl.Low)
						okS = isC && k == 1
					}
					if !okS {
						failOnce(in.Pos(), "%s is modified in Tick other than by removing its head", dir.q)
						continue
					}
					if delivered < 0 || removed >= 0 {
						failOnce(in.Pos(), "the head of %s is removed on a path where it was not handed to a reader (message lost)", dir.q)
					}
					removed = idx
				}
			}
			if delivered >= 0 {
				nDeliver++
				if removed < 0 && siteSel != nil {
					failOnce(siteSel.Pos(), "a message handed to a reader stays in %s (delivered twice)", dir.q)
				}
			}
		}
		if nDeliver == 0 {
			o.Fail(tick.Pos(), "Tick never delivers from %s", dir.q)
			continue
		}
		if siteSel != nil {
			o.Site(siteSel.Pos(), "delivery from %s", dir.q)
		}
	}
	for _, mk := range chanMakesForField(p, "test.bridgeConn", "readCh") {
		o.Site(mk.Pos, "readCh = make(chan, %d)", mk.Cap)
		if !mk.Const || mk.Cap != 0 {
			o.Fail(mk.Pos, "the endpoint's read channel is buffered: Tick moves messages out of the queue with no reader waiting, so Drop/Reorder no longer act on them")
		}
	}
}

func name(v ssa.Value) string {
	if v == nil {
		return "nil"
	}
	return v.Name()
}

func isCall2(v ssa.Value, n string) bool {
	cl, ok := v.(*ssa.Call)
	return ok && isCall(cl, n)
}

func msgDominates(msg ssa.Value, in ssa.Instruction) bool {
	mi, ok := msg.(ssa.Instruction)
	return ok && domU(mi, in)
}

// appendOf: v is append(dst, src...) - directly, or as the result of a private helper
// that returns append over (values derived from) its parameters, which are replaced by
// the call's arguments.
func appendOf(v ssa.Value, depth int) (dst, src ssa.Value, ok bool) {
	cl, isCl := v.(*ssa.Call)
	if !isCl || depth > unitDepth {
		return nil, nil, false
	}
	if isCall(cl, "builtin.append") && len(cl.Call.Args) == 2 {
		return cl.Call.Args[0], cl.Call.Args[1], true
	}
	h := helperCallee(cl)
	if h == nil || h.Signature.Results().Len() != 1 {
		return nil, nil, false
	}
	rets := findInstrs(h, isReturn)
	if len(rets) != 1 {
		return nil, nil, false
	}
	rv := retValAt(rets[0].(*ssa.Return), 0)
	if len(rv) != 1 {
		return nil, nil, false
	}
	d, s, ok := appendOf(rv[0], depth+1)
	if !ok {
		return nil, nil, false
	}
	sub := func(x ssa.Value) ssa.Value {
		for k, prm := range h.Params {
			if sameOrigin(x, ssa.Value(prm)) && k < len(cl.Call.Args) {
				return cl.Call.Args[k]
			}
		}
		return x
	}
	return sub(d), sub(s), true
}

type posMsg struct {
	pos token.Pos
	msg string
}

// dpipeReadPaths: along every complete path of dpipe Read that received a message from the read channel and returns
// without error: the count returned is len(buffer), a copy count, or len(message) on a path that has established
// len(message) <= len(buffer); and every re-slice of the caller's slice has such a bound.
func dpipeReadPaths(o *Obligation, dr *ssa.Function, rField string) (int, []posMsg) {
	paths, ok := enumIterPathsU(dr, 50000)
	if !ok {
		return 0, nil
	}
	buf := dr.Params[1]
	var probs []posMsg
	seenP := map[string]bool{}
	add := func(pos token.Pos, m string) {
		k := fmt.Sprint(pos, m)
		if !seenP[k] {
			seenP[k] = true
			probs = append(probs, posMsg{pos, m})
		}
	}
	n := 0
	sited := map[token.Pos]bool{}
	for pi := range paths {
		pt := &paths[pi]
		ret, isRet := pt.last().(*ssa.Return)
		if !isRet || pt.Loop || ret.Parent() != dr {
			continue
		}
		var msg ssa.Value
		isLenOfP := func(v ssa.Value, idx int, want func(ssa.Value) bool) bool {
			cl, ok := strip(pt.valueAt(v, idx)).(*ssa.Call)
			if !ok {
				return false
			}
			b, ok := cl.Call.Value.(*ssa.Builtin)
			if !ok || b.Name() != "len" {
				return false
			}
			// the argument as seen where the len was taken
			at := pt.indexOf(cl)
			if at < 0 {
				at = idx
			}
			return want(pt.valueAt(cl.Call.Args[0], at))
		}
		isMsg := func(x ssa.Value) bool { return msg != nil && x == msg }
		isBuf := func(x ssa.Value) bool { return sameOrigin(x, ssa.Value(buf)) || x == ssa.Value(buf) }
		fits := func(upto int) bool {
			ci := 0
			for j, in := range pt.Instrs[:upto] {
				if _, isIf := in.(*ssa.If); !isIf {
					continue
				}
				my := ci
				ci++
				if my >= len(pt.Conds) {
					break
				}
				cm, ok := normCmp(pt.Conds[my].Cond, pt.Conds[my].Val)
				if !ok || (cm.Op != token.LEQ && cm.Op != token.LSS && cm.Op != token.EQL) {
					continue
				}
				if isLenOfP(cm.X, j, isMsg) && isLenOfP(cm.Y, j, isBuf) {
					return true
				}
			}
			return false
		}
		okBound := func(v ssa.Value, idx int) bool {
			if isLenOfP(v, idx, isBuf) {
				return true
			}
			if cl, ok := strip(pt.valueAt(v, idx)).(*ssa.Call); ok && (isCall(cl, "builtin.copy") || isCall2(cl, "builtin.min")) {
				return true
			}
			return isLenOfP(v, idx, isMsg) && fits(idx)
		}
		for idx, in := range pt.Instrs {
			switch x := in.(type) {
			case *ssa.Extract:
				if sel, ok := x.Tuple.(*ssa.Select); ok && isByteSlice(x.Type()) {
					k := selCaseOnPathAt(pt, sel, pt.indexOf(sel))
					if k >= 0 && k < len(sel.States) && sel.States[k].Dir == types.RecvOnly {
						if fr, ok := asFieldLoad(pt.valueAt(sel.States[k].Chan, idx)); ok && fr.SName == "dpipe.conn" && fr.Field == rField {
							// the received value of state k: tuple index 2 + number of receive states before k
							r := 0
							for i := 0; i < k; i++ {
								if sel.States[i].Dir == types.RecvOnly {
									r++
								}
							}
							if x.Index == 2+r {
								msg = x
							}
						}
					}
				}
			case *ssa.UnOp:
				if x.Op == token.ARROW && isByteSlice(x.Type()) {
					if fr, ok := asFieldLoad(pt.valueAt(x.X, idx)); ok && fr.SName == "dpipe.conn" && fr.Field == rField {
						msg = x
					}
				}
			case *ssa.Slice:
				if x.High != nil && isBuf(pt.valueAt(x.X, idx)) && !okBound(x.High, idx) {
					add(x.Pos(), "Read re-slices the caller's slice up to a bound that is not known to be within its length (it can reach into the capacity behind it)")
				}
			}
		}
		if e := errorOperand(ret); e == nil || !isNilConst(strip(pt.valueAt(e, len(pt.Instrs)-1))) {
			continue
		}
		if msg == nil {
			// one message per successful read: a read that reports success has taken a message from the channel
			add(ret.Pos(), "Read can report success without having taken a message from the read channel (a zero-length read that consumes nothing shifts every later message by one read)")
			continue
		}
		n++
		last := len(pt.Instrs) - 1
		rv := retValAt(ret, 0)
		if len(rv) != 1 {
			continue
		}
		if !sited[ret.Pos()] {
			sited[ret.Pos()] = true
			o.Site(ret.Pos(), "path returning a message")
		}
		if !okBound(rv[0], last) {
			if isLenOfP(rv[0], last, isMsg) {
				add(ret.Pos(), "Read reports len(message) bytes although the buffer may be shorter (more bytes reported than copied)")
			} else {
				add(ret.Pos(), "the byte count returned is neither len(message) nor len(buffer)")
			}
		}
	}
	return n, probs
}

// pathFieldLoad: v, as seen at index idx of the path, is a load of T.f - directly, or through a pointer to the field
// that a per-direction helper was handed (*queue with queue = &br.queue0to1).
func pathFieldLoad(pt *upath, v ssa.Value, idx int, T, f string) bool {
	rv := pt.valueAt(v, idx)
	if isFieldLoad(rv, T, f) {
		return true
	}
	if u, ok := rv.(*ssa.UnOp); ok && u.Op == token.MUL {
		if fr, ok := asFieldAddr(pt.valueAt(u.X, idx)); ok && fr.SName == T && fr.Field == f {
			return true
		}
	}
	return false
}

// pathFieldStore: the store writes T.f through a pointer handed to a helper.
func pathFieldStore(pt *upath, st *ssa.Store, idx int, T, f string) bool {
	fr, ok := asFieldAddr(pt.valueAt(st.Addr, idx))
	return ok && fr.SName == T && fr.Field == f
}
