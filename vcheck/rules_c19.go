package main

// C19 — data-race freedom of the thread-safe APIs, decided as a lock discipline:
// every field of a struct type of the concurrent packages that is written after
// construction is accessed only under the object's mutex (R1), or under its owner's
// mutex (R2), or only atomically (R3); package variables written at run time are
// accessed atomically or under a lock (R4); the few deliberate exceptions are listed
// with a side condition that is itself verified (R5); locks are balanced (R6).

import (
	"fmt"
	"go/token"
	"go/types"
	"sort"
	"strings"

	"golang.org/x/tools/go/ssa"
)

var c19Pkgs = map[string]bool{"vnet": true, "packetio": true, "deadline": true, "udp": true, "dpipe": true}

type access struct {
	T, F  string
	Kind  byte // 'R' read, 'W' write, 'A' atomic
	In    ssa.Instruction
	Base  ssa.Value
	Fresh bool
	Elem  bool
}

func isSyncType(t types.Type) bool {
	n := namedOf(t)
	if n == nil || n.Obj().Pkg() == nil {
		return false
	}
	pp := n.Obj().Pkg().Path()
	return pp == "sync" || pp == "sync/atomic"
}

func isMutexType(t types.Type) bool {
	n, ok := t.(*types.Named)
	if !ok || n.Obj().Pkg() == nil || n.Obj().Pkg().Path() != "sync" {
		return false
	}
	return n.Obj().Name() == "Mutex" || n.Obj().Name() == "RWMutex"
}

func isAtomicCall(ci ssa.CallInstruction) bool {
	sc := staticCallee(ci)
	return sc != nil && sc.Pkg != nil && sc.Pkg.Pkg.Path() == "sync/atomic"
}

// isFreshBase: the object whose field is accessed was allocated in this very function
// (constructor context), possibly held in a single-assignment local cell.
func isFreshBase(base ssa.Value) bool {
	r := rootOf(base)
	a, ok := r.(*ssa.Alloc)
	if !ok {
		return false
	}
	et := a.Type().(*types.Pointer).Elem()
	if _, isPtr := et.Underlying().(*types.Pointer); isPtr {
		// a cell holding a pointer: all values stored into it must be fresh allocations
		st := cellStores(a)
		if len(st) == 0 {
			return false
		}
		for _, v := range st {
			if _, ok := rootOf(v).(*ssa.Alloc); !ok {
				return false
			}
			if rootOf(v) == a {
				return false
			}
		}
		return true
	}
	return true
}

type accessCollector struct {
	tracked func(sname string) bool
	out     []access
}

func (ac *accessCollector) add(fr fieldRef, kind byte, in ssa.Instruction, elem bool) {
	ac.out = append(ac.out, access{T: fr.SName, F: fr.Field, Kind: kind, In: in, Base: fr.Base, Fresh: isFreshBase(fr.Base) || inPackageInit(in), Elem: elem})
}

// classifyAddrUses classifies every use of an address derived from field fr.
func (ac *accessCollector) classifyAddrUses(addr ssa.Value, fr fieldRef, elem bool, seen map[ssa.Value]bool) {
	if seen[addr] {
		return
	}
	seen[addr] = true
	refs := addr.Referrers()
	if refs == nil {
		return
	}
	for _, r := range *refs {
		switch x := r.(type) {
		case *ssa.UnOp:
			if x.Op == token.MUL {
				ac.add(fr, 'R', x, elem)
				ac.trackElems(x, fr, seen)
			}
		case *ssa.Store:
			if x.Addr == addr {
				ac.add(fr, 'W', x, elem)
			} else {
				ac.add(fr, 'W', x, elem) // address escapes
			}
		case *ssa.FieldAddr:
			// a field of an inner struct whose type is tracked itself (state regrouped into an unexported struct)
			// is accounted under that type, not as an access of the outer field
			if in2, ok := asFieldAddr(x); ok && ac.tracked != nil && ac.tracked(in2.SName) && in2.SName != fr.SName {
				continue
			}
			ac.classifyAddrUses(x, fr, elem, seen)
		case *ssa.IndexAddr:
			ac.classifyAddrUses(x, fr, true, seen)
		case ssa.CallInstruction:
			if isAtomicCall(x) {
				ac.add(fr, 'A', x, elem)
				continue
			}
			pt, _ := addr.Type().Underlying().(*types.Pointer)
			if pt != nil && isSyncType(pt.Elem()) {
				continue // self-synchronising object (Mutex, WaitGroup, Once, atomic.Value)
			}
			// the address is handed to a function of the module whose body is known: what that function does
			// through the parameter is the access (a promoted method of an embedded struct, a helper taking
			// a pointer to the field)
			if sc := x.Common().StaticCallee(); sc != nil && inModule(sc) && len(sc.Blocks) > 0 && !x.Common().IsInvoke() {
				if _, plain := x.(*ssa.Call); plain {
					followed := false
					for k, a := range x.Common().Args {
						if a == addr && k < len(sc.Params) {
							ac.classifyAddrUses(sc.Params[k], fr, elem, seen)
							followed = true
						}
					}
					if followed {
						continue
					}
				}
			}
			ac.add(fr, 'W', x, elem)
		case *ssa.DebugRef:
		default:
			ac.add(fr, 'W', r, elem)
		}
	}
}

// trackElems follows a slice/map/array value loaded from a field to its element accesses.
func (ac *accessCollector) trackElems(v ssa.Value, fr fieldRef, seen map[ssa.Value]bool) {
	switch v.Type().Underlying().(type) {
	case *types.Slice, *types.Map, *types.Array:
	default:
		return
	}
	if seen[v] {
		return
	}
	seen[v] = true
	refs := v.Referrers()
	if refs == nil {
		return
	}
	for _, r := range *refs {
		switch x := r.(type) {
		case *ssa.IndexAddr:
			if x.X == v {
				ac.classifyAddrUses(x, fr, true, seen)
			}
		case *ssa.Index:
			if x.X == v {
				ac.add(fr, 'R', x, true)
			}
		case *ssa.Lookup:
			if x.X == v {
				ac.add(fr, 'R', x, true)
			}
		case *ssa.MapUpdate:
			if x.Map == v {
				ac.add(fr, 'W', x, true)
			}
		case *ssa.Range:
			ac.add(fr, 'R', x, true)
		case *ssa.Slice:
			if x.X == v {
				ac.trackElems(x, fr, seen)
			}
		case *ssa.Phi:
			ac.trackElems(x, fr, seen)
		case *ssa.ChangeType:
			ac.trackElems(x, fr, seen)
		case ssa.CallInstruction:
			c := x.Common()
			if b, ok := c.Value.(*ssa.Builtin); ok {
				switch b.Name() {
				case "copy":
					if len(c.Args) == 2 && c.Args[0] == v {
						ac.add(fr, 'W', x, true)
					}
					if len(c.Args) == 2 && c.Args[1] == v {
						ac.add(fr, 'R', x, true)
					}
				case "append":
					ac.add(fr, 'R', x, true)
				case "delete":
					ac.add(fr, 'W', x, true)
				}
				continue
			}
			ac.add(fr, 'R', x, true)
		}
	}
}

func (ac *accessCollector) collect(p *Prog) {
	for _, f := range p.Funcs {
		instrsOf(f, func(in ssa.Instruction) {
			switch x := in.(type) {
			case *ssa.FieldAddr:
				fr, ok := asFieldAddr(x)
				if !ok || !ac.tracked(fr.SName) {
					return
				}
				// nested field of a tracked struct reached through another tracked field
				// (embedded by value) is classified at the outermost tracked field only.
				if inner, ok := origin(x.X).(*ssa.FieldAddr); ok {
					if ifr, ok2 := asFieldAddr(inner); ok2 && ac.tracked(ifr.SName) {
						if _, isStruct := inner.Type().(*types.Pointer).Elem().Underlying().(*types.Struct); isStruct {
							return
						}
					}
				}
				ac.classifyAddrUses(x, fr, false, map[ssa.Value]bool{})
			case *ssa.Field:
				fr, ok := asFieldLoad(x)
				if ok && ac.tracked(fr.SName) {
					ac.add(fr, 'R', x, false)
				}
			}
		})
	}
}

// ---- exemption table (R5) ----------------------------------------------------------------

type exemption struct {
	T, F   string
	Kind   string // setup | confined | message
	Reason string
}

var c19Exempt = []exemption{
	{"vnet.Router", "parent", "setup", "set once while the topology is built (AddRouter/AddChildRouter -> setRouter), before Start; documented read-only"},
	{"vnet.Router", "nat", "setup", "created in setRouter while the topology is built; documented read-only"},
	{"vnet.Router", "natType", "setup", "defaulted in setRouter while the topology is built; documented read-only"},
	{"vnet.Net", "router", "setup", "set by the router when the host is attached (AddNet -> setRouter); documented read-only"},
	{"vnet.resolver", "parent", "setup", "set under the mutex in setParent while the topology is built; read without it afterwards"},
	{"vnet.TokenBucketFilter", "queueSize", "setup", "TBFQueueSizeInBytes is documented as constructor-only; read once in the constructor"},
	{"vnet.TokenBucketFilter", "queue", "setup", "assigned once in the constructor before the goroutine starts"},
	{"vnet.TokenBucketFilter", "currentTokensInBucket", "confined", "only touched by the single goroutine started by the constructor (run -> refillTokens/drainQueue)"},
	{"udp.ListenConfig", "Backlog", "config", "caller-owned configuration value: Listen defaults a zero Backlog on its own receiver before the listener exists; not one of the shared objects of the property"},
	{"vnet.chunkIP", "timestamp", "message", "chunk objects are mutated only while exclusively owned (fresh from WriteTo/Clone, or handed to Router.push) and travel through locked queues"},
	{"vnet.chunkIP", "sourceIP", "message", "see chunkIP.timestamp"},
	{"vnet.chunkIP", "destinationIP", "message", "see chunkIP.timestamp"},
	{"vnet.chunkUDP", "sourcePort", "message", "see chunkIP.timestamp"},
	{"vnet.chunkUDP", "destinationPort", "message", "see chunkIP.timestamp"},
	{"vnet.chunkUDP", "chunkIP", "message", "see chunkIP.timestamp"},
	{"vnet.chunkUDP", "userData", "message", "payload set by WriteTo on the chunk it has just created"},
	{"vnet.chunkTCP", "sourcePort", "message", "see chunkIP.timestamp"},
	{"vnet.chunkTCP", "destinationPort", "message", "see chunkIP.timestamp"},
	{"vnet.chunkTCP", "chunkIP", "message", "see chunkIP.timestamp"},
}

var c19SetupAPI = map[string]bool{
	"vnet.NewRouter": true, "vnet.NewNet": true, "(*vnet.Router).AddRouter": true, "(*vnet.Router).AddChildRouter": true,
	"(*vnet.Router).AddNet": true, "(*vnet.Router).addNIC": true, "(*vnet.Router).setRouter": true, "(*vnet.Net).setRouter": true,
	"(*vnet.resolver).setParent": true, "vnet.NewTokenBucketFilter": true, "vnet.TBFQueueSizeInBytes$1": true,
}

// owner-locked types (R2): fields of T are guarded by the mutex of an object of type Owner.
var c19Owned = map[string]string{
	"vnet.mapping": "vnet.networkAddressTranslator",
}

func runC19(c *Ctx) {
	p := c.P
	la := computeLocksets(p)

	// R8 the batch writer keeps no reference to the caller's payload: the message it queues is sent later, by the
	// flush goroutine or another writer, while the caller is free to reuse its buffer as soon as WriteTo returned
	if enq := p.Func("udp", "BatchConn", "enqueueMessage"); enq != nil && len(enq.Params) > 1 {
		o8 := c.Obl("R8", fname(enq), "the batch writer copies the caller's payload into the queued message and retains no part of the caller's slice (the batch is flushed later from another goroutine)", 1)
		o8.Site(enq.Pos(), "payload parameter %s", enq.Params[1].Name())
		for _, sk := range retainedBy(p, enq, 1, nil) {
			o8.Fail(sk.In.Pos(), "the queued batch message keeps a reference to the caller's buffer (%s): the flush reads it after WriteTo returned, unordered with the caller's next write to that buffer", sk.Why)
		}
	}

	// struct types of the concurrent packages
	mutexFields := map[string][]string{} // T -> names of mutex fields
	allStructs := map[string]*types.Struct{}
	for pk := range c19Pkgs {
		pkg := p.Pkgs[pk]
		if pkg == nil {
			c.Obl("R0", pk, "package of the concurrent API is loaded", 1).Undecide("package %s not loaded", pk)
			continue
		}
		sc := pkg.Types.Scope()
		for _, n := range sc.Names() {
			tn, ok := sc.Lookup(n).(*types.TypeName)
			if !ok {
				continue
			}
			st, ok := tn.Type().Underlying().(*types.Struct)
			if !ok {
				continue
			}
			name := pk + "." + n
			allStructs[name] = st
			for i := 0; i < st.NumFields(); i++ {
				if isMutexType(st.Field(i).Type()) {
					mutexFields[name] = append(mutexFields[name], st.Field(i).Name())
				}
			}
		}
	}
	scope := c.Obl("R0", "lock-bearing-types", "struct types with a sync.Mutex/RWMutex field in vnet, packetio, deadline, udp, dpipe are found", 12)
	if p.Cfg.GOOS == "js" {
		scope.MinSites = 13
	}
	for _, t := range sortedMapKeys(mutexFields) {
		scope.Sites = append(scope.Sites, fmt.Sprintf("%s (mutex: %s)", t, strings.Join(mutexFields[t], ",")))
	}

	ac := &accessCollector{tracked: func(s string) bool { _, ok := allStructs[s]; return ok }}
	ac.collect(p)

	type key struct{ T, F string }
	by := map[key][]access{}
	for _, a := range ac.out {
		by[key{a.T, a.F}] = append(by[key{a.T, a.F}], a)
	}
	exempt := map[key]exemption{}
	for _, e := range c19Exempt {
		// the token counter is identified by its role (the float64 field of the filter), not by its name
		if e.T == "vnet.TokenBucketFilter" && e.F == "currentTokensInBucket" {
			if st := allStructs[e.T]; st != nil {
				for i := 0; i < st.NumFields(); i++ {
					if b, ok := st.Field(i).Type().(*types.Basic); ok && b.Kind() == types.Float64 {
						e.F = st.Field(i).Name()
					}
				}
			}
		}
		exempt[key{e.T, e.F}] = e
	}
	var keys []key
	for k := range by {
		keys = append(keys, k)
	}
	sort.Slice(keys, func(i, j int) bool {
		if keys[i].T != keys[j].T {
			return keys[i].T < keys[j].T
		}
		return keys[i].F < keys[j].F
	})

	immut := c.Obl("R1", "immutable-fields", "fields never written after construction need no lock (listed for the record)", 1)
	nMutable := 0
	usedExempt := map[key]bool{}
	for _, k := range keys {
		accs := by[k]
		mutable, atomicUse := false, false
		for _, a := range accs {
			if a.Kind == 'W' && !a.Fresh {
				mutable = true
			}
			if a.Kind == 'A' {
				atomicUse = true
			}
		}
		// fields of self-synchronising types are not data
		if st := allStructs[k.T]; st != nil {
			skip := false
			for i := 0; i < st.NumFields(); i++ {
				if st.Field(i).Name() == k.F && isSyncType(st.Field(i).Type()) {
					skip = true
				}
			}
			if skip {
				continue
			}
		}
		if atomicUse {
			o := c.Obl("R3", k.T+"."+k.F, "a word accessed with sync/atomic is never accessed plainly", 1)
			for _, a := range accs {
				o.Site(a.In.Pos(), "%c in %s", a.Kind, fname(a.In.Parent()))
				if a.Kind != 'A' && !a.Fresh {
					o.Fail(a.In.Pos(), "plain %s of %s.%s in %s, elsewhere accessed atomically", rw(a.Kind), k.T, k.F, fname(a.In.Parent()))
				}
			}
			continue
		}
		if !mutable {
			immut.Sites = append(immut.Sites, fmt.Sprintf("%s.%s (%d accesses)", k.T, k.F, len(accs)))
			continue
		}
		nMutable++
		if ex, ok := exempt[k]; ok {
			usedExempt[k] = true
			c19CheckExemption(c, p, la, ex, accs)
			continue
		}
		owner, owned := c19Owned[k.T]
		mfs := mutexFields[k.T]
		if len(mfs) == 0 && !owned {
			o := c.Obl("R1", k.T+"."+k.F, "a field written after construction belongs to a type with a mutex, an owner lock, or a verified exemption", 1)
			for _, a := range accs {
				if a.Kind == 'W' && !a.Fresh {
					o.Site(a.In.Pos(), "W in %s", fname(a.In.Parent()))
					o.Fail(a.In.Pos(), "%s.%s is written in %s but %s has no mutex and no exemption: unsynchronised mutable state", k.T, k.F, fname(a.In.Parent()), k.T)
				}
			}
			continue
		}
		rule := "R1"
		desc := "every access to a field written after construction holds the object's mutex (writes exclusively)"
		if owned {
			rule = "R2"
			desc = "fields of an owned type are accessed only under the owner's mutex (writes exclusively)"
		}
		o := c.Obl(rule, k.T+"."+k.F, desc, 1)
		for _, a := range accs {
			if a.Fresh {
				o.Site(a.In.Pos(), "%c in %s (constructor context, exempt)", a.Kind, fname(a.In.Parent()))
				continue
			}
			needW := a.Kind == 'W'
			ok := false
			var want []string
			if owned {
				ok = la.holdsOwner(a.In, owner, needW)
				want = append(want, "a "+owner+" mutex")
			} else {
				bp := accessPath(a.Base)
				for _, mf := range mfs {
					want = append(want, bp+"."+mf)
					if la.holds(a.In, bp+"."+mf, needW) || la.holdsAtOriginSite(a.In, a.Base, mf, needW) {
						ok = true
					}
				}
			}
			o.Site(a.In.Pos(), "%c in %s held=%s", a.Kind, fname(a.In.Parent()), la.heldAt(a.In))
			if !ok {
				mode := ""
				if needW {
					mode = " exclusively"
				}
				o.Fail(a.In.Pos(), "%s of %s.%s%s in %s without holding %s%s (held: %s)", rw(a.Kind), k.T, k.F, elemNote(a), fname(a.In.Parent()),
					strings.Join(want, " or "), mode, la.heldAt(a.In))
			}
		}
	}
	// exemption entries that no longer correspond to a mutable field are simply unused (not an error)
	_ = usedExempt

	c19Globals(c, p, la)
	c19FreeCells(c, p)
	c19CloseSend(c, p, la)

	// R6 lock balance for every function of the scope that touches a lock
	nBal := 0
	for _, f := range p.Funcs {
		if !c19Pkgs[pkgOf(f)] {
			continue
		}
		has := false
		instrsOf(f, func(in ssa.Instruction) {
			if ci, ok := in.(ssa.CallInstruction); ok {
				if op, _ := lockOp(ci); op != "" {
					has = true
				}
			}
		})
		if !has {
			continue
		}
		nBal++
		o := c.Obl("R6", fname(f), "locks acquired are released on every path (lock balance)", 1)
		la.lockBalance(o, f)
	}
	if nBal < 30 {
		c.Obl("R6", "floor", "functions with lock operations are found", 1).Undecide("only %d functions with lock operations found (floor 30)", nBal)
	}
}

func rw(k byte) string {
	switch k {
	case 'W':
		return "write"
	case 'A':
		return "atomic access"
	}
	return "read"
}

func elemNote(a access) string {
	if a.Elem {
		return " (element)"
	}
	return ""
}

func sortedMapKeys[V any](m map[string]V) []string {
	var out []string
	for k := range m {
		out = append(out, k)
	}
	sort.Strings(out)
	return out
}

func c19CheckExemption(c *Ctx, p *Prog, la *lockAnalysis, ex exemption, accs []access) {
	o := c.Obl("R5", ex.T+"."+ex.F, "exempted field ("+ex.Kind+"): "+ex.Reason+" — side condition verified", 1)
	cg := p.CG()
	switch ex.Kind {
	case "setup":
		for _, a := range accs {
			if a.Kind != 'W' || a.Fresh {
				continue
			}
			fn := fname(a.In.Parent())
			o.Site(a.In.Pos(), "W in %s", fn)
			// a private helper called only (statically) from the topology-building API belongs to it
			var viaAPI func(f *ssa.Function, d int) bool
			viaAPI = func(f *ssa.Function, d int) bool {
				if c19SetupAPI[fname(f)] {
					return true
				}
				if d > 3 || !isPrivateHelper(f) || len(cg.In[f]) == 0 {
					return false
				}
				for _, e := range cg.In[f] {
					if e.Kind != "static" || !viaAPI(e.From, d+1) {
						return false
					}
				}
				return true
			}
			if !viaAPI(a.In.Parent(), 0) {
				o.Fail(a.In.Pos(), "%s.%s is exempt as set-up-phase state but is written in %s, which is not part of the topology-building API", ex.T, ex.F, fn)
			}
		}
	case "config":
		for _, a := range accs {
			if a.Kind != 'W' || a.Fresh {
				continue
			}
			f := a.In.Parent()
			o.Site(a.In.Pos(), "W in %s", fname(f))
			if fname(f) != "(*udp.ListenConfig).Listen" || len(f.Params) == 0 || rootOf(a.Base) != ssa.Value(f.Params[0]) {
				o.Fail(a.In.Pos(), "%s.%s (configuration value) is written in %s, not by Listen on its own receiver", ex.T, ex.F, fname(f))
			}
		}
	case "confined":
		// every accessor must be reachable only from one function that is started exactly
		// once, by a go statement, from a constructor.
		accessors := map[*ssa.Function]bool{}
		for _, a := range accs {
			if !a.Fresh {
				accessors[a.In.Parent()] = true
				o.Site(a.In.Pos(), "%c in %s", a.Kind, fname(a.In.Parent()))
			}
		}
		// the goroutine root: the unique function entered by a go statement from which every accessor is reached
		var root *ssa.Function
		for f := range accessors {
			for g := range cg.callersClosure(f) {
				ins := cg.In[g]
				if len(ins) == 1 && ins[0].Kind == "go" {
					if root != nil && root != g {
						o.Fail(f.Pos(), "%s.%s is exempt as goroutine-confined but its accessors are reached from two goroutines (%s and %s)", ex.T, ex.F, fname(root), fname(g))
					}
					root = g
				}
			}
		}
		if root == nil {
			o.Fail(token.NoPos, "%s.%s is exempt as goroutine-confined but no single goroutine entered by one go statement reaches its accessors", ex.T, ex.F)
			break
		}
		inside := cg.reachableFrom([]*ssa.Function{root}, func(e cgEdge) bool { return e.Kind == "static" || e.Kind == "defer" })
		for f := range accessors {
			if !inside[f] {
				o.Fail(f.Pos(), "%s.%s is exempt as goroutine-confined but accessor %s is not reached from the goroutine %s", ex.T, ex.F, fname(f), fname(root))
				continue
			}
			// every way into the accessor (transitively) must come from inside that goroutine
			for g := range cg.callersClosure(f) {
				if g == root || !inside[g] {
					if g != root && !(len(cg.In[g]) == 0) && !reachesOnlyVia(cg, g, root) {
						o.Fail(f.Pos(), "%s.%s is exempt as goroutine-confined but accessor %s is reachable from %s, outside the single goroutine %s started by the constructor", ex.T, ex.F, fname(f), fname(g), fname(root))
					}
					continue
				}
				for _, e := range cg.In[g] {
					if !inside[e.From] && e.From != root {
						o.Fail(e.Site.Pos(), "%s.%s is exempt as goroutine-confined but %s (which reaches accessor %s) is also called from %s, outside the goroutine %s", ex.T, ex.F, fname(g), fname(f), fname(e.From), fname(root))
					}
				}
			}
		}
	case "message":
		for _, a := range accs {
			if a.Kind != 'W' || a.Fresh {
				continue
			}
			f := a.In.Parent()
			o.Site(a.In.Pos(), "W in %s", fname(f))
			// allowed: a method of the chunk type on its receiver, or WriteTo filling the chunk it created
			recvOK := f.Signature.Recv() != nil && len(f.Params) > 0 && rootOf(a.Base) == ssa.Value(f.Params[0]) &&
				strings.HasPrefix(typeName(f.Params[0].Type()), "vnet.chunk")
			freshFromNew := false
			if call, ok := rootOf(a.Base).(*ssa.Call); ok {
				if n := callName(call); n == "vnet.newChunkUDP" || n == "vnet.newChunkTCP" {
					freshFromNew = true
				}
			}
			if !recvOK && !freshFromNew {
				o.Fail(a.In.Pos(), "%s.%s (message object) is written in %s on an object that is neither the method's own receiver nor freshly created", ex.T, ex.F, fname(f))
				continue
			}
			if recvOK {
				// every caller must own the chunk exclusively: receiver fresh (Clone result / new) or Router.push's parameter
				for _, e := range cg.In[f] {
					ci, ok := e.Site.(ssa.CallInstruction)
					if !ok {
						continue
					}
					args := callArgs(ci)
					if len(args) == 0 {
						continue
					}
					recv := args[0]
					okOwner := derivesFrom(recv, func(v ssa.Value) bool {
						if call, ok := v.(*ssa.Call); ok {
							n := callName(call)
							return strings.HasSuffix(n, ".Clone") || n == "vnet.newChunkUDP" || n == "vnet.newChunkTCP"
						}
						return false
					}, false)
					if !okOwner && fname(e.From) == "(*vnet.Router).push" && f.Name() == "setTimestamp" {
						okOwner = true // the chunk handed to push is owned by the router from here on
					}
					if !okOwner && strings.HasPrefix(typeName(e.From.Signature.Recv().Type()), "vnet.chunk") {
						okOwner = true // chunk method calling a sibling method on itself
					}
					if !okOwner {
						o.Fail(e.Site.Pos(), "%s mutates a chunk in %s that is not provably exclusively owned (not a fresh Clone/new chunk)", fname(f), fname(e.From))
					}
				}
			}
		}
	}
}

// c19Globals: R4 — package-level variables written at run time.
func c19Globals(c *Ctx, p *Prog, la *lockAnalysis) {
	type guse struct {
		kind byte
		in   ssa.Instruction
	}
	uses := map[*ssa.Global][]guse{}
	for _, f := range p.Funcs {
		isInit := f.Name() == "init" && f.Parent() == nil
		instrsOf(f, func(in ssa.Instruction) {
			for _, op := range in.Operands(nil) {
				g, ok := (*op).(*ssa.Global)
				if !ok || g.Pkg == nil || !c19Pkgs[shortPkg(g.Pkg.Pkg.Path())] {
					continue
				}
				kind := byte('R')
				switch x := in.(type) {
				case *ssa.Store:
					if sameOrigin(x.Addr, ssa.Value(g)) {
						kind = 'W'
					}
				case *ssa.UnOp:
					kind = 'R'
				case ssa.CallInstruction:
					if isAtomicCall(x) {
						kind = 'A'
					} else {
						kind = 'W' // address escapes into a call
					}
				default:
					kind = 'W'
				}
				if isInit {
					kind = 'I'
				}
				uses[g] = append(uses[g], guse{kind, in})
			}
		})
	}
	var gs []*ssa.Global
	for g := range uses {
		gs = append(gs, g)
	}
	sort.Slice(gs, func(i, j int) bool { return gs[i].String() < gs[j].String() })
	// a package variable that holds a stateful object of the standard library that is documented as not safe for
	// concurrent use (a *rand.Rand of its own, a bytes.Buffer, ...): the per-object mutexes of the callers do not
	// order two objects' calls into it; only a package-level lock does
	unsafeStd := map[string]bool{"math/rand.Rand": true, "math/rand/v2.Rand": true, "bytes.Buffer": true, "strings.Builder": true, "bufio.Reader": true, "bufio.Writer": true, "bufio.ReadWriter": true}
	for _, g := range gs {
		pt, ok := g.Type().Underlying().(*types.Pointer)
		if !ok {
			continue
		}
		et := pt.Elem()
		if p2, ok := et.Underlying().(*types.Pointer); ok {
			et = p2.Elem()
		}
		n := namedOf(et)
		if n == nil || n.Obj().Pkg() == nil || !unsafeStd[n.Obj().Pkg().Path()+"."+n.Obj().Name()] {
			continue
		}
		name := shortPkg(g.Pkg.Pkg.Path()) + "." + g.Name()
		o := c.Obl("R4u", name, "a package variable holding a standard-library object that is not safe for concurrent use is used only under a package-level lock", 1)
		for _, u := range uses[g] {
			if u.kind == 'I' {
				continue
			}
			o.Site(u.in.Pos(), "use in %s held=%s", fname(u.in.Parent()), la.heldAt(u.in))
			okLock := false
			for path := range la.heldAt(u.in) {
				if strings.HasPrefix(path, "global:") {
					okLock = true
				}
			}
			if !okLock {
				o.Fail(u.in.Pos(), "%s (a %s.%s, not safe for concurrent use) is used in %s without a package-level lock: the mutex of one object does not order the calls made on behalf of another", name, n.Obj().Pkg().Name(), n.Obj().Name(), fname(u.in.Parent()))
			}
		}
	}
	all := c.Obl("R4", "package-variables", "package-level variables of the concurrent packages are enumerated; those never written after initialisation need no synchronisation", 5)
	for _, g := range gs {
		runtimeW, atomicUse := false, false
		for _, u := range uses[g] {
			if u.kind == 'W' {
				runtimeW = true
			}
			if u.kind == 'A' {
				atomicUse = true
			}
		}
		name := shortPkg(g.Pkg.Pkg.Path()) + "." + g.Name()
		if !runtimeW && !atomicUse {
			all.Sites = append(all.Sites, name+" (init-only)")
			continue
		}
		o := c.Obl("R4", name, "a package variable written at run time is accessed only atomically or under one lock", 1)
		for _, u := range uses[g] {
			if u.kind == 'I' {
				continue
			}
			o.Site(u.in.Pos(), "%c in %s", u.kind, fname(u.in.Parent()))
			if u.kind == 'A' {
				continue
			}
			if len(la.heldAt(u.in)) == 0 || atomicUse {
				o.Fail(u.in.Pos(), "unsynchronised %s of package variable %s in %s (variable is modified at run time)", rw(u.kind), name, fname(u.in.Parent()))
			}
		}
	}
}

// c19FreeCells: R3 for captured local counters (tagCtr, routerIDCtr): a captured
// variable that is accessed with sync/atomic is never accessed plainly.
func c19FreeCells(c *Ctx, p *Prog) {
	for _, f := range p.Funcs {
		if !c19Pkgs[pkgOf(f)] {
			continue
		}
		for _, fv := range f.FreeVars {
			refs := fv.Referrers()
			if refs == nil {
				continue
			}
			atomicUse := false
			for _, r := range *refs {
				if ci, ok := r.(ssa.CallInstruction); ok && isAtomicCall(ci) {
					atomicUse = true
				}
			}
			if !atomicUse {
				continue
			}
			o := c.Obl("R3", fname(f)+":"+fv.Name(), "a captured variable accessed with sync/atomic is never accessed plainly", 1)
			for _, r := range *refs {
				if ci, ok := r.(ssa.CallInstruction); ok && isAtomicCall(ci) {
					o.Site(r.Pos(), "atomic in %s", fname(f))
					continue
				}
				if _, ok := r.(*ssa.DebugRef); ok {
					continue
				}
				o.Site(r.Pos(), "plain use in %s", fname(f))
				o.Fail(r.Pos(), "plain access to captured variable %s in %s, elsewhere accessed atomically", fv.Name(), fname(f))
			}
		}
	}
}

// reachesOnlyVia: g reaches the accessors only by starting root (it is the constructor that
// spawns the goroutine, or one of its callers).
func reachesOnlyVia(cg *cgraph, g, root *ssa.Function) bool {
	for _, e := range cg.Out[g] {
		if e.To == root && e.Kind == "go" {
			return true
		}
	}
	// callers of the spawner
	seen := map[*ssa.Function]bool{}
	var rec func(x *ssa.Function) bool
	rec = func(x *ssa.Function) bool {
		if seen[x] {
			return false
		}
		seen[x] = true
		for _, e := range cg.Out[x] {
			if e.To == root && e.Kind == "go" {
				return true
			}
			if e.Kind != "go" && rec(e.To) {
				return true
			}
		}
		return false
	}
	return rec(g)
}

// c19CloseSend: a channel field that is closed under a mutex is only sent on under a mutex of the same owner:
// otherwise send and close are an unordered pair (the race detector reports it, and the send can panic).
func c19CloseSend(c *Ctx, p *Prog, la *lockAnalysis) {
	type site struct {
		in     ssa.Instruction
		owners map[string]bool
	}
	closes := map[string][]site{}
	sends := map[string][]site{}
	ownersAt := func(in ssa.Instruction) map[string]bool {
		m := map[string]bool{}
		for _, e := range la.heldAt(in) {
			if e.Owner != "" {
				m[e.Owner] = true
			}
		}
		return m
	}
	for _, f := range p.Funcs {
		if !c19Pkgs[pkgOf(f)] {
			continue
		}
		for _, fn := range withClosures(f) {
			if fn != f && fn.Parent() == nil {
				continue
			}
			instrsOf(fn, func(in ssa.Instruction) {
				if ci, ok := in.(ssa.CallInstruction); ok && callName(ci) == "builtin.close" {
					if role := chanRole(ci.Common().Args[0]); strings.HasPrefix(role, "field ") {
						closes[role] = append(closes[role], site{in, ownersAt(in)})
					}
				}
			})
			for _, cm := range commsOf(fn) {
				if cm.Dir != types.SendOnly {
					continue
				}
				if role := chanRole(cm.Chan); strings.HasPrefix(role, "field ") {
					sends[role] = append(sends[role], site{cm.Instr, ownersAt(cm.Instr)})
				}
			}
		}
	}
	var roles []string
	for role := range closes {
		if len(sends[role]) > 0 {
			roles = append(roles, role)
		}
	}
	sort.Strings(roles)
	seenSite := map[ssa.Instruction]bool{}
	for _, role := range roles {
		o := c.Obl("R7", strings.TrimPrefix(role, "field "), "a channel that is closed while a mutex is held is sent on only while a mutex of the same object type is held (send and close are ordered)", 1)
		need := map[string]bool{}
		for _, cl := range closes[role] {
			o.Site(cl.in.Pos(), "close in %s", fname(cl.in.Parent()))
			for ow := range cl.owners {
				need[ow] = true
			}
		}
		if len(need) == 0 {
			continue // closed without a lock: ordering is established otherwise (sync.Once, a flag), not by this rule
		}
		for _, sd := range sends[role] {
			if seenSite[sd.in] {
				continue
			}
			seenSite[sd.in] = true
			o.Site(sd.in.Pos(), "send in %s", fname(sd.in.Parent()))
			ok := false
			for ow := range sd.owners {
				if need[ow] {
					ok = true
				}
			}
			if !ok {
				o.Fail(sd.in.Pos(), "%s sends on %s without the mutex under which it is closed: an unordered send/close pair (data race, send on closed channel)", fname(sd.in.Parent()), strings.TrimPrefix(role, "field "))
			}
		}
	}
}

// inPackageInit: the instruction belongs to the package initialiser (the synthetic init that evaluates package-level
// variable declarations): it runs once, before any goroutine of the program can touch the package.
func inPackageInit(in ssa.Instruction) bool {
	f := in.Parent()
	return f != nil && f.Name() == "init" && f.Synthetic != "" && f.Signature.Recv() == nil
}
