package main

// C20 — utils/xor.XorBytes: build-constraint partition, delegation shape of the active
// definition, and structural rules for the legacy implementations.

import (
	"fmt"
	"go/ast"
	"go/build/constraint"
	"go/constant"
	"go/importer"
	"go/parser"
	"go/token"
	"go/types"
	"os"
	"path/filepath"
	"sort"
	"strings"

	"golang.org/x/tools/go/packages"
	"golang.org/x/tools/go/ssa"
	"golang.org/x/tools/go/ssa/ssautil"
)

type xorFile struct {
	Name     string
	Expr     constraint.Expr
	ArchImpl string // GOARCH implied by the file name suffix ("" = none)
	Defines  bool
	HasASM   bool
	funcs    map[string]*ast.FuncDecl
}

var knownArch = map[string]bool{"386": true, "amd64": true, "arm": true, "arm64": true, "ppc64": true, "ppc64le": true, "s390x": true, "wasm": true, "mips": true, "riscv64": true, "loong64": true, "mips64": true, "mipsle": true, "mips64le": true}

// xorOverlay: file contents that replace what is on disk (the self-test analyses seeded variants this way).
var xorOverlay map[string][]byte

func readXorSource(path string) ([]byte, error) {
	if b, ok := xorOverlay[path]; ok {
		return b, nil
	}
	return os.ReadFile(path)
}

func readXorFiles() ([]xorFile, error) {
	dir := filepath.Join(repoDir(), "utils", "xor")
	ents, err := os.ReadDir(dir)
	if err != nil {
		return nil, err
	}
	var out []xorFile
	for _, e := range ents {
		n := e.Name()
		if !strings.HasSuffix(n, ".go") || strings.HasSuffix(n, "_test.go") {
			continue
		}
		src, err := readXorSource(filepath.Join(dir, n))
		if err != nil {
			return nil, err
		}
		xf := xorFile{Name: n}
		fset := token.NewFileSet()
		af, err := parser.ParseFile(fset, n, src, parser.ParseComments)
		if err != nil {
			return nil, err
		}
		for _, cg := range af.Comments {
			if cg.Pos() > af.Package {
				break
			}
			for _, cm := range cg.List {
				if constraint.IsGoBuild(cm.Text) {
					ex, err := constraint.Parse(cm.Text)
					if err == nil {
						xf.Expr = ex
					}
				}
			}
		}
		xf.funcs = map[string]*ast.FuncDecl{}
		for _, d := range af.Decls {
			if fd, ok := d.(*ast.FuncDecl); ok && fd.Recv == nil && fd.Body != nil {
				xf.funcs[fd.Name.Name] = fd
			}
		}
		base := strings.TrimSuffix(n, ".go")
		parts := strings.Split(base, "_")
		if len(parts) > 1 && knownArch[parts[len(parts)-1]] {
			xf.ArchImpl = parts[len(parts)-1]
		}
		out = append(out, xf)
	}
	sort.Slice(out, func(i, j int) bool { return out[i].Name < out[j].Name })
	// the entry point may be a thin wrapper in an unconstrained file that hands its arguments to the function the
	// constrained files define (XorBytes -> xorBytes): the partition rules then apply to that function
	xorEntry, xorWrapperFile = "XorBytes", ""
	var defs []int
	for i := range out {
		if out[i].funcs["XorBytes"] != nil {
			defs = append(defs, i)
		}
	}
	if len(defs) == 1 && out[defs[0]].Expr == nil && out[defs[0]].ArchImpl == "" {
		if g := pureForward(out[defs[0]].funcs["XorBytes"]); g != "" {
			xorEntry, xorWrapperFile = g, out[defs[0]].Name
		}
	}
	for i := range out {
		out[i].Defines = out[i].funcs[xorEntry] != nil
	}
	return out, nil
}

// xorEntry: the function whose definitions are partitioned by build constraints (XorBytes, or the function an
// unconstrained XorBytes forwards to); xorWrapperFile: the file of that forwarding XorBytes.
var xorEntry, xorWrapperFile = "XorBytes", ""

// pureForward: the body is `return g(p1, ..., pn)` with the function's own parameters in order; returns g.
func pureForward(fd *ast.FuncDecl) string {
	if fd == nil || fd.Body == nil || len(fd.Body.List) != 1 {
		return ""
	}
	rs, ok := fd.Body.List[0].(*ast.ReturnStmt)
	if !ok || len(rs.Results) != 1 {
		return ""
	}
	call, ok := rs.Results[0].(*ast.CallExpr)
	if !ok || call.Ellipsis.IsValid() {
		return ""
	}
	g, ok := call.Fun.(*ast.Ident)
	if !ok {
		return ""
	}
	var params []string
	for _, fl := range fd.Type.Params.List {
		for _, nm := range fl.Names {
			params = append(params, nm.Name)
		}
	}
	if len(params) != len(call.Args) {
		return ""
	}
	for i, a := range call.Args {
		id, ok := a.(*ast.Ident)
		if !ok || id.Name != params[i] {
			return ""
		}
	}
	return g.Name
}

func runC20(c *Ctx) {
	p := c.P
	xorOverlay = p.Cfg.Overlay
	files, err := readXorFiles()
	o := c.Obl("R1", "utils/xor", "for every assignment of the build tags that occur (go1.20, gccgo) and every GOARCH class (arm / other) exactly one file defining XorBytes is selected", 3)
	if err != nil {
		o.Undecide("cannot read utils/xor: %v", err)
		return
	}
	tags := map[string]bool{}
	for _, f := range files {
		if f.Expr != nil {
			collectTags(f.Expr, tags)
		}
	}
	var tagList []string
	for t := range tags {
		if !knownArch[t] {
			tagList = append(tagList, t)
		}
	}
	sort.Strings(tagList)
	archs := []string{"arm", "amd64"}
	for t := range tags {
		if knownArch[t] && t != "arm" && t != "amd64" {
			archs = append(archs, t)
		}
	}
	nDef := 0
	for _, f := range files {
		if f.Defines {
			nDef++
			o.Sites = append(o.Sites, fmt.Sprintf("%s defines XorBytes (constraint: %v, arch suffix: %q)", f.Name, f.Expr, f.ArchImpl))
		}
	}
	if nDef == 0 {
		o.Fail(token.NoPos, "no file of utils/xor defines XorBytes")
	}
	for _, arch := range archs {
		for m := 0; m < 1<<len(tagList); m++ {
			on := map[string]bool{arch: true}
			var desc []string
			desc = append(desc, "GOARCH="+arch)
			for i, t := range tagList {
				if m&(1<<i) != 0 {
					on[t] = true
					desc = append(desc, t)
				} else {
					desc = append(desc, "!"+t)
				}
			}
			var sel []string
			for _, f := range files {
				if !f.Defines {
					continue
				}
				if f.ArchImpl != "" && f.ArchImpl != arch {
					continue
				}
				if f.Expr != nil && !f.Expr.Eval(func(tag string) bool { return on[tag] }) {
					continue
				}
				sel = append(sel, f.Name)
			}
			if len(sel) != 1 {
				o.Fail(token.NoPos, "under %s the files defining XorBytes that are selected are %v (must be exactly one: the package does not build or silently uses another implementation)", strings.Join(desc, " "), sel)
			}
		}
	}

	// R2 the active definition in this configuration
	f := p.Func("utils/xor", "", xorEntry)
	if xorWrapperFile != "" {
		// the exported entry must really be the forwarding function (checked on the type-checked program)
		ow := c.Obl("R2w", "utils/xor.XorBytes", "the exported XorBytes hands its three arguments in order to the build-constrained implementation and returns its result", 1)
		w := p.Func("utils/xor", "", "XorBytes")
		okW := false
		if w != nil && f != nil && len(w.Blocks) == 1 {
			var call *ssa.Call
			n := 0
			for _, in := range w.Blocks[0].Instrs {
				switch x := in.(type) {
				case *ssa.Call:
					call = x
					n++
				case *ssa.Return:
					okW = n == 1 && call != nil && call.Call.StaticCallee() == f && len(x.Results) == 1 && x.Results[0] == ssa.Value(call) && len(call.Call.Args) == len(w.Params)
					if okW {
						for i, a := range call.Call.Args {
							if a != ssa.Value(w.Params[i]) {
								okW = false
							}
						}
					}
				case *ssa.DebugRef:
				default:
					n += 10
				}
			}
		}
		ow.Site(token.NoPos, "%s forwards to %s", xorWrapperFile, xorEntry)
		if !okW {
			ow.Fail(token.NoPos, "XorBytes in %s is not a pure forwarding call of %s", xorWrapperFile, xorEntry)
		}
	}
	o = c.Obl("R2", "utils/xor.XorBytes@"+p.Cfg.String(), "the definition active in this configuration either is a pure delegation return subtle.XORBytes(dst, a, b), or satisfies the legacy structural rules (n = min, early return on 0, every arm gets (dst,a,b,n), element-wise loops over exactly [0,n))", 1)
	if f == nil {
		o.Undecide("XorBytes not found in configuration %s", p.Cfg)
		return
	}
	o.Site(f.Pos(), "%s", p.Pos(f.Pos()))
	if isDelegation(f) {
		checkDelegation(o, f)
	} else if callsSubtle(f) && hasEffectsBesidesCalls(f) {
		o.Fail(f.Pos(), "XorBytes delegates to crypto/subtle.XORBytes but is not the pure delegation 'return subtle.XORBytes(dst, a, b)': extra statements change the result, other bytes of dst, or the aliasing behaviour")
	} else {
		legacyXorRules(o, f, p.Fset)
	}

	// R3 legacy files that no available toolchain selects: stand-alone type check
	if c.Tier == "thorough" || true {
		for _, xf := range files {
			if !xf.Defines || xf.Name == filepath.Base(p.Fset.Position(f.Pos()).Filename) {
				continue
			}
			if xf.ArchImpl != "" {
				continue // covered by the linux/arm configuration of the thorough tier
			}
			ol := c.Obl("R3", "utils/xor/"+xf.Name, "legacy implementation (stand-alone type check): n = min(len(a),len(b)), early return on n == 0, every dispatch arm receives (dst,a,b,n), n is returned, element-wise loops cover exactly [0,n)", 1)
			lf, lfset, lpkg, err := standaloneXor(xf.Name, files)
			if err != nil {
				ol.Undecide("stand-alone type check of %s failed: %v", xf.Name, err)
				continue
			}
			ol.Site(token.NoPos, "%s type-checked stand-alone", xf.Name)
			if isDelegation(lf) {
				checkDelegationNoPos(ol, lf)
			} else if callsSubtle(lf) {
				ol.Fail(token.NoPos, "%s: XorBytes calls crypto/subtle.XORBytes but is not a pure delegation", xf.Name)
			} else {
				withStandalone(lpkg, func() { legacyXorRules(ol, lf, lfset) })
			}
		}
	}
}

func collectTags(e constraint.Expr, out map[string]bool) {
	switch x := e.(type) {
	case *constraint.TagExpr:
		out[x.Tag] = true
	case *constraint.NotExpr:
		collectTags(x.X, out)
	case *constraint.AndExpr:
		collectTags(x.X, out)
		collectTags(x.Y, out)
	case *constraint.OrExpr:
		collectTags(x.X, out)
		collectTags(x.Y, out)
	}
}

func callsSubtle(f *ssa.Function) bool {
	found := false
	instrsOf(f, func(in ssa.Instruction) {
		if isCall(in, "crypto/subtle.XORBytes") {
			found = true
		}
	})
	return found
}

func isDelegation(f *ssa.Function) bool {
	return callsSubtle(f) && len(f.Blocks) == 1
}

func checkDelegation(o *Obligation, f *ssa.Function) {
	var call *ssa.Call
	n := 0
	for _, in := range f.Blocks[0].Instrs {
		switch x := in.(type) {
		case *ssa.Call:
			n++
			call = x
		case *ssa.Return:
			if call == nil || len(x.Results) != 1 || !sameOrigin(x.Results[0], ssa.Value(call)) {
				o.Fail(in.Pos(), "XorBytes does not return the delegate's result unchanged")
			}
		case *ssa.DebugRef:
		default:
			o.Fail(in.Pos(), "the delegating XorBytes contains another instruction: %s", in.String())
		}
	}
	if n != 1 || call == nil || callName(call) != "crypto/subtle.XORBytes" {
		o.Fail(f.Pos(), "XorBytes is not a single call of crypto/subtle.XORBytes")
		return
	}
	a := call.Call.Args
	if len(a) != 3 || !sameOrigin(a[0], ssa.Value(f.Params[0])) {
		o.Fail(call.Pos(), "the destination is not passed first")
		return
	}
	if !((sameOrigin(a[1], ssa.Value(f.Params[1])) && sameOrigin(a[2], ssa.Value(f.Params[2]))) || (sameOrigin(a[1], ssa.Value(f.Params[2])) && sameOrigin(a[2], ssa.Value(f.Params[1])))) {
		o.Fail(call.Pos(), "the two operands are not exactly (a, b)")
	}
}

// standaloneXor type-checks one file of utils/xor on its own and returns its XorBytes in SSA form.
// standaloneXor type-checks the legacy file together with the files of the directory that a build selecting it
// would also select (a tag assignment under which the file's constraint holds is searched), and builds SSA.
func standaloneXor(name string, files []xorFile) (*ssa.Function, *token.FileSet, *ssa.Package, error) {
	fset := token.NewFileSet()
	dir := filepath.Join(repoDir(), "utils", "xor")
	var target *xorFile
	tags := map[string]bool{}
	for i := range files {
		if files[i].Name == name {
			target = &files[i]
		}
		if files[i].Expr != nil {
			collectTags(files[i].Expr, tags)
		}
	}
	if target == nil {
		return nil, nil, nil, fmt.Errorf("%s not found", name)
	}
	var tagList []string
	for t := range tags {
		tagList = append(tagList, t)
	}
	sort.Strings(tagList)
	var chosen map[string]bool
	for m := 0; m < 1<<len(tagList) && chosen == nil; m++ {
		on := map[string]bool{}
		nArch := 0
		for i, t := range tagList {
			if m&(1<<i) != 0 {
				on[t] = true
				if knownArch[t] {
					nArch++
				}
			}
		}
		if nArch > 1 {
			continue
		}
		if target.ArchImpl != "" {
			on[target.ArchImpl] = true
		}
		if target.Expr == nil || target.Expr.Eval(func(tag string) bool { return on[tag] }) {
			// exactly one definition must be selected under this assignment
			nDef := 0
			for _, f := range files {
				if f.Defines && (f.Expr == nil || f.Expr.Eval(func(tag string) bool { return on[tag] })) && (f.ArchImpl == "" || on[f.ArchImpl]) {
					nDef++
				}
			}
			if nDef == 1 {
				chosen = on
			}
		}
	}
	if chosen == nil {
		return nil, nil, nil, fmt.Errorf("no tag assignment selects %s alone", name)
	}
	var afs []*ast.File
	for _, f := range files {
		if f.Name != name {
			if f.Expr != nil && !f.Expr.Eval(func(tag string) bool { return chosen[tag] }) {
				continue
			}
			if f.ArchImpl != "" && !chosen[f.ArchImpl] {
				continue
			}
		}
		src, err := readXorSource(filepath.Join(dir, f.Name))
		if err != nil {
			return nil, nil, nil, err
		}
		af, err := parser.ParseFile(fset, filepath.Join(dir, f.Name), src, parser.ParseComments)
		if err != nil {
			return nil, nil, nil, err
		}
		afs = append(afs, af)
	}
	pkg := types.NewPackage("xorlegacy", "xor")
	spkg, _, err := ssautil.BuildPackage(&types.Config{Importer: importer.ForCompiler(fset, "source", nil)}, fset, pkg, afs, ssa.InstantiateGenerics)
	if err != nil {
		return nil, nil, nil, err
	}
	f := spkg.Func(xorEntry)
	if f == nil {
		return nil, nil, nil, fmt.Errorf("no %s", xorEntry)
	}
	return f, fset, spkg, nil
}

// withStandalone runs fn with the helper index (private helpers, call sites) of a stand-alone package.
func withStandalone(spkg *ssa.Package, fn func()) {
	oldSites, oldProg, oldPkg := curSites, curProg, standalonePkg
	standalonePkg = spkg
	tmp := &Prog{Pkgs: map[string]*packages.Package{}, SPkgs: map[string]*ssa.Package{}}
	var add func(f *ssa.Function)
	add = func(f *ssa.Function) {
		if f == nil || f.Blocks == nil {
			return
		}
		tmp.Funcs = append(tmp.Funcs, f)
		for _, a := range f.AnonFuncs {
			add(a)
		}
	}
	var names []string
	for n := range spkg.Members {
		names = append(names, n)
	}
	sort.Strings(names)
	for _, n := range names {
		if f, ok := spkg.Members[n].(*ssa.Function); ok {
			add(f)
		}
	}
	buildCallSiteIndex(tmp)
	defer func() { curSites, curProg, standalonePkg = oldSites, oldProg, oldPkg }()
	fn()
}

// legacyXorRules checks a hand-written implementation, path by path (private helpers inlined).
func legacyXorRules(o *Obligation, f *ssa.Function, fset *token.FileSet) {
	pos := func(p token.Pos) string {
		ps := fset.Position(p)
		return fmt.Sprintf("%s:%d", filepath.Base(ps.Filename), ps.Line)
	}
	dst, a, b := f.Params[0], f.Params[1], f.Params[2]
	// the xor routines (dst, a, b, n) are roles of their own: not inlined
	savedEx := unitExclude
	defer func() { unitExclude = savedEx }()
	var routines []*ssa.Function
	if f.Pkg != nil {
		for _, m := range f.Pkg.Members {
			if g, ok := m.(*ssa.Function); ok && g.Signature.Params().Len() == 4 {
				routines = append(routines, g)
			}
		}
	}
	setUnitExclude(routines...)
	paths, ok := enumPathsU(f, 5000)
	if !ok {
		o.Undecide("%s: the paths of XorBytes could not be enumerated", pos(f.Pos()))
		return
	}
	lenA, lenB := linSym("len("+a.Name()+")"), linSym("len("+b.Name()+")")
	for _, in := range findU(f, func(in ssa.Instruction) bool { _, ok := in.(*ssa.Panic); return ok }) {
		o.Fail(token.NoPos, "%s: XorBytes panics explicitly: a destination of at least min(len(a), len(b)) bytes must be accepted (the only panic allowed is the bounds check of the xor routine itself)", pos(in.Pos()))
	}
	doneLoops := map[*ssa.Function]bool{}
	doneSub := false
	nPaths := 0
	for pi := range paths {
		pt := paths[pi]
		ret, isRet := pt.last().(*ssa.Return)
		if !isRet || ret.Parent() != f || len(ret.Results) != 1 {
			continue
		}
		nPaths++
		pf := evalPath(pt)
		// which of the two lengths is the minimum on this path
		var min linForm
		switch {
		case pf.hasIneq(lenA.add(lenB, -1)), pf.hasIneq(lenA.add(lenB, -1).add(linConst(1), 1)): // len(b) < len(a), len(b) <= len(a)
			min = lenB
		case pf.hasIneq(lenB.add(lenA, -1)), pf.hasIneq(lenB.add(lenA, -1).add(linConst(1), 1)): // len(a) < len(b), len(a) <= len(b)
			min = lenA
		default:
			o.Fail(token.NoPos, "%s: a path of XorBytes returns without having compared len(%s) with len(%s): n is not the minimum", pos(ret.Pos()), a.Name(), b.Name())
			continue
		}
		nForm := pf.w.lin(ret.Results[0])
		minZero := pf.hasEq(min, true)
		if !minZero && min.OK {
			// n < 1, n <= 0, !(n > 0): the same for a length
			for _, l := range pf.lits {
				if l.A.Eq {
					continue
				}
				if (l.Pol && l.A.Form.eq(min.scale(-1).add(linConst(1), 1))) || (!l.Pol && l.A.Form.eq(min)) {
					minZero = true
				}
			}
		}
		// dispatch calls on the path
		type disp struct {
			call *ssa.Call
			idx  int
			fn   *ssa.Function
		}
		var ds []disp
		for idx, in := range pt.Instrs {
			if cl, ok := in.(*ssa.Call); ok {
				sc := cl.Call.StaticCallee()
				if sc == nil && !cl.Call.IsInvoke() {
					// the routine was chosen into a variable: the path knows which one
					sc, _ = strip(pt.valueAt(cl.Call.Value, idx)).(*ssa.Function)
				}
				if sc != nil && sc.Pkg == f.Pkg && sc.Signature.Params().Len() == 4 {
					ds = append(ds, disp{cl, idx, sc})
				}
				if callName(cl) == "crypto/subtle.XORBytes" && len(cl.Call.Args) == 3 {
					ds = append(ds, disp{cl, idx, nil}) // the standard routine, given prefixes of a and b
				}
			}
		}
		// the standard routine as the one xor routine of the path: it is handed dst and a, b or their prefixes of
		// length n, and its result (the minimum of the two lengths it is given) is n
		if len(ds) == 1 && ds[0].fn == nil {
			cl, idx := ds[0].call, ds[0].idx
			okArgs := sameOrigin(pt.valueAt(cl.Call.Args[0], idx), ssa.Value(dst))
			seenA, seenB := false, false
			for _, av := range cl.Call.Args[1:] {
				v := pt.valueAt(av, idx)
				if sl, isSl := v.(*ssa.Slice); isSl {
					if sl.Low != nil {
						if k, isC := constInt(sl.Low); !isC || k != 0 {
							okArgs = false
						}
					}
					if sl.High == nil || !pf.w.lin(pt.valueAt(sl.High, idx)).eq(min) {
						okArgs = false
					}
					v = pt.valueAt(sl.X, idx)
				}
				switch {
				case sameOrigin(v, ssa.Value(a)):
					seenA = true
				case sameOrigin(v, ssa.Value(b)):
					seenB = true
				default:
					okArgs = false
				}
			}
			if !okArgs || !seenA || !seenB {
				o.Fail(token.NoPos, "%s: crypto/subtle.XORBytes is not given dst and a, b (or their prefixes of length n)", pos(cl.Pos()))
				continue
			}
			if minZero {
				continue
			}
			if rv := pt.value(ret.Results[0]); rv != ssa.Value(cl) && !pf.w.lin(ret.Results[0]).eq(min) {
				o.Fail(token.NoPos, "%s: XorBytes returns neither the standard routine's result nor n", pos(ret.Pos()))
			}
			if !doneSub {
				doneSub = true
				o.Sites = append(o.Sites, pos(cl.Pos())+" dispatch crypto/subtle.XORBytes")
			}
			continue
		}
		if minZero {
			if !(nForm.eq(linConst(0)) || nForm.eq(min)) {
				o.Fail(token.NoPos, "%s: with nothing to xor XorBytes returns %s", pos(ret.Pos()), nForm)
			}
			continue
		}
		if !nForm.eq(min) {
			if nForm.eq(linConst(0)) {
				o.Fail(token.NoPos, "%s: 0 is returned on a path where n == 0 is not established", pos(ret.Pos()))
			} else {
				o.Fail(token.NoPos, "%s: XorBytes returns %s, not n = min(len(%s), len(%s)) = %s", pos(ret.Pos()), nForm, a.Name(), b.Name(), min)
			}
			continue
		}
		if len(ds) != 1 {
			o.Fail(token.NoPos, "%s: a path of XorBytes with n > 0 runs %d xor routines (exactly one is needed)", pos(ret.Pos()), len(ds))
			continue
		}
		cl, idx := ds[0].call, ds[0].idx
		sc := ds[0].fn
		args := cl.Call.Args
		if got := pf.w.lin(pt.valueAt(args[3], idx)); !got.eq(min) {
			o.Fail(token.NoPos, "%s: %s is not given n as its length (got %s)", pos(cl.Pos()), sc.Name(), got)
		}
		for i, want := range []*ssa.Parameter{dst, a, b} {
			av := pt.valueAt(args[i], idx)
			if !derivesFrom(av, func(v ssa.Value) bool { return pt.valueAt(v, idx) == ssa.Value(want) || sameOrigin(v, ssa.Value(want)) }, false) {
				o.Fail(token.NoPos, "%s: argument %d of %s is not derived from %s", pos(cl.Pos()), i, sc.Name(), want.Name())
			}
			// pointer arguments must be &x[0]
			if ia, ok := av.(*ssa.IndexAddr); ok {
				if k, ok := constInt(ia.Index); !ok || k != 0 {
					o.Fail(token.NoPos, "%s: %s receives a pointer that is not &%s[0]", pos(cl.Pos()), sc.Name(), want.Name())
				}
			}
		}
		if !doneLoops[sc] {
			doneLoops[sc] = true
			o.Sites = append(o.Sites, pos(cl.Pos())+" dispatch "+sc.Name())
			if len(sc.Blocks) > 0 {
				xorLoops(o, sc, pos)
			}
		}
	}
	// routines that no path of this configuration reaches (the byte-wise fallback where the architecture constant
	// folds the dispatch) are selected on other architectures: they are held to the same rules
	sort.Slice(routines, func(i, j int) bool { return routines[i].Pos() < routines[j].Pos() })
	for _, g := range routines {
		if doneLoops[g] || len(g.Blocks) == 0 || g == f {
			continue
		}
		isBytes := func(t types.Type) bool {
			sl, ok := t.Underlying().(*types.Slice)
			if !ok {
				return false
			}
			bt, ok := sl.Elem().Underlying().(*types.Basic)
			return ok && bt.Kind() == types.Byte
		}
		ps := g.Signature.Params()
		if !isBytes(ps.At(0).Type()) || !isBytes(ps.At(1).Type()) || !isBytes(ps.At(2).Type()) {
			continue
		}
		doneLoops[g] = true
		o.Sites = append(o.Sites, pos(g.Pos())+" routine "+g.Name()+" (not dispatched in this configuration)")
		xorLoops(o, g, pos)
	}
	o.Sites = append(o.Sites, fmt.Sprintf("%s %d paths of XorBytes return n = min(len(%s), len(%s)) (0 only when that is 0)", pos(f.Pos()), nPaths, a.Name(), b.Name()))
	if nPaths == 0 {
		o.Fail(token.NoPos, "%s: XorBytes has no returning path", pos(f.Pos()))
	}
}

// xorLoops: every element-wise loop d[i] = x[i] ^ y[i] uses one index, and the loops of a
// helper (dst,a,b,n) cover exactly [0,n).
func xorLoops(o *Obligation, g *ssa.Function, pos func(token.Pos) string) {
	n := g.Params[3]
	type loop struct {
		init, bound linForm
		elem        int64
		at          token.Pos
		st          ssa.Instruction
	}
	var loops []loop
	sym := func(v ssa.Value) (string, bool) {
		if sameOrigin(v, ssa.Value(n)) {
			return "n", true
		}
		return defaultSym(v)
	}
	instrsOf(g, func(in ssa.Instruction) {
		st, ok := in.(*ssa.Store)
		if !ok {
			return
		}
		ia, ok := st.Addr.(*ssa.IndexAddr)
		if !ok {
			return
		}
		x, ok := origin(st.Val).(*ssa.BinOp)
		if !ok || x.Op != token.XOR {
			return
		}
		idxOf := func(v ssa.Value) ssa.Value {
			u, ok := v.(*ssa.UnOp)
			if !ok {
				return nil
			}
			i2, ok := origin(u.X).(*ssa.IndexAddr)
			if !ok {
				return nil
			}
			return i2.Index
		}
		if idxOf(x.X) != ia.Index || idxOf(x.Y) != ia.Index {
			o.Fail(token.NoPos, "%s: the xor loop of %s does not use the same index for destination and both operands", pos(in.Pos()), g.Name())
			return
		}
		// dst[i] = a[i] ^ b[i]: the element stored is computed from the two sources, not from the destination
		// itself (dst[i] ^= b[i] after a copy reads what was just overwritten when dst is exactly b)
		sliceOf := func(v ssa.Value) int {
			var base ssa.Value
			if u, ok := v.(*ssa.UnOp); ok {
				if i2, ok := origin(u.X).(*ssa.IndexAddr); ok {
					base = i2.X
				}
			} else if i2, ok := v.(*ssa.IndexAddr); ok {
				base = i2.X
			}
			if base == nil {
				return -1
			}
			// back to the routine's parameter: through re-slicing, word views made with unsafe
			// (*(*[]uintptr)(unsafe.Pointer(&dst)), unsafe.Slice((*uintptr)(unsafe.Pointer(&dst[0])), w)) and the
			// local cell a parameter lives in once its address is taken
			cur := base
			for d := 0; d < 16 && cur != nil; d++ {
				for k := 0; k < 3 && k < len(g.Params); k++ {
					if cur == ssa.Value(g.Params[k]) {
						return k
					}
				}
				switch y := cur.(type) {
				case *ssa.UnOp:
					cur = y.X
				case *ssa.Convert:
					cur = y.X
				case *ssa.ChangeType:
					cur = y.X
				case *ssa.Slice:
					cur = y.X
				case *ssa.IndexAddr:
					cur = y.X
				case *ssa.Phi:
					cur = nil
				case *ssa.Call:
					if b, ok := y.Call.Value.(*ssa.Builtin); ok && b.Name() == "Slice" && len(y.Call.Args) == 2 {
						cur = y.Call.Args[0]
					} else {
						cur = nil
					}
				case *ssa.Alloc:
					var stored []ssa.Value
					if refs := y.Referrers(); refs != nil {
						for _, rf := range *refs {
							if st, ok := rf.(*ssa.Store); ok && st.Addr == ssa.Value(y) {
								stored = append(stored, st.Val)
							}
						}
					}
					if len(stored) == 1 {
						cur = stored[0]
					} else {
						cur = nil
					}
				default:
					if o := origin(cur); o != cur {
						cur = o
					} else {
						cur = nil
					}
				}
			}
			return -1
		}
		sd, sx, sy := sliceOf(ia), sliceOf(x.X), sliceOf(x.Y)
		if sd != 0 || !((sx == 1 && sy == 2) || (sx == 2 && sy == 1)) {
			o.Fail(token.NoPos, "%s: the element stored by %s is not a[i] ^ b[i] into dst[i] (slices: destination #%d, operands #%d and #%d of the routine's parameters)", pos(in.Pos()), g.Name(), sd, sx, sy)
			return
		}
		var init ssa.Value
		var idxVal ssa.Value // the value compared with the bound
		stepOK := false
		if ph, ok := origin(ia.Index).(*ssa.Phi); ok && len(ph.Edges) == 2 {
			// for i := init; i < bound; i++
			idxVal = ph
			for _, e := range ph.Edges {
				if bo, ok := e.(*ssa.BinOp); ok && bo.Op == token.ADD && sameOrigin(bo.X, ssa.Value(ph)) {
					if k, ok := constInt(bo.Y); ok && k == 1 {
						stepOK = true
						continue
					}
				}
				init = e
			}
		} else if bo, ok := origin(ia.Index).(*ssa.BinOp); ok && bo.Op == token.ADD {
			// for i := range s: the index is phi(-1, i) + 1
			if k, isC := constInt(bo.Y); isC && k == 1 {
				if ph, ok := bo.X.(*ssa.Phi); ok && len(ph.Edges) == 2 {
					for _, e := range ph.Edges {
						if c0, isC := constInt(e); isC && c0 == -1 {
							init = ssa.NewConst(constant.MakeInt64(0), types.Typ[types.Int])
						} else if e == ssa.Value(bo) {
							stepOK = true
						}
					}
					idxVal = bo
				}
			}
		}
		if idxVal == nil {
			o.Fail(token.NoPos, "%s: loop index of %s not recognised", pos(in.Pos()), g.Name())
			return
		}
		if !stepOK || init == nil {
			o.Fail(token.NoPos, "%s: loop of %s does not step by 1", pos(in.Pos()), g.Name())
			return
		}
		var bound ssa.Value
		for _, ft := range guards(in) {
			cm, ok := normCmp(ft.Cond, ft.Val)
			if ok && cm.Op == token.LSS && sameOrigin(cm.X, idxVal) {
				bound = cm.Y
			}
		}
		if bound == nil {
			o.Fail(token.NoPos, "%s: loop of %s has no upper bound i < ...", pos(in.Pos()), g.Name())
			return
		}
		es := int64(1)
		if sl, ok := ia.X.Type().Underlying().(*types.Slice); ok {
			if bt, ok := sl.Elem().Underlying().(*types.Basic); ok && bt.Kind() == types.Uintptr {
				es = 0 // word-sized
			}
		}
		boundF := linOf(bound, sym)
		if lc, ok := bound.(*ssa.Call); ok && isCall(lc, "builtin.len") {
			// len(x[lo:hi]) = hi - lo
			if sl, ok := lc.Call.Args[0].(*ssa.Slice); ok && sl.High != nil {
				boundF = linOf(sl.High, sym)
				if sl.Low != nil {
					boundF = boundF.add(linOf(sl.Low, sym), -1)
				}
			}
		}
		initF := linOf(init, sym)
		// the three slices re-sliced from a common low bound (dt, at, bt := dst[t:n], a[t:n], b[t:n]): element i of
		// the re-sliced slices is element t+i of the routine's own
		lowOf := func(v ssa.Value) (linForm, bool) {
			var base ssa.Value
			if u, ok := v.(*ssa.UnOp); ok {
				if i2, ok := origin(u.X).(*ssa.IndexAddr); ok {
					base = i2.X
				}
			} else if i2, ok := v.(*ssa.IndexAddr); ok {
				base = i2.X
			}
			if sl, ok := base.(*ssa.Slice); ok && sl.Low != nil {
				if _, isPtr := sl.X.Type().Underlying().(*types.Pointer); !isPtr {
					return linOf(sl.Low, sym), true
				}
			}
			return linConst(0), false
		}
		if ld, okD := lowOf(ia); okD && es == 1 {
			lx, okX := lowOf(x.X)
			ly, okY := lowOf(x.Y)
			if okX && okY && lx.eq(ld) && ly.eq(ld) {
				initF = initF.add(ld, 1)
				boundF = boundF.add(ld, 1)
			} else {
				o.Fail(token.NoPos, "%s: destination and operands of the loop of %s are re-sliced from different offsets", pos(in.Pos()), g.Name())
				return
			}
		}
		loops = append(loops, loop{initF, boundF, es, in.Pos(), in})
		o.Sites = append(o.Sites, fmt.Sprintf("%s %s: loop i from %s while i < %s", pos(in.Pos()), g.Name(), initF, boundF))
	})
	// every store of a xor routine into memory it did not allocate is one of the recognised element stores
	recognised := map[ssa.Instruction]bool{}
	for _, l := range loops {
		recognised[l.st] = true
	}
	var chk func(h *ssa.Function, d int)
	seenFn := map[*ssa.Function]bool{}
	chk = func(h *ssa.Function, d int) {
		if seenFn[h] || d > 3 {
			return
		}
		seenFn[h] = true
		instrsOf(h, func(in ssa.Instruction) {
			switch x := in.(type) {
			case *ssa.Store:
				if _, isLocal := x.Addr.(*ssa.Alloc); isLocal {
					return
				}
				if !recognised[in] {
					o.Fail(token.NoPos, "%s: %s writes memory outside the recognised element-wise xor loops (%s): bytes already produced can be overwritten, e.g. when dst is exactly a or b", pos(in.Pos()), h.Name(), x.String())
				}
			case *ssa.Call:
				if b, isB := x.Call.Value.(*ssa.Builtin); isB && (b.Name() == "copy" || b.Name() == "clear") {
					o.Fail(token.NoPos, "%s: %s writes memory with %s outside the recognised element-wise xor loops: with dst exactly a or b an operand is overwritten before it is read", pos(in.Pos()), h.Name(), b.Name())
				}
				if sc := x.Call.StaticCallee(); sc != nil && sc.Pkg == g.Pkg && len(sc.Blocks) > 0 && sc != g {
					if sc.Signature.Params().Len() == 4 {
						if !xorChecked[sc] {
							xorChecked[sc] = true
							xorLoops(o, sc, pos) // a xor routine of its own: its loops are checked against its own n
						}
						return
					}
					chk(sc, d+1)
				}
			}
		})
	}
	chk(g, 0)
	// a routine that hands (parts of) the work to other routines: compose the byte intervals
	nF := linSym("n")
	W := types.SizesFor("gc", "amd64").Sizeof(types.Typ[types.Uintptr])
	type ival struct{ from, to linForm }
	var parts []ival
	delegates := false
	okCompose := true
	instrsOf(g, func(in ssa.Instruction) {
		cl, ok := in.(*ssa.Call)
		if !ok {
			return
		}
		h := cl.Call.StaticCallee()
		if h == nil || h.Pkg != g.Pkg || h == g || len(h.Blocks) == 0 || h.Signature.Params().Len() != 4 {
			return
		}
		delegates = true
		tot, ok := xorTotal(h, 0)
		if !ok {
			okCompose = false
			return
		}
		// offset: all three slices re-sliced from the same low bound (or not at all)
		var off linForm
		for k := 0; k < 3; k++ {
			lo := linConst(0)
			if sl, ok := cl.Call.Args[k].(*ssa.Slice); ok && sl.Low != nil {
				lo = linOf(sl.Low, sym)
			}
			if k == 0 {
				off = lo
			} else if !lo.eq(off) {
				okCompose = false
			}
		}
		cnt := linOf(cl.Call.Args[3], sym)
		parts = append(parts, ival{off, off.add(cnt.scale(tot), 1)})
		o.Sites = append(o.Sites, fmt.Sprintf("%s %s: delegates bytes [%s, %s) to %s", pos(cl.Pos()), g.Name(), off, off.add(cnt.scale(tot), 1), h.Name()))
	})
	if delegates {
		for _, l := range loops {
			k := int64(1)
			if l.elem == 0 {
				k = W
			}
			parts = append(parts, ival{l.init.scale(k), l.bound.scale(k)})
		}
		cur := linConst(0)
		used := make([]bool, len(parts))
		for step := 0; step < len(parts) && okCompose; step++ {
			found := false
			for i, p := range parts {
				if !used[i] && normRem(p.from).eq(normRem(cur)) {
					used[i], cur, found = true, p.to, true
					break
				}
			}
			if !found {
				okCompose = false
			}
		}
		if !okCompose || !normRem(cur).eq(normRem(nF)) {
			o.Fail(token.NoPos, "%s: the parts %s hands to other routines and its own loops do not chain to exactly [0, n) bytes", pos(g.Pos()), g.Name())
		}
		return
	}
	if len(loops) == 0 {
		o.Fail(token.NoPos, "%s: no element-wise xor loop recognised in %s: the routine does not (recognisably) produce dst[i] = a[i] ^ b[i] for i in [0, n)", pos(g.Pos()), g.Name())
		return
	}
	switch len(loops) {
	case 1:
		l := loops[0]
		if !l.init.eq(linConst(0)) || !l.bound.eq(nF) {
			o.Fail(token.NoPos, "%s: the byte loop of %s covers [%s, %s), not [0, n)", pos(l.at), g.Name(), l.init, l.bound)
		}
	case 2:
		var word, tail *loop
		for i := range loops {
			if loops[i].elem == 0 {
				word = &loops[i]
			} else {
				tail = &loops[i]
			}
		}
		if word == nil || tail == nil {
			o.Fail(token.NoPos, "%s: expected one word loop and one tail loop in %s", pos(loops[0].at), g.Name())
			return
		}
		// word loop [0, n/w) ; tail [n - n%w, n)
		// the word bound is the single quantity n/W; the tail starts at W*(n/W), written n - n%W or (n/W)*W
		okW := word.init.eq(linConst(0)) && word.bound.OK && word.bound.K == 0 && len(word.bound.Coef) == 1
		okT := tail.bound.eq(nF)
		if okW {
			okW = false
			for sym, cf := range word.bound.Coef {
				var W int64
				if cf == 1 && strings.HasPrefix(sym, "("+nF.String()+" / ") {
					if _, err := fmt.Sscanf(strings.TrimSuffix(strings.TrimPrefix(sym, "("+nF.String()+" / "), ")"), "%d", &W); err == nil && W > 1 {
						okW = true
						if !normRem(tail.init).eq(word.bound.scale(W)) {
							okT = false
						}
					}
				}
			}
		}
		if !okW || !okT {
			o.Fail(token.NoPos, "%s: the loops of %s cover words [%s, %s) and bytes [%s, %s): not a partition of [0, n) into [0, n/w) words and [n - n%%w, n)", pos(word.at), g.Name(), word.init, word.bound, tail.init, tail.bound)
		}
	default:
		o.Fail(token.NoPos, "%s: %d xor loops in %s", pos(loops[0].at), len(loops), g.Name())
	}
}

func checkDelegationNoPos(o *Obligation, f *ssa.Function) {
	tmp := &Obligation{ctx: o.ctx}
	checkDelegation(tmp, f)
	if tmp.Failed {
		o.Fail(token.NoPos, "%s", tmp.Why)
	}
}

var xorChecked = map[*ssa.Function]bool{}

// xorTotal: the number of bytes a xor routine covers per unit of its 4th parameter when it covers exactly
// [0, k*n): 1 for a byte routine, the word size for a word routine (its own loops only).
func xorTotal(h *ssa.Function, depth int) (int64, bool) {
	W := types.SizesFor("gc", "amd64").Sizeof(types.Typ[types.Uintptr])
	n := h.Params[3]
	sym := func(v ssa.Value) (string, bool) {
		if sameOrigin(v, ssa.Value(n)) {
			return "n", true
		}
		return defaultSym(v)
	}
	tot, found := int64(0), 0
	instrsOf(h, func(in ssa.Instruction) {
		st, ok := in.(*ssa.Store)
		if !ok {
			return
		}
		ia, ok := st.Addr.(*ssa.IndexAddr)
		if !ok {
			return
		}
		if x, ok := origin(st.Val).(*ssa.BinOp); !ok || x.Op != token.XOR {
			return
		}
		found++
		tot = 1
		if sl, ok := ia.X.Type().Underlying().(*types.Slice); ok {
			if bt, ok := sl.Elem().Underlying().(*types.Basic); ok && bt.Kind() == types.Uintptr {
				tot = W
			}
		}
	})
	_ = sym
	if found != 1 {
		return 0, false
	}
	return tot, true
}

// hasEffectsBesidesCalls: the function (with its private helpers) stores to memory it did not allocate, sends, or
// starts goroutines: a wrapper around the standard routine must do none of that.
func hasEffectsBesidesCalls(f *ssa.Function) bool {
	bad := false
	instrsOfU(f, func(in ssa.Instruction) {
		switch x := in.(type) {
		case *ssa.Store:
			if _, isLocal := x.Addr.(*ssa.Alloc); !isLocal {
				bad = true
			}
		case *ssa.MapUpdate, *ssa.Send, *ssa.Go, *ssa.Defer, *ssa.Panic:
			bad = true
		case *ssa.Call:
			if b, isB := x.Call.Value.(*ssa.Builtin); isB && (b.Name() == "copy" || b.Name() == "clear" || b.Name() == "append") {
				bad = true
			}
		}
	})
	return bad
}
