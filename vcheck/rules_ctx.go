package main

// C17 — context-aware I/O wrappers (netctx, connctx): six sibling functions share one skeleton.

import (
	"go/token"
	"go/types"
	"sort"
	"strings"

	"golang.org/x/tools/go/ssa"
)

type ctxIO struct {
	F, Watch *ssa.Function
	IO       *ssa.Call
	Dir      string // Read | Write
	Mu       string // mutex field locked
	T        string
	Caller   *ssa.Function   // the only caller, when F is a helper that runs under the caller's mutex
	CallSite ssa.Instruction // the call of F in Caller
}

func findCtxIO(p *Prog) []ctxIO {
	var out []ctxIO
	for _, f := range p.Funcs {
		pk := pkgOf(f)
		if (pk != "netctx" && pk != "connctx") || f.Parent() != nil || f.Signature.Recv() == nil {
			continue
		}
		hasCtx, hasBuf := false, false
		for _, prm := range f.Params {
			if prm.Type().String() == "context.Context" {
				hasCtx = true
			}
			if isByteSlice(prm.Type()) {
				hasBuf = true
			}
		}
		if !hasCtx || !hasBuf {
			continue
		}
		var io *ssa.Call
		instrsOf(f, func(in ssa.Instruction) {
			cl, ok := in.(*ssa.Call)
			if !ok || !cl.Call.IsInvoke() {
				return
			}
			switch cl.Call.Method.Name() {
			case "Read", "Write", "ReadFrom", "WriteTo":
				if _, ok := asFieldLoad(derefLocal(cl.Call.Value)); ok {
					io = cl
				}
			}
		})
		if io == nil {
			continue
		}
		d := "Read"
		if strings.HasPrefix(io.Call.Method.Name(), "Write") {
			d = "Write"
		}
		x := ctxIO{F: f, IO: io, Dir: d, T: typeName(f.Signature.Recv().Type())}
		instrsOf(f, func(in ssa.Instruction) {
			if g, ok := in.(*ssa.Go); ok {
				if mc, ok := origin(g.Call.Value).(*ssa.MakeClosure); ok {
					x.Watch, _ = mc.Fn.(*ssa.Function)
				}
			}
			if cl, ok := in.(*ssa.Call); ok {
				if op, _ := lockOp(cl); op == "lock" && x.Mu == "" {
					if fr, ok := asFieldAddr(cl.Call.Args[0]); ok {
						x.Mu = fr.Field
					}
				}
			}
		})
		if x.Mu == "" && isPrivateHelper(f) {
			// the body of the operation split off into a helper that runs with the direction's mutex held by
			// its only caller
			var sites []cgEdge
			for _, e := range p.CG().In[f] {
				if e.Kind != "ref" {
					sites = append(sites, e)
				}
			}
			if len(sites) == 1 && sites[0].Kind == "static" {
				g := sites[0].From
				instrsOf(g, func(in ssa.Instruction) {
					if cl, ok := in.(*ssa.Call); ok {
						if op, _ := lockOp(cl); op == "lock" && x.Mu == "" && domU(in, sites[0].Site) {
							if fr, ok := asFieldAddr(cl.Call.Args[0]); ok {
								x.Mu = fr.Field
								x.Caller, x.CallSite = g, sites[0].Site
							}
						}
					}
				})
			}
		}
		out = append(out, x)
	}
	sort.Slice(out, func(i, j int) bool { return fname(out[i].F) < fname(out[j].F) })
	return out
}

func isZeroTime(v ssa.Value) bool {
	c, ok := v.(*ssa.Const)
	if ok && c.Value == nil && c.Type().String() == "time.Time" {
		return true
	}
	return v.Type().String() == "time.Time" && zeroGlobalLoad(v)
}

func runC17(c *Ctx) {
	p := c.P
	setUnitExclude()
	sibs := findCtxIO(p)
	fl := c.Obl("R0", "context-wrappers", "the six context-aware I/O functions (netctx.conn, netctx.packetConn, connctx.connCtx x Read/Write) are found", 6)
	for _, s := range sibs {
		fl.Sites = append(fl.Sites, fname(s.F)+" -> "+s.IO.Call.Method.Name()+" ("+s.Dir+")")
	}
	la := computeLocksets(p)
	muByType := map[string]map[string]string{}
	for _, s := range sibs {
		F, W := s.F, s.Watch
		setName := "Set" + s.Dir + "Deadline"
		conn := derefLocal(s.IO.Call.Value) // value of the nextConn field
		connField, _ := asFieldLoad(conn)
		if s.Mu != "" {
			if muByType[s.T] == nil {
				muByType[s.T] = map[string]string{}
			}
			muByType[s.T][s.Dir] = s.Mu
		}

		// R1 watcher
		o := c.Obl("R1", fname(F), "the watcher goroutine, when the context fires, forces a past "+s.Dir+" deadline on the wrapped connection, waits for the operation to finish, and then restores the zero "+s.Dir+" deadline on every path where forcing succeeded; it signals completion (wg.Done) only after that", 2)
		if W == nil {
			o.Fail(F.Pos(), "no watcher goroutine is started")
			continue
		}
		// the completion channel: the channel F closes after the I/O, captured by the watcher
		var goInstr *ssa.Go
		instrsOfU(F, func(in ssa.Instruction) {
			if g, ok := in.(*ssa.Go); ok {
				if mc, ok := origin(g.Call.Value).(*ssa.MakeClosure); ok && sameOrigin(mc.Fn, ssa.Value(W)) {
					goInstr = g
				}
			}
		})
		bindOf := func(v ssa.Value) ssa.Value { // free variable of the watcher -> the captured value of F
			if fv, ok := v.(*ssa.FreeVar); ok && goInstr != nil {
				mc := origin(goInstr.Call.Value).(*ssa.MakeClosure)
				for i, q := range W.FreeVars {
					if q == fv && i < len(mc.Bindings) {
						return mc.Bindings[i]
					}
				}
			}
			return v
		}
		var doneCells []ssa.Value
		for _, in := range findU(F, func(in ssa.Instruction) bool { return isCall(in, "builtin.close") }) {
			a := strip(in.(ssa.CallInstruction).Common().Args[0])
			if u, ok := a.(*ssa.UnOp); ok && u.Op == token.MUL {
				a = u.X
			}
			doneCells = append(doneCells, a)
		}
		isDoneCh := func(pth *upath, v ssa.Value) bool {
			v = strip(pth.resolve(strip(v)))
			if u, ok := v.(*ssa.UnOp); ok && u.Op == token.MUL {
				v = u.X
			}
			v = bindOf(v)
			for _, d := range doneCells {
				if v == d {
					return true
				}
			}
			return false
		}
		isCtxDone := func(pth *upath, v ssa.Value) bool {
			cl, ok := derefLocal(strip(pth.resolve(strip(v)))).(*ssa.Call)
			return ok && cl.Call.IsInvoke() && cl.Call.Method.Name() == "Done" && cl.Call.Value.Type().String() == "context.Context"
		}
		isConnVal := func(pth *upath, v ssa.Value) bool {
			fr, ok := asFieldLoad(derefLocal(strip(pth.resolve(strip(v)))))
			return ok && fr.SName == connField.SName && fr.Field == connField.Field
		}
		// setCall: in is a call of Set<X>Deadline on the wrapped connection - an interface call, or a call of a
		// bound method value that was passed down to a helper
		setCall := func(pth *upath, in ssa.Instruction) (method string, arg ssa.Value, ok bool) {
			cl, isCl := in.(*ssa.Call)
			if !isCl {
				return "", nil, false
			}
			if cl.Call.IsInvoke() {
				n := cl.Call.Method.Name()
				if strings.HasPrefix(n, "Set") && strings.HasSuffix(n, "Deadline") && isConnVal(pth, cl.Call.Value) && len(cl.Call.Args) == 1 {
					return n, pth.resolve(cl.Call.Args[0]), true
				}
				return "", nil, false
			}
			if fn, isFn := strip(pth.resolve(cl.Call.Value)).(*ssa.Function); isFn && strings.HasSuffix(fn.Name(), "$thunk") && len(cl.Call.Args) == 2 {
				// a method expression (net.PacketConn.SetReadDeadline) passed down as a function value
				n := strings.TrimSuffix(fn.Name(), "$thunk")
				if i := strings.LastIndex(n, "."); i >= 0 {
					n = n[i+1:]
				}
				if strings.HasPrefix(n, "Set") && strings.HasSuffix(n, "Deadline") && isConnVal(pth, cl.Call.Args[0]) {
					return n, pth.resolve(cl.Call.Args[1]), true
				}
			}
			if mc, isMc := strip(pth.resolve(cl.Call.Value)).(*ssa.MakeClosure); isMc {
				if bf, _ := mc.Fn.(*ssa.Function); bf != nil && strings.HasSuffix(bf.Name(), "$bound") && len(mc.Bindings) == 1 && len(cl.Call.Args) == 1 {
					n := strings.TrimSuffix(bf.Name(), "$bound")
					if strings.HasPrefix(n, "Set") && strings.HasSuffix(n, "Deadline") && isConnVal(pth, mc.Bindings[0]) {
						return n, pth.resolve(cl.Call.Args[0]), true
					}
					// a method value of a thin method of the wrapper itself (func (c *T) setReadDeadline(t time.Time)
					// error { return c.nextConn.SetReadDeadline(t) }) handed to a watcher shared by both directions
					for _, b := range bf.Blocks {
						for _, x := range b.Instrs {
							ci, ok := x.(ssa.CallInstruction)
							if !ok {
								continue
							}
							t := ci.Common().StaticCallee()
							if t == nil || len(t.Blocks) != 1 || len(t.Params) != 2 {
								continue
							}
							for _, y := range t.Blocks[0].Instrs {
								ic, ok := y.(*ssa.Call)
								if !ok || !ic.Call.IsInvoke() || len(ic.Call.Args) != 1 || ic.Call.Args[0] != ssa.Value(t.Params[1]) {
									continue
								}
								m := ic.Call.Method.Name()
								fr, okF := asFieldLoad(ic.Call.Value)
								if strings.HasPrefix(m, "Set") && strings.HasSuffix(m, "Deadline") && okF && fr.SName == connField.SName && fr.Field == connField.Field && fr.Base == ssa.Value(t.Params[0]) {
									return m, pth.resolve(cl.Call.Args[0]), true
								}
							}
						}
					}
				}
			}
			return "", nil, false
		}
		paths, okPaths := enumPathsU(W, 4096)
		if !okPaths {
			o.Undecide("the paths of the watcher of %s could not be enumerated (loop or too many paths)", fname(F))
			continue
		}
		var force, restore ssa.Instruction
		for pi := range paths {
			pth := &paths[pi]
			ctxFired, waited := false, false
			var forced *ssa.Call // a force whose success has not yet been followed by a restore on this path
			forcedFailed := false
			for _, in := range pth.Instrs {
				switch x := in.(type) {
				case *ssa.Select:
					k := selCaseOnPath(pth, x)
					hasCtx, hasDone := false, false
					for _, st := range x.States {
						if st.Dir == types.RecvOnly && isCtxDone(pth, st.Chan) {
							hasCtx = true
						}
						if st.Dir == types.RecvOnly && isDoneCh(pth, st.Chan) {
							hasDone = true
						}
					}
					if hasCtx && !hasDone {
						o.Fail(x.Pos(), "the watcher does not also wait for the operation to complete: it leaks until the context ends")
					}
					if k >= 0 && k < len(x.States) && x.States[k].Dir == types.RecvOnly {
						if isCtxDone(pth, x.States[k].Chan) {
							ctxFired = true
						}
						if isDoneCh(pth, x.States[k].Chan) {
							waited = true
						}
					}
				case *ssa.UnOp:
					if x.Op == token.ARROW {
						if isCtxDone(pth, x.X) {
							ctxFired = true
						}
						if isDoneCh(pth, x.X) {
							waited = true
						}
					}
				case *ssa.Call:
					m, arg, ok := setCall(pth, in)
					if !ok {
						break
					}
					if m != setName {
						o.Fail(in.Pos(), "the watcher of a %s operation touches the other direction's deadline (%s): a concurrent operation in the other direction is cancelled / left with a past deadline", s.Dir, m)
						break
					}
					if isZeroTime(arg) {
						restore = in
						if forced != nil && !waited {
							o.Fail(in.Pos(), "the zero deadline is restored without first waiting for the cancelled operation to return (it would not be interrupted)")
						}
						forced = nil
					} else {
						force = in
						if !isFixedPast(p, arg) {
							o.Fail(in.Pos(), "the deadline forced on cancellation is not a fixed instant in the past (it depends on the context or the clock): a context cancelled before its own deadline does not interrupt the operation")
						}
						if !ctxFired {
							o.Fail(in.Pos(), "the past deadline is forced on a path where the context has not fired")
						}
						forced, waited, forcedFailed = x, false, false
					}
				}
			}
			if forced != nil {
				// the path ended without a restore: allowed only on the edge where forcing reported an error
				for _, ft := range pth.Conds {
					if nilFact(ft, func(v ssa.Value) bool {
						return sameOrigin(v, ssa.Value(forced)) || pathLoadSource(pth, v) == ssa.Value(forced)
					}, false) {
						forcedFailed = true
					}
				}
				if !forcedFailed {
					o.Fail(forced.Pos(), "after forcing the past deadline the watcher can finish without restoring the zero deadline")
				}
			}
		}
		// also: no restore/force in the outer function
		for _, in := range findU(F, func(in ssa.Instruction) bool {
			cl, ok := in.(*ssa.Call)
			return ok && cl.Call.IsInvoke() && strings.HasPrefix(cl.Call.Method.Name(), "Set") && strings.HasSuffix(cl.Call.Method.Name(), "Deadline")
		}) {
			o.Fail(in.Pos(), "%s manipulates the wrapped connection's deadline itself (outside the watcher): the restore is then conditional on how the operation ended", fname(F))
		}
		if force == nil {
			o.Fail(W.Pos(), "the watcher never forces a past %s deadline: cancellation cannot interrupt the operation", s.Dir)
			continue
		}
		o.Site(force.Pos(), "force %s on %d watcher path(s) enumerated", setName, len(paths))
		if restore == nil {
			o.Fail(W.Pos(), "the watcher never restores the zero %s deadline: the next operation with a live context inherits the past deadline", s.Dir)
			continue
		}
		o.Site(restore.Pos(), "restore %s(zero)", setName)
		// the completion signal: wg.Done() awaited by wg.Wait(), or the close of a channel of its own that the
		// caller receives from
		exitRole := ""
		instrsOfU(W, func(in ssa.Instruction) {
			if ci, ok := in.(ssa.CallInstruction); ok && callName(ci) == "builtin.close" {
				if role := chanRole(ci.Common().Args[0]); role != "var done" && strings.HasPrefix(role, "var ") {
					exitRole = role
				}
			}
		})
		isSignal := func(in ssa.Instruction) bool {
			ci, ok := in.(ssa.CallInstruction)
			if !ok {
				return false
			}
			if callName(ci) == "(*sync.WaitGroup).Done" {
				return true
			}
			return exitRole != "" && callName(ci) == "builtin.close" && chanRole(ci.Common().Args[0]) == exitRole
		}
		// the signal is deferred at entry
		okDone := false
		for _, in := range W.Blocks[0].Instrs {
			if d, ok := in.(*ssa.Defer); ok && isSignal(d) {
				okDone = true
			}
		}
		if !okDone {
			// or an explicit signal after restore on every path
			if ok, _ := mustPassU(entryPos(W), isReturn, func(in ssa.Instruction) bool { _, isC := in.(*ssa.Call); return isC && isSignal(in) }); !ok {
				o.Fail(W.Pos(), "the watcher does not signal its completion on every path (wg.Wait would block forever or return early)")
			}
			for _, in := range findU(W, func(in ssa.Instruction) bool { _, isC := in.(*ssa.Call); return isC && isSignal(in) }) {
				if canReach(posAfter(in), restore, nil) {
					o.Fail(in.Pos(), "the watcher signals completion before the deadline is restored")
				}
			}
		}

		// R2 close(done); wg.Wait() after the I/O on every path, before the mutex is released
		o = c.Obl("R2", fname(F), "after the wrapped "+s.IO.Call.Method.Name()+" returns, close(done) and then wg.Wait() lie on every path to the return, and the direction's mutex is not released before (the restore happens-before the next operation)", 2)
		isClose := func(in ssa.Instruction) bool {
			return isCall(in, "builtin.close") && chanRole(in.(ssa.CallInstruction).Common().Args[0]) == "var done"
		}
		isWait := func(in ssa.Instruction) bool {
			if isPlainCall(in, "(*sync.WaitGroup).Wait") {
				return true
			}
			u, ok := in.(*ssa.UnOp)
			return ok && u.Op == token.ARROW && exitRole != "" && chanRole(u.X) == exitRole && in.Parent() != W
		}
		o.Site(s.IO.Pos(), "I/O call %s", s.IO.Call.Method.Name())
		if ok, bad := mustPassU(posAfter(s.IO), isReturn, isClose); !ok {
			o.Fail(bad.Pos(), "a return is reachable after the I/O without close(done): the watcher is never released")
		}
		if ok, bad := mustPassU(posAfter(s.IO), isReturn, isWait); !ok {
			o.Fail(bad.Pos(), "a return is reachable after the I/O without wg.Wait(): the restore of the deadline can happen after the return and hit the next operation")
		}
		for _, w := range findU(F, isWait) {
			o.Site(w.Pos(), "wg.Wait()")
			okc := false
			for _, cl := range findU(F, isClose) {
				if domU(cl, w) {
					okc = true
				}
			}
			if !okc {
				o.Fail(w.Pos(), "wg.Wait() is not preceded by close(done): deadlock when the context never fires")
			}
			// the mutex must still be held
			if s.Mu != "" && !la.holdsOwner(w, s.T, true) {
				o.Fail(w.Pos(), "the %s mutex is released before the watcher has restored the deadline: a queued operation with a live context starts under the forced past deadline", s.Dir)
			}
		}
		// wg.Add(1) before go
		for _, g := range findU(F, func(in ssa.Instruction) bool { _, ok := in.(*ssa.Go); return ok }) {
			okAdd := false
			for _, a := range findU(F, func(in ssa.Instruction) bool { return isPlainCall(in, "(*sync.WaitGroup).Add") }) {
				if domU(a, g) {
					okAdd = true
				}
			}
			if !okAdd && exitRole == "" {
				o.Fail(g.Pos(), "the watcher is started without wg.Add before it")
			}
			if !domU(g, s.IO) {
				o.Fail(g.Pos(), "the watcher is not started before the I/O call")
			}
			if s.Mu != "" && !la.holdsOwner(g, s.T, true) {
				o.Fail(g.Pos(), "the watcher is started before the %s mutex is taken: a queued operation whose context fires forces the past deadline on the operation that is running", s.Dir)
			}
		}
		ob := c.Obl("R2b", fname(F), "lock balance on every path", 1)
		la.lockBalance(ob, F)

		// R3 result handling
		o = c.Obl("R3", fname(F), "the number of bytes reported is always the wrapped call's n; the context's error replaces the error only on the edge ctx.Err() != nil and n == 0", 1)
		var nVal, ioErr ssa.Value
		for _, rf := range *s.IO.Referrers() {
			if ex, ok := rf.(*ssa.Extract); ok {
				if ex.Index == 0 {
					nVal = ex
				}
				if ex.Index == s.IO.Call.Signature().Results().Len()-1 {
					ioErr = ex
				}
			}
		}
		var ctxErr *ssa.Call
		instrsOfU(F, func(in ssa.Instruction) {
			if cl, ok := in.(*ssa.Call); ok && cl.Call.IsInvoke() && cl.Call.Method.Name() == "Err" && cl.Call.Value.Type().String() == "context.Context" {
				ctxErr = cl
			}
		})
		var edgeFails []*ssa.Return // shape-based findings, superseded by the path-based evaluation below when it is possible
		for _, in := range findInstrs(F, isReturn) {
			ret := in.(*ssa.Return)
			if F.Recover != nil && ret.Block() == F.Recover {
				continue
			}
			if !canReach(posAfter(s.IO), ret, nil) {
				continue // early returns before the I/O
			}
			o.Site(ret.Pos(), "return after I/O")
			for _, v := range retValAt(ret, 0) {
				for _, leaf := range phiLeaves(v) {
					if leaf != nVal && isConstZero(leaf) && hasFact(ret, func(ft fact) bool {
						cm, ok := normCmp(ft.Cond, ft.Val)
						return ok && cm.Op == token.EQL && ((cm.X == nVal && isConstZero(cm.Y)) || (cm.Y == nVal && isConstZero(cm.X)))
					}) {
						continue // "return 0, e" where n == 0 was just established
					}
					if leaf != nVal {
						o.Fail(ret.Pos(), "the byte count returned (%s) is not always the wrapped call's n: transferred bytes are reported as zero (or zero bytes as transferred)", leaf.String())
					}
				}
			}
			errIdx := len(ret.Results) - 1
			for _, v := range retValAt(ret, errIdx) {
				for _, lf := range phiLeavesWithPred(v) {
					if ctxErr != nil && sameOrigin(lf.v, ssa.Value(ctxErr)) {
						// the edge must carry ctxErr != nil and n == 0
						blk := lf.pred
						if blk == nil {
							blk = ret.Block()
						}
						facts := guardsOfBlock(blk)
						if lf.pred != nil {
							facts = lf.edgeFacts()
						}
						okNil, okZero := false, false
						for _, ft := range facts {
							if nilFact(ft, func(x ssa.Value) bool { return sameOrigin(x, ssa.Value(ctxErr)) }, false) {
								okNil = true
							}
							cm, ok := normCmp(ft.Cond, ft.Val)
							if ok && cm.Op == token.EQL && ((cm.X == nVal && isConstZero(cm.Y)) || (cm.Y == nVal && isConstZero(cm.X))) {
								okZero = true
							}
						}
						if !okNil || !okZero {
							edgeFails = append(edgeFails, ret)
						}
					}
				}
			}
		}
		// conversely: on every path that has found the context fired (ctx.Err() != nil) and nothing transferred
		// (n == 0), the error returned is the context's own error - not a cause, a wrapped or a different error
		isCtxErr := func(v ssa.Value) bool {
			cl, ok := origin(v).(*ssa.Call)
			return ok && cl.Call.IsInvoke() && cl.Call.Method.Name() == "Err" && cl.Call.Value.Type().String() == "context.Context"
		}
		if ps, pok := enumPathsU(F, 6000); pok {
			flagged := map[token.Pos]bool{}
			for i := range ps {
				pp := &ps[i]
				ret, isRet := pp.last().(*ssa.Return)
				if !isRet || pp.indexOf(s.IO) < 0 || len(ret.Results) == 0 {
					continue
				}
				fired, zero := false, false
				ci := 0
				for j, in := range pp.Instrs {
					if _, isIf := in.(*ssa.If); !isIf {
						continue
					}
					my := ci
					ci++
					if my >= len(pp.Conds) {
						break
					}
					ft := pp.Conds[my]
					if v, eq, ok := nilCmpOf(ft.Cond); ok {
						if isCtxErr(pp.valueAt(v, j)) && eq != ft.Val {
							fired = true
						}
						continue
					}
					if cm, ok := normCmp(ft.Cond, ft.Val); ok {
						x, y := pp.valueAt(cm.X, j), pp.valueAt(cm.Y, j)
						switch {
						case cm.Op == token.EQL && ((x == nVal && isConstZero(y)) || (y == nVal && isConstZero(x))):
							zero = true
						case cm.Op == token.LEQ && x == nVal && isConstZero(y), cm.Op == token.GEQ && y == nVal && isConstZero(x):
							zero = true
						}
					}
				}
				evAny := pp.valueAt(ret.Results[len(ret.Results)-1], len(pp.Instrs)-1)
				if isCtxErr(evAny) && !(fired && zero) && !flagged[ret.Pos()] {
					flagged[ret.Pos()] = true
					o.Fail(ret.Pos(), "the context's error is reported on a path that has not established ctx.Err() != nil and n == 0 (a partial transfer would be reported as failed/unwritten)")
				}
				if !fired || !zero {
					continue
				}
				ev := pp.valueAt(ret.Results[len(ret.Results)-1], len(pp.Instrs)-1)
				if !isCtxErr(ev) && !flagged[ret.Pos()] {
					flagged[ret.Pos()] = true
					o.Fail(ret.Pos(), "with the context fired and nothing transferred, the operation does not return the context's error (ctx.Err()) but another value (%s)", ev.String())
				}
			}
		}
		if _, pok2 := enumPathsU(F, 6000); !pok2 {
			for _, ret := range edgeFails {
				o.Fail(ret.Pos(), "the context's error is reported on an edge that has not established ctx.Err() != nil and n == 0 (a partial transfer would be reported as failed/unwritten)")
			}
		}
		if ctxErr == nil {
			o.Fail(F.Pos(), "%s never reports the context's error", fname(F))
		} else {
			sampledAfter := domU(s.IO, ctxErr)
			if !sampledAfter {
				// the sampling sits in a helper shared by the siblings: only this operation's call of it counts
				withRoot(F, func() { sampledAfter = domU(s.IO, ctxErr) })
			}
			if !sampledAfter {
				o.Fail(ctxErr.Pos(), "the context's error is sampled before the I/O finished")
			}
		}
		_ = ioErr

		// R4 per-direction mutex and closed test before the I/O
		o = c.Obl("R4", fname(F), "the operation holds its direction's mutex from entry and tests the closed channel before the I/O", 2)
		if s.Mu == "" {
			o.Fail(F.Pos(), "%s takes no mutex: two operations of the same direction race on the wrapped deadline", fname(F))
		} else {
			o.Site(F.Pos(), "locks %s", s.Mu)
			if !la.holdsOwner(s.IO, s.T, true) {
				o.Fail(s.IO.Pos(), "the I/O call is not under the direction's mutex")
			}
			if muByType[s.T] == nil {
				muByType[s.T] = map[string]string{}
			}
			muByType[s.T][s.Dir] = s.Mu
		}
		okClosed := false
		for _, cm := range commsOfU(F) {
			if cm.Dir == types.RecvOnly && strings.HasPrefix(chanRole(cm.Chan), "field "+s.T+".") && cm.Sel != nil && !cm.Sel.Blocking && domU(cm.Sel, s.IO) {
				okClosed = true
				o.Site(cm.Sel.Pos(), "closed test")
			}
		}
		if !okClosed && s.Caller != nil {
			for _, cm := range commsOfU(s.Caller) {
				if cm.Dir == types.RecvOnly && strings.HasPrefix(chanRole(cm.Chan), "field "+s.T+".") && cm.Sel != nil && !cm.Sel.Blocking && domU(cm.Sel, s.CallSite) {
					okClosed = true
					o.Site(cm.Sel.Pos(), "closed test (in the caller that holds the mutex)")
				}
			}
		}
		if !okClosed {
			o.Fail(F.Pos(), "no test of the closed channel before the I/O")
		}
	}
	o := c.Obl("R4m", "context-wrappers", "reads and writes of one wrapper type use different mutexes (a blocked read must not block writes)", 3)
	for t, m := range muByType {
		o.Site(token.NoPos, "%s: read=%s write=%s", t, m["Read"], m["Write"])
		if m["Read"] == "" || m["Write"] == "" || m["Read"] == m["Write"] {
			o.Fail(token.NoPos, "%s uses the same mutex (%s) for both directions", t, m["Read"])
		}
	}
}

func isConstZero(v ssa.Value) bool {
	k, ok := constInt(v)
	return ok && k == 0
}

// selCaseOnPath: index of the select case taken on the path (-1: default or unknown).
func selCaseOnPath(p *upath, sel *ssa.Select) int {
	for _, ft := range p.Conds {
		if !ft.Val {
			continue
		}
		b, ok := ft.Cond.(*ssa.BinOp)
		if !ok || b.Op != token.EQL {
			continue
		}
		ex, ok := origin(b.X).(*ssa.Extract)
		if !ok || ex.Index != 0 || !sameOrigin(ex.Tuple, ssa.Value(sel)) {
			continue
		}
		if k, ok := constInt(b.Y); ok {
			return int(k)
		}
	}
	return -1
}

// isFixedPast: v is a constant instant long ago: time.Unix(c1, c2) with small constants, directly or as the value a
// package variable is initialised with and that nothing else assigns.
func isFixedPast(p *Prog, v ssa.Value) bool {
	v = strip(v)
	isUnix := func(x ssa.Value) bool {
		cl, ok := x.(*ssa.Call)
		if !ok || callName(cl) != "time.Unix" {
			return false
		}
		a, ok1 := constInt(cl.Call.Args[0])
		_, ok2 := constInt(cl.Call.Args[1])
		return ok1 && ok2 && a >= 0 && a < 1000000000
	}
	if isUnix(v) {
		return true
	}
	ld, ok := v.(*ssa.UnOp)
	if !ok || ld.Op != token.MUL {
		return false
	}
	g, ok := ld.X.(*ssa.Global)
	if !ok || g.Pkg == nil {
		return false
	}
	okInit, bad := false, false
	fns := []*ssa.Function{}
	if ini := g.Pkg.Func("init"); ini != nil {
		fns = append(fns, ini)
	}
	for _, f := range p.Funcs {
		if f.Pkg == g.Pkg && f.Name() != "init" {
			fns = append(fns, f)
		}
	}
	for _, f := range fns {
		for _, fn := range withClosures(f) {
			instrsOf(fn, func(in ssa.Instruction) {
				st, ok := in.(*ssa.Store)
				if !ok || st.Addr != ssa.Value(g) {
					return
				}
				if f.Name() == "init" && isUnix(st.Val) {
					okInit = true
				} else {
					bad = true
				}
			})
		}
	}
	return okInit && !bad
}

// selCaseOnPathAt: like selCaseOnPath for the occurrence of the select at index idx of the path (a helper containing
// the select may be inlined several times): the first test of that select's case index after idx decides.
func selCaseOnPathAt(p *upath, sel *ssa.Select, idx int) int {
	ci := 0
	for j, in := range p.Instrs {
		iff, isIf := in.(*ssa.If)
		if !isIf {
			if j > idx && in == ssa.Instruction(sel) {
				return -1 // the next occurrence: this one was not tested
			}
			continue
		}
		my := ci
		ci++
		if j <= idx || my >= len(p.Conds) {
			continue
		}
		ft := p.Conds[my]
		if ft.If != iff {
			continue
		}
		b, ok := ft.Cond.(*ssa.BinOp)
		if !ok || b.Op != token.EQL {
			continue
		}
		ex, ok := origin(b.X).(*ssa.Extract)
		if !ok || ex.Index != 0 || !sameOrigin(ex.Tuple, ssa.Value(sel)) {
			continue
		}
		k, ok := constInt(b.Y)
		if !ok {
			continue
		}
		if ft.Val {
			return int(k)
		}
		// index != k: keep looking (a chain of tests), unless this was the only case
		if len(sel.States) == 1 {
			return -1
		}
	}
	return -1
}
