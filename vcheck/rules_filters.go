package main

// vnet filters: C14 (delays), C15 (token bucket), C16 (loss filter), and the shared
// FIFO shape rule of chunkQueue.

import (
	"fmt"
	"go/token"
	"go/types"
	"strings"

	"golang.org/x/tools/go/ssa"
)

func isInvoke(in ssa.Instruction, method string) bool {
	c, ok := in.(ssa.CallInstruction)
	return ok && c.Common().IsInvoke() && c.Common().Method.Name() == method
}

// isNICForward: invoke of onInboundChunk on the NIC held in field `NIC` of struct sname.
func isNICForward(in ssa.Instruction, sname string) bool {
	c, ok := in.(*ssa.Call)
	if !ok || !c.Call.IsInvoke() || c.Call.Method.Name() != "onInboundChunk" {
		return false
	}
	v := origin(c.Call.Value)
	for d := 0; d < 4; d++ {
		// the NIC handed on as a narrower interface
		switch x := v.(type) {
		case *ssa.ChangeInterface:
			v = origin(x.X)
			continue
		case *ssa.MakeInterface:
			v = origin(x.X)
			continue
		}
		break
	}
	fr, ok := asFieldLoad(v)
	return ok && fr.SName == sname
}

func isQueueCall(in ssa.Instruction, method string) bool {
	return isPlainCall(in, "(*vnet.chunkQueue)."+method)
}

// queueOf: the struct field the chunkQueue receiver of a queue call is loaded from ("vnet.DelayFilter.queue").
func queueOf(in ssa.Instruction) string {
	c, ok := in.(*ssa.Call)
	if !ok || len(c.Call.Args) == 0 {
		return ""
	}
	if fr, ok := asFieldLoad(c.Call.Args[0]); ok {
		return fr.SName + "." + fr.Field
	}
	return ""
}

// fifoShape: C01.R4 / C14.R7 — chunkQueue is a FIFO: push appends at the end, peek/pop read index 0, pop re-slices from 1.
func fifoShape(c *Ctx, rule string) {
	p := c.P
	o := c.Obl(rule, "vnet.chunkQueue", "the chunk queue is a FIFO: push appends at the end (on the not-full edges), peek and pop return element 0, pop re-slices from 1, all under the queue mutex", 3)
	push, pop, peek := p.Func("vnet", "chunkQueue", "push"), p.Func("vnet", "chunkQueue", "pop"), p.Func("vnet", "chunkQueue", "peek")
	if push == nil || pop == nil || peek == nil {
		o.Undecide("chunkQueue.push/pop/peek not found")
		return
	}
	la := computeLocksets(p)
	// representation of the queue: a slice (append / [0] / [1:]) or a container/list (PushBack / Front / Remove)
	if qn := p.Named("vnet", "chunkQueue"); qn != nil {
		if st, ok := qn.Underlying().(*types.Struct); ok {
			for i := 0; i < st.NumFields(); i++ {
				if st.Field(i).Type().String() == "*container/list.List" {
					fifoShapeList(c, o, st.Field(i).Name(), push, pop, peek, la)
					return
				}
			}
		}
	}
	// push: the only store to chunks is append(load chunks, param)
	nSt := 0
	instrsOfU(push, func(in ssa.Instruction) {
		st, ok := in.(*ssa.Store)
		if !ok || !isFieldStore(st, "vnet.chunkQueue", "chunks") {
			return
		}
		nSt++
		o.Site(in.Pos(), "push stores %s", st.Val.String())
		call, ok := origin(st.Val).(*ssa.Call)
		okApp := ok && isCall(call, "builtin.append") && isFieldLoad(call.Call.Args[0], "vnet.chunkQueue", "chunks")
		if okApp {
			// appended element is the parameter
			okApp = derivesFrom(call.Call.Args[1], func(v ssa.Value) bool { return sameOrigin(v, ssa.Value(push.Params[1])) }, false) ||
				sliceOfParam(call.Call.Args[1], push.Params[1])
		}
		if !okApp {
			o.Fail(in.Pos(), "push does not append its argument at the end of the queue")
		}
		if !la.holds(in, "q.mutex", true) && !la.holds(in, push.Params[0].Name()+".mutex", true) {
			o.Fail(in.Pos(), "push modifies the queue outside its mutex")
		}
	})
	if nSt != 1 {
		o.Fail(push.Pos(), "expected one store to the queue slice in push, found %d", nSt)
	}
	// success return of push (true) must pass the store
	if ok, bad := mustPassU(entryPos(push), func(in ssa.Instruction) bool {
		ret, ok := in.(*ssa.Return)
		if !ok {
			return false
		}
		for _, v := range retValAt(ret, 0) {
			if isConstBool(v, true) {
				return true
			}
		}
		return false
	}, func(in ssa.Instruction) bool { return isFieldStore(in, "vnet.chunkQueue", "chunks") }); !ok {
		o.Fail(bad.Pos(), "push reports success without having appended the chunk")
	}
	for _, f := range []*ssa.Function{pop, peek} {
		for _, v := range returnedValues(f, 0) {
			if isNilConst(v) {
				continue
			}
			u, ok := v.(*ssa.UnOp)
			okIdx := false
			if ok && u.Op == token.MUL {
				if ia, ok := origin(u.X).(*ssa.IndexAddr); ok && isFieldLoad(ia.X, "vnet.chunkQueue", "chunks") {
					if k, ok := constInt(ia.Index); ok && k == 0 {
						okIdx = true
					}
				}
			}
			o.Site(v.Pos(), "%s returns %s", f.Name(), v.String())
			if !okIdx {
				o.Fail(v.Pos(), "%s does not return the oldest element (index 0)", f.Name())
			}
		}
	}
	nSt = 0
	instrsOfU(pop, func(in ssa.Instruction) {
		st, ok := in.(*ssa.Store)
		if !ok || !isFieldStore(st, "vnet.chunkQueue", "chunks") {
			return
		}
		nSt++
		sl, ok := origin(st.Val).(*ssa.Slice)
		okS := ok && isFieldLoad(sl.X, "vnet.chunkQueue", "chunks") && (sl.High == nil ||
			isLenOf(origin(sl.High), func(v ssa.Value) bool { return isFieldLoad(v, "vnet.chunkQueue", "chunks") }))
		if okS {
			k, isC := constInt(sl.Low)
			okS = isC && k == 1
		}
		o.Site(in.Pos(), "pop re-slices")
		if !okS {
			o.Fail(in.Pos(), "pop does not remove exactly the oldest element (chunks = chunks[1:])")
		}
	})
	if nSt != 1 {
		o.Fail(pop.Pos(), "expected one store to the queue slice in pop, found %d", nSt)
	}
	instrsOfU(peek, func(in ssa.Instruction) {
		if st, ok := in.(*ssa.Store); ok {
			if _, isF := asFieldAddr(st.Addr); isF {
				o.Fail(in.Pos(), "peek modifies the queue")
			}
		}
	})
}

func sliceOfParam(v ssa.Value, prm *ssa.Parameter) bool {
	// append(x, c) is compiled as append(x, varargs-slice{c})
	sl, ok := v.(*ssa.Slice)
	if !ok {
		return false
	}
	al, ok := origin(sl.X).(*ssa.Alloc)
	if !ok {
		return false
	}
	found := false
	for _, r := range *al.Referrers() {
		if ia, ok := r.(*ssa.IndexAddr); ok {
			for _, rr := range *ia.Referrers() {
				if st, ok := rr.(*ssa.Store); ok && sameOrigin(st.Val, ssa.Value(prm)) {
					found = true
				}
			}
		}
	}
	return found
}

// peekBelief: C14.R1 — the result of every peek() is nil-tested or asserted with comma-ok
// before any use that panics on nil.
func peekBelief(c *Ctx, rule string, floor int) {
	p := c.P
	o := c.Obl(rule, "vnet.chunkQueue.peek", "every result of peek() is nil-tested, or type-asserted with comma-ok, before any use that would panic on an empty queue", floor)
	for _, f := range p.Funcs {
		if isPrivateHelper(f) && !unitExclude[f] {
			continue // analysed as part of the functions that call it
		}
		if pkgOf(f) != "vnet" {
			continue
		}
		for _, in := range findU(f, func(in ssa.Instruction) bool { return isQueueCall(in, "peek") }) {
			pk := in.(*ssa.Call)
			o.Site(in.Pos(), "peek() in %s", fname(f))
			nonNil := func(at ssa.Instruction) bool {
				return hasFact(at, func(ft fact) bool {
					return nilFact(ft, func(v ssa.Value) bool { return sameOrigin(v, ssa.Value(pk)) }, false)
				})
			}
			for _, rf := range *pk.Referrers() {
				switch x := rf.(type) {
				case *ssa.TypeAssert:
					if !x.CommaOk && !nonNil(x) {
						o.Fail(x.Pos(), "%s asserts the type of peek()'s result without comma-ok and without a nil test: panics when the queue is empty (the other peek sites test for nil)", fname(f))
					}
					if x.CommaOk {
						// uses of the asserted value must be on the ok edge
						var okv, val ssa.Value
						for _, r2 := range *x.Referrers() {
							if ex, ok := r2.(*ssa.Extract); ok {
								if ex.Index == 1 {
									okv = ex
								} else {
									val = ex
								}
							}
						}
						if val != nil {
							checkUsesGuarded(o, f, val, okv, nonNil, map[ssa.Value]bool{})
						}
					}
				case *ssa.Call:
					if x.Call.IsInvoke() && sameOrigin(x.Call.Value, ssa.Value(pk)) && !nonNil(x) {
						o.Fail(x.Pos(), "%s calls a method on peek()'s result without a nil test", fname(f))
					}
				}
			}
		}
	}
}

// checkUsesGuarded: field reads of a comma-ok asserted value (through its local cell)
// happen only where ok is known true or the source is known non-nil.
func checkUsesGuarded(o *Obligation, f *ssa.Function, val, okv ssa.Value, nonNil func(ssa.Instruction) bool, seen map[ssa.Value]bool) {
	if seen[val] {
		return
	}
	seen[val] = true
	for _, r := range *val.Referrers() {
		switch x := r.(type) {
		case *ssa.Store:
			if cell, ok := x.Addr.(*ssa.Alloc); ok && x.Val == val {
				// the uses this store reaches (the variable may be assigned again from a second assertion)
				reached := reach(posAfter(x), func(in ssa.Instruction) bool {
					st, isSt := in.(*ssa.Store)
					return isSt && st.Addr == ssa.Value(cell) && st != x
				})
				for _, cr := range *cell.Referrers() {
					if fa, ok := cr.(*ssa.FieldAddr); ok {
						for _, use := range *fa.Referrers() {
							ui, _ := use.(ssa.Instruction)
							if ui == nil || !reached[ui] {
								continue
							}
							okEdge := okv != nil && hasFact(ui, func(ft fact) bool { return boolFact(ft, func(v ssa.Value) bool { return v == okv }, true) })
							if !okEdge {
								o.Fail(ui.Pos(), "%s uses a field of the asserted queue head where the assertion may have failed (zero value: forwards a nil chunk / arms the timer with the zero time)", fname(f))
							}
						}
					}
				}
			}
		}
	}
}

// ---------------------------------------------------------------------------------
// C16 — loss filter
// ---------------------------------------------------------------------------------

func runC16(c *Ctx) {
	p := c.P
	vnetExclude(p)
	f := p.Func("vnet", "LossFilter", "onInboundChunk")
	nw := p.Func("vnet", "", "NewLossFilter")
	named := p.Named("vnet", "LossFilter")
	if f == nil || nw == nil || named == nil {
		c.Obl("R0", "vnet.LossFilter", "anchors of the loss filter are resolved", 1).Undecide("LossFilter / NewLossFilter / onInboundChunk not found")
		return
	}
	st := named.Underlying().(*types.Struct)
	chanceField := ""
	// the chance is the integer field the constructor fills from its integer parameter
	instrsOfU(nw, func(in ssa.Instruction) {
		if s, ok := in.(*ssa.Store); ok {
			if fr, ok := asFieldAddr(s.Addr); ok && fr.SName == "vnet.LossFilter" {
				v := s.Val
				if cv, ok := v.(*ssa.Convert); ok {
					v = cv.X
				}
				if ct, ok := v.(*ssa.ChangeType); ok {
					v = ct.X // a named integer type
				}
				if prm, ok := v.(*ssa.Parameter); ok {
					if b, ok := prm.Type().Underlying().(*types.Basic); ok && b.Info()&types.IsInteger != 0 {
						chanceField = fr.Field
					}
				} else if harmlessChanceClamp(v, nw, f) {
					chanceField = fr.Field
				}
			}
		}
	})
	if chanceField == "" {
		c.Obl("R0", "vnet.LossFilter", "anchors of the loss filter are resolved", 1).Undecide("the field holding the configured chance was not found")
		return
	}
	for i := 0; i < st.NumFields(); i++ {
		if st.Field(i).Name() != chanceField {
			continue
		}
		if b, ok := st.Field(i).Type().Underlying().(*types.Basic); ok && b.Kind() != types.Int {
			c.Obl("R1", "vnet.LossFilter."+chanceField, "the configured chance is kept as an int (no narrowing)", 1).Fail(f.Pos(), "the chance is stored in a %s: out-of-range chances (>= 256) wrap and no longer drop everything", b.Name())
		}
	}
	o := c.Obl("R1", fname(f), "exactly one uniform draw rand.Intn(100) per datagram, dropped iff draw < chance with chance the configured int (so chance <= 0 never drops and chance >= 100 always does)", 2)
	var draws []*ssa.Call
	instrsOfU(f, func(in ssa.Instruction) {
		if call, ok := in.(*ssa.Call); ok {
			n := callName(call)
			if strings.HasPrefix(n, "math/rand.") || strings.HasPrefix(n, "math/rand/v2.") || strings.HasPrefix(n, "(*math/rand.Rand).") {
				draws = append(draws, call)
				o.Site(in.Pos(), "%s", in.String())
			}
		}
	})
	if len(draws) != 1 {
		o.Fail(f.Pos(), "expected exactly one random draw per datagram, found %d", len(draws))
		return
	}
	d := draws[0]
	switch callName(d) {
	case "math/rand.Intn", "math/rand.Int31n", "math/rand.Int63n", "math/rand/v2.IntN", "math/rand/v2.Int32N", "math/rand/v2.Int64N":
	default:
		o.Fail(d.Pos(), "the draw is %s, not a uniform rand.Intn(100)", callName(d))
	}
	if len(d.Call.Args) != 1 {
		o.Fail(d.Pos(), "the draw is not uniform over [0,100)")
	} else if k, ok := constInt(d.Call.Args[0]); !ok || k != 100 {
		o.Fail(d.Pos(), "the draw is not uniform over [0,100)")
	}
	if m, inf := maxEventsU(entryPos(f), isReturn, func(in ssa.Instruction) int { return b2i(in == ssa.Instruction(d)) }); m != 1 || inf {
		o.Fail(d.Pos(), "the draw can be executed more than once per datagram")
	}
	recv := f.Params[0].Name()
	sym := func(v ssa.Value) (string, bool) {
		if sameOrigin(v, ssa.Value(d)) {
			return "draw", true
		}
		return defaultSym(v)
	}
	dr := &decisionRegion{start: entryPos(f), sym: sym, classify: func(in ssa.Instruction) string {
		if isNICForward(in, "vnet.LossFilter") {
			return "forward"
		}
		if isReturn(in) {
			return "drop"
		}
		return ""
	}}
	dropAtom := atom{Form: linSym(recv+"."+chanceField).add(linSym("draw"), -1)} // chance - draw > 0
	cex := dr.compareWithSpec(func(val func(a atom) bool) string {
		if val(dropAtom) {
			return "drop"
		}
		return "forward"
	})
	for _, a := range dr.Atoms {
		o.Site(f.Pos(), "branch atom %s", a)
	}
	if !dr.has(dropAtom) {
		o.Fail(f.Pos(), "the drop test is not 'draw < chance' on the configured chance (narrowing conversion, other threshold or other operand)")
	}
	if cex != "" {
		o.Fail(f.Pos(), "drop decision differs from 'drop iff draw < chance': %s", cex)
	}
	// constructor stores its int parameter unchanged
	okStore := false
	instrsOfU(nw, func(in ssa.Instruction) {
		if s, ok := in.(*ssa.Store); ok && isFieldStore(s, "vnet.LossFilter", chanceField) {
			o.Site(in.Pos(), "constructor stores %s", s.Val.Name())
			sv := s.Val
			if ct, ok := sv.(*ssa.ChangeType); ok {
				sv = ct.X
			}
			if _, isP := sv.(*ssa.Parameter); isP {
				okStore = true
			} else if harmlessChanceClamp(sv, nw, f) {
				okStore = true
				o.Site(in.Pos(), "the chance is clamped to a range that contains every draw: same drop decisions")
			} else {
				o.Fail(in.Pos(), "the constructor does not store the configured chance unchanged")
			}
		}
	})
	if !okStore {
		o.Fail(nw.Pos(), "the constructor does not store the configured chance")
	}
	// (re)seeding the shared generator: only with a value that does not repeat between constructions (nanosecond
	// clock); a coarser seed resets the generator to the same state for every filter built within that unit, which
	// correlates the draws of filters that are already running
	for _, g := range p.Funcs {
		if pkgOf(g) != "vnet" {
			continue
		}
		instrsOf(g, func(in ssa.Instruction) {
			cl, ok := in.(*ssa.Call)
			if !ok || callName(cl) != "math/rand.Seed" {
				return
			}
			o.Site(in.Pos(), "rand.Seed in %s", fname(g))
			src, ok := origin(cl.Call.Args[0]).(*ssa.Call)
			if !ok || callName(src) != "(time.Time).UnixNano" {
				o.Fail(in.Pos(), "%s seeds the shared generator with something coarser than the nanosecond clock: filters built close together restart the same sequence and the draws are no longer independent", fname(g))
			}
		})
	}

	o = c.Obl("R2", fname(f), "whatever is forwarded is the very chunk received, at most once, to the wrapped NIC, and nothing else is written", 1)
	nF := 0
	instrsOfU(f, func(in ssa.Instruction) {
		switch x := in.(type) {
		case *ssa.Call:
			if helperCallee(x) != nil {
				return // a private helper: its instructions are visited as part of the unit
			}
			if isNICForward(in, "vnet.LossFilter") {
				nF++
				o.Site(in.Pos(), "forward")
				if !sameOrigin(originAt(x.Call.Args[0], in), ssa.Value(f.Params[1])) {
					o.Fail(in.Pos(), "the forwarded chunk is not the received one (a copy made by Clone drops fields of TCP chunks)")
				}
			} else if x != d {
				if _, isB := x.Call.Value.(*ssa.Builtin); !isB {
					o.Fail(in.Pos(), "unexpected call %s in the loss filter", callName(x))
				}
			}
		case *ssa.Store, *ssa.MapUpdate, *ssa.Send, *ssa.Go, *ssa.Defer:
			o.Fail(in.Pos(), "the loss filter has a side effect besides forwarding: %s", in.String())
		}
	})
	if nF == 0 {
		o.Fail(f.Pos(), "the loss filter never forwards")
	}
	if m, inf := maxEventsU(entryPos(f), isReturn, func(in ssa.Instruction) int { return b2i(isNICForward(in, "vnet.LossFilter")) }); m > 1 || inf {
		o.Fail(f.Pos(), "a datagram can be forwarded more than once")
	}
}

// ---------------------------------------------------------------------------------
// C15 — token bucket filter
// ---------------------------------------------------------------------------------

func runC15(c *Ctx) {
	p := c.P
	T := "vnet.TokenBucketFilter"
	vnetExclude(p, p.Func("vnet", "TokenBucketFilter", "run"), p.Func("vnet", "TokenBucketFilter", "drainQueue"), p.Func("vnet", "TokenBucketFilter", "refillTokens"))
	run := p.Func("vnet", "TokenBucketFilter", "run")
	nw := p.Func("vnet", "", "NewTokenBucketFilter")
	if run == nil || nw == nil || p.Named("vnet", "TokenBucketFilter") == nil {
		c.Obl("R0", T, "anchors of the token bucket filter are resolved", 1).Undecide("TokenBucketFilter / run / constructor not found")
		return
	}
	// roles: tokens = the float64 field; burst = int field converted into math.Min with tokens
	tokens := ""
	st := p.Named("vnet", "TokenBucketFilter").Underlying().(*types.Struct)
	for i := 0; i < st.NumFields(); i++ {
		if b, ok := st.Field(i).Type().(*types.Basic); ok && b.Kind() == types.Float64 {
			tokens = st.Field(i).Name()
		}
	}
	if tokens == "" {
		c.Obl("R0", T, "anchors of the token bucket filter are resolved", 1).Undecide("token counter (float64 field) not found")
		return
	}
	cg := p.CG()
	fns := cg.reachableFrom([]*ssa.Function{run}, func(e cgEdge) bool {
		return pkgOf(e.To) == "vnet" && e.To.Signature.Recv() != nil && typeName(e.To.Signature.Recv().Type()) == T
	})

	// R1 every store to tokens is capped or a decrease
	o := c.Obl("R1", T+"."+tokens, "every store to the token count is min(float64(maxBurst), ...) or subtracts the size of the forwarded datagram; the refill executes the capped store on every path (idle accumulation and a lowered burst are clipped)", 2)
	var burst string
	var refill *ssa.Function
	for _, f := range p.Funcs {
		if pkgOf(f) != "vnet" {
			continue
		}
		instrsOf(f, func(in ssa.Instruction) {
			s, ok := in.(*ssa.Store)
			if !ok || !isFieldStore(s, T, tokens) {
				return
			}
			if isFreshBase(s.Addr.(*ssa.FieldAddr).X) {
				return
			}
			o.Site(in.Pos(), "store in %s: %s", fname(f), s.Val.String())
			if bf, ok := cappedBy(s.Val, T); ok {
				burst = bf
				refill = f
				return
			}
			if b, ok := origin(s.Val).(*ssa.BinOp); ok && b.Op == token.SUB && isFieldLoad(b.X, T, tokens) {
				return // decrease, checked in R2
			}
			o.Fail(in.Pos(), "the token count is set in %s without the min(maxBurst, .) cap: the burst bound can be exceeded", fname(f))
		})
	}
	if refill == nil {
		o.Fail(run.Pos(), "no capped refill of the token count found")
	} else {
		isCap := func(in ssa.Instruction) bool {
			s, ok := in.(*ssa.Store)
			if !ok || !isFieldStore(s, T, tokens) {
				return false
			}
			_, ok = cappedBy(s.Val, T)
			return ok
		}
		if ok, bad := mustPassU(entryPos(refill), isReturn, isCap); !ok {
			o.Fail(bad.Pos(), "%s can return without clipping the token count to the current burst size (a burst lowered at run time is never enforced)", fname(refill))
		}
		// the refill runs under the mutex that protects rate/maxBurst
		la := computeLocksets(p)
		for _, in := range findU(refill, isCap) {
			if !la.holdsOwner(in, T, true) {
				o.Fail(in.Pos(), "the refill reads rate/maxBurst outside the filter's mutex")
			}
		}
	}
	_ = burst

	// R2 drain loop: forward only with enough tokens, paired with one pop and the matching decrement
	var drain *ssa.Function
	for f := range fns {
		if isPrivateHelper(f) && !unitExclude[f] {
			continue
		}
		if len(findU(f, func(in ssa.Instruction) bool { return isNICForward(in, T) })) > 0 {
			if drain != nil && drain != f {
				drain = nil
				break
			}
			drain = f
		}
	}
	o = c.Obl("R2", T, "a datagram is forwarded only from the drain loop, only if tokens >= its size, together with exactly one pop and tokens -= that size; the forwarded value is the peeked head", 2)
	// who may forward
	nFwdSites := 0
	for _, f := range p.Funcs {
		if isPrivateHelper(f) && !unitExclude[f] {
			continue // analysed as part of the functions that call it
		}
		if pkgOf(f) != "vnet" {
			continue
		}
		for _, in := range findU(f, func(in ssa.Instruction) bool { return isNICForward(in, T) }) {
			nFwdSites++
			o.Site(in.Pos(), "forward in %s", fname(f))
		}
	}
	if drain == nil || nFwdSites != 1 {
		o.Fail(run.Pos(), "expected exactly one forwarding site (in the drain loop), found %d: a second site can overtake queued datagrams (FIFO) or bypass the token test", nFwdSites)
	}
	if drain != nil {
		fw := findU(drain, func(in ssa.Instruction) bool { return isNICForward(in, T) })[0].(*ssa.Call)
		arg := fw.Call.Args[0]
		// the forwarded value: every phi leaf must be a peek() of the filter's queue
		var pks []*ssa.Call
		okHead := true
		for _, lf := range phiLeaves(origin(arg)) {
			pkc, ok := lf.(*ssa.Call)
			if !ok || !isQueueCall(pkc, "peek") || !strings.HasPrefix(queueOf(pkc), T+".") {
				okHead = false
				continue
			}
			pks = append(pks, pkc)
		}
		if !okHead || len(pks) == 0 {
			o.Fail(fw.Pos(), "the forwarded chunk is not the head returned by peek()")
		} else {
			isHead := func(v ssa.Value) bool {
				if v == arg || sameOrigin(v, arg) {
					return true
				}
				for _, pkc := range pks {
					if sameOrigin(v, ssa.Value(pkc)) {
						return true
					}
				}
				return false
			}
			// size value: float64(len(head.UserData()))
			isSize := func(v ssa.Value) bool {
				return derivesFrom(v, func(x ssa.Value) bool {
					call, ok := x.(*ssa.Call)
					return ok && call.Call.IsInvoke() && call.Call.Method.Name() == "UserData" && isHead(call.Call.Value)
				}, true)
			}
			enough := hasFact(fw, func(ft fact) bool {
				cm, ok := normCmp(ft.Cond, ft.Val)
				// size <= tokens
				return ok && cm.Op == token.LEQ && isSize(cm.X) && isFieldLoad(cm.Y, T, tokens)
			})
			if !enough {
				o.Fail(fw.Pos(), "the forward is not guarded by tokens >= size of the head")
			}
			isPeek := func(in ssa.Instruction) bool { return isQueueCall(in, "peek") && queueOf(in) == queueOf(pks[0]) }
			isPop := func(in ssa.Instruction) bool { return isQueueCall(in, "pop") && queueOf(in) == queueOf(pks[0]) }
			isDec := func(in ssa.Instruction) bool {
				s, ok := in.(*ssa.Store)
				if !ok || !isFieldStore(s, T, tokens) {
					return false
				}
				b, ok := origin(s.Val).(*ssa.BinOp)
				return ok && b.Op == token.SUB && isFieldLoad(b.X, T, tokens) && isSize(b.Y)
			}
			end := func(in ssa.Instruction) bool { return isPeek(in) || isReturn(in) }
			for _, ev := range []struct {
				name string
				is   func(ssa.Instruction) bool
			}{{"pop", isPop}, {"token decrement by the forwarded size", isDec}} {
				for _, pk := range pks {
					mx, inf := maxEventsU(posAfter(pk), end, func(in ssa.Instruction) int { return b2i(ev.is(in)) })
					if mx > 1 || inf {
						o.Fail(fw.Pos(), "more than one %s per loop iteration", ev.name)
					}
				}
				before := true
				for _, pk := range pks {
					bf, _ := mustPassU(posAfter(pk), func(in ssa.Instruction) bool { return in == ssa.Instruction(fw) }, ev.is)
					before = before && bf
				}
				after, _ := mustPassU(posAfter(fw), end, ev.is)
				if !before && !after {
					o.Fail(fw.Pos(), "a forwarded datagram is not paired with a %s on every path of the iteration", ev.name)
				}
			}
			// pop => forward (nothing is popped and discarded)
			for _, pp := range findU(drain, isPop) {
				o.Site(pp.Pos(), "pop")
				bef := true
				for _, pk := range pks {
					if canReach(posAfter(pk), pp, end) {
						b1, _ := mustPassU(posAfter(pk), func(in ssa.Instruction) bool { return in == pp }, func(in ssa.Instruction) bool { return in == ssa.Instruction(fw) })
						bef = bef && b1
					}
				}
				aft, _ := mustPassU(posAfter(pp), end, func(in ssa.Instruction) bool { return in == ssa.Instruction(fw) })
				if !bef && !aft {
					o.Fail(pp.Pos(), "the head is popped on a path that does not forward it: a datagram is discarded although the queue is not full")
				}
			}
			for _, pk := range pks {
				if mx, inf := maxEventsU(posAfter(pk), end, func(in ssa.Instruction) int { return b2i(in == ssa.Instruction(fw)) }); mx > 1 || inf {
					o.Fail(fw.Pos(), "the head can be forwarded twice in one iteration")
				}
			}
		}
	}

	// R3 pops of the filter's queue only in the drain loop; pushes only of the arriving chunk
	o = c.Obl("R3", T+".queue", "the filter's queue is popped only by the drain loop and fed only with the arriving chunk; a datagram is discarded only when push() refuses it (byte queue full)", 2)
	for _, f := range p.Funcs {
		if pkgOf(f) != "vnet" {
			continue
		}
		instrsOf(f, func(in ssa.Instruction) {
			if !strings.HasPrefix(queueOf(in), T+".") {
				return
			}
			if isQueueCall(in, "pop") {
				o.Site(in.Pos(), "pop in %s", fname(f))
				if !isIn(f, drain) {
					o.Fail(in.Pos(), "the filter's queue is popped in %s", fname(f))
				}
			}
			if isQueueCall(in, "push") {
				o.Site(in.Pos(), "push in %s", fname(f))
				if !isIn(f, run) {
					o.Fail(in.Pos(), "the filter's queue is fed from %s", fname(f))
				}
			}
		})
	}
	// arriving chunk: received from the filter's channel in run, pushed, then drained
	for _, cm := range commsOfU(run) {
		if cm.Dir == types.RecvOnly && strings.HasPrefix(chanRole(cm.Chan), "field "+T+".") && cm.Sel != nil {
			cs, _ := caseBlocks(cm.Sel)
			blk := cs[cm.Index]
			if blk == nil {
				blk = lastCaseBlock(cm.Sel)
			}
			if blk == nil {
				continue
			}
			if et, ok := cm.Chan.Type().Underlying().(*types.Chan); !ok || typeName(et.Elem()) != "vnet.Chunk" {
				continue
			}
			isPush := func(in ssa.Instruction) bool { return isQueueCall(in, "push") }
			ok1, bad := mustPassU(blockStart(blk), func(in ssa.Instruction) bool {
				if isReturn(in) {
					return true
				}
				s, ok := in.(*ssa.Select)
				return ok && s == cm.Sel
			}, isPush)
			o.Site(cm.Sel.Pos(), "arrival branch of run")
			if !ok1 {
				o.Fail(bad.Pos(), "an arriving datagram can be dropped without being offered to the queue")
			}
		}
	}
	// R4 single consumer
	o = c.Obl("R4", fname(run), "single consumer: the drain loop is reached only from run, which is started once by the constructor", 1)
	if drain != nil {
		for _, e := range cg.In[drain] {
			o.Site(e.Site.Pos(), "drain called from %s", fname(e.From))
			if e.From != run || e.Kind != "static" {
				o.Fail(e.Site.Pos(), "the drain loop is also entered from %s (%s)", fname(e.From), e.Kind)
			}
		}
	}
	nGo := 0
	for _, e := range cg.In[run] {
		if e.Kind == "go" && e.From == nw && !inLoop(e.Site) {
			nGo++
		} else {
			o.Fail(e.Site.Pos(), "run is also invoked from %s (%s)", fname(e.From), e.Kind)
		}
	}
	if nGo != 1 {
		o.Fail(run.Pos(), "run must be started exactly once by the constructor")
	}
	// R9c the bucket is filled only by the filter's own goroutine: a refill from the constructor runs before the
	// options are applied (default rate and burst instead of the configured ones), one from any other caller is
	// unordered with the loop's own refills
	if refill != nil {
		o9c := c.Obl("R9c", fname(refill), "the refill is called only from the filter's run loop (after the options were applied, by the single goroutine that owns the bucket)", 1)
		for _, e := range cg.In[refill] {
			if e.Kind == "ref" {
				continue
			}
			o9c.Site(e.Site.Pos(), "refill called from %s", fname(e.From))
			from := e.From
			for from.Parent() != nil {
				from = from.Parent() // a local closure of the run loop (refillIfDue := func() {…})
			}
			if !(from == run || isIn(from, run)) || e.Kind != "static" {
				o9c.Fail(e.Site.Pos(), "the bucket is refilled from %s, outside the run loop: tokens are granted with the wrong configuration or unordered with the loop", fname(e.From))
			}
		}
	}
	// R9 tokens are topped up before an arrival is served: on every path of run from the receipt of a chunk to the
	// first drain, the elapsed time since the last refill has been compared with the minimum refill interval (a
	// refill that is only done once the bucket runs short keeps the idle time as credit: after the burst has left, a
	// second burst's worth of tokens is granted at once)
	if drain != nil {
		o9 := c.Obl("R9", fname(run), "every drain that serves an arrival comes after the refill decision (elapsed time since the last refill compared with the minimum refill interval): idle time is turned into tokens, capped at the burst, before datagrams leave - not afterwards", 1)
		rpaths, okR := enumIterPathsU(run, 50000)
		if !okR {
			o9.Undecide("the paths of run could not be enumerated")
		}
		isRefillCmp := func(pt *upath, in ssa.Instruction, idx int) bool {
			b, ok := in.(*ssa.BinOp)
			if !ok {
				return false
			}
			switch b.Op {
			case token.LSS, token.LEQ, token.GTR, token.GEQ:
			default:
				return false
			}
			hasElapsed, hasMin := false, false
			for _, sd := range []ssa.Value{b.X, b.Y} {
				v := strip(pt.valueAt(sd, idx))
				if cl, ok := v.(*ssa.Call); ok {
					switch callName(cl) {
					case "time.Since", "(time.Time).Sub":
						hasElapsed = true
					}
				}
				if fr, ok := asFieldLoad(v); ok && fr.SName == T && v.Type().String() == "time.Duration" {
					hasMin = true
				}
			}
			return hasElapsed && hasMin
		}
		failed9 := map[ssa.Instruction]bool{}
		nServed := 0
		for pi := range rpaths {
			pt := &rpaths[pi]
			arrived, decided := false, false
			for idx, in := range pt.Instrs {
				if sel, ok := in.(*ssa.Select); ok {
					k := selCaseOnPathAt(pt, sel, idx)
					if k >= 0 && k < len(sel.States) && sel.States[k].Dir == types.RecvOnly {
						if ch, isCh := sel.States[k].Chan.Type().Underlying().(*types.Chan); isCh {
							if _, isIface := ch.Elem().Underlying().(*types.Interface); isIface {
								arrived, decided = true, false
							}
						}
					}
					continue
				}
				if !arrived {
					continue
				}
				if isRefillCmp(pt, in, idx) {
					decided = true
				}
				// the decision taken inside a local closure (refillIfDue := func() {…}; refillIfDue())
				if cl, ok := in.(*ssa.Call); ok {
					if sc := cl.Call.StaticCallee(); sc != nil && sc.Parent() != nil && pt.indexOf(cl) == idx && helperCallee(cl) == nil {
						instrsOf(sc, func(x ssa.Instruction) {
							b, ok := x.(*ssa.BinOp)
							if !ok {
								return
							}
							switch b.Op {
							case token.LSS, token.LEQ, token.GTR, token.GEQ:
							default:
								return
							}
							hasElapsed, hasMin := false, false
							for _, sd := range []ssa.Value{b.X, b.Y} {
								v := strip(sd)
								if c2, ok := v.(*ssa.Call); ok && (callName(c2) == "time.Since" || callName(c2) == "(time.Time).Sub") {
									hasElapsed = true
								}
								if fr, ok := asFieldLoad(v); ok && fr.SName == T && v.Type().String() == "time.Duration" {
									hasMin = true
								}
							}
							if hasElapsed && hasMin {
								decided = true
							}
						})
					}
				}
				if cl, ok := in.(*ssa.Call); ok && cl.Call.StaticCallee() == drain {
					nServed++
					if !decided && !failed9[in] {
						failed9[in] = true
						o9.Fail(in.Pos(), "the queue is drained for an arrival before the refill decision was taken: idle time is credited after the burst has left (up to two bursts back to back)")
					}
					if decided {
						o9.Site(in.Pos(), "drain after the refill decision")
					}
					break
				}
			}
		}
		if nServed == 0 && okR {
			o9.Undecide("no path of run serves an arrival by a drain")
		}
	}
	fifoShape(c, "R5")
	peekBelief(c, "R6", 5)

	// R7 the queue is built from the configured byte limit, after the options were applied
	o = c.Obl("R7", fname(nw), "the filter's queue gets no count limit and, as its byte limit, the value of the size field read after the caller's options were applied (so a configured queue size is the one in force)", 1)
	var opts *ssa.Parameter
	for _, prm := range nw.Params {
		if sl, ok := prm.Type().Underlying().(*types.Slice); ok {
			if _, isFn := sl.Elem().Underlying().(*types.Signature); isFn {
				opts = prm
			}
		}
	}
	var applyOpts []ssa.Instruction
	if opts != nil {
		applyOpts = findU(nw, func(in ssa.Instruction) bool {
			cl, ok := in.(*ssa.Call)
			if !ok {
				return false
			}
			for _, a := range cl.Call.Args {
				if sameOrigin(a, ssa.Value(opts)) {
					return true
				}
			}
			return false
		})
	}
	nQ := 0
	for _, in := range findU(nw, func(in ssa.Instruction) bool {
		st, ok := in.(*ssa.Store)
		if !ok {
			return false
		}
		fr, ok := asFieldAddr(st.Addr)
		return ok && fr.SName == T && typeName(st.Val.Type()) == "vnet.chunkQueue"
	}) {
		st := in.(*ssa.Store)
		if isNilConst(st.Val) {
			continue
		}
		mk, ok := derefLocal(st.Val).(*ssa.Call)
		if !ok || mk.Call.StaticCallee() == nil || len(mk.Call.Args) != 2 {
			o.Fail(in.Pos(), "the filter's queue is not built by the queue constructor")
			continue
		}
		nQ++
		o.Site(in.Pos(), "queue = %s", mk.String())
		if k, ok := constInt(mk.Call.Args[0]); !ok || k != 0 {
			o.Fail(in.Pos(), "the filter's queue has a count limit: datagrams are discarded although the byte queue is not full")
		}
		fr, ok := asFieldLoad(mk.Call.Args[1])
		if !ok || fr.SName != T {
			o.Fail(in.Pos(), "the byte limit of the queue is not the filter's configured queue size")
			continue
		}
		// the option setters write this very field
		written := false
		for _, g := range p.Funcs {
			if pkgOf(g) != "vnet" || g.Parent() == nil {
				continue
			}
			instrsOf(g, func(x ssa.Instruction) {
				if isFieldStore(x, T, fr.Field) {
					switch ov := origin(x.(*ssa.Store).Val).(type) {
					case *ssa.FreeVar:
						written = true
					case *ssa.Parameter:
						if ov.Parent() != g { // a parameter of the function that makes the option
							written = true
						}
					case *ssa.UnOp:
						if _, isFV := ov.X.(*ssa.FreeVar); isFV {
							written = true
						}
					}
				}
			})
		}
		if !written {
			o.Fail(in.Pos(), "no option sets %s.%s, the field the queue size is taken from", T, fr.Field)
		}
		ld, _ := origin(mk.Call.Args[1]).(ssa.Instruction)
		if opts != nil {
			okOrder := false
			for _, ap := range applyOpts {
				if ld != nil && domU(ap, ld) {
					okOrder = true
				}
			}
			if !okOrder {
				o.Fail(in.Pos(), "the queue size is read before the caller's options are applied: TBFQueueSizeInBytes has no effect and datagrams are discarded beyond the default size")
			}
		}
	}
	if nQ == 0 {
		o.Fail(nw.Pos(), "the constructor does not create the filter's queue")
	}
	queueByteAccounting(c, "R8")
}

// queueByteAccounting: the byte occupancy of the chunk queue goes up by the payload length of the chunk pushed and
// down by the payload length of the chunk popped - the same measure on both sides - and the "full" test of push
// is on occupancy + that length.
func queueByteAccounting(c *Ctx, rule string) {
	p := c.P
	o := c.Obl(rule, "vnet.chunkQueue.bytes", "the queue's byte occupancy changes only by +len(payload) of the chunk pushed and -len(payload) of the chunk popped (one measure on both sides: nothing leaks, nothing is double counted), and push refuses on occupancy+len(payload) against the byte limit", 2)
	push, pop := p.Func("vnet", "chunkQueue", "push"), p.Func("vnet", "chunkQueue", "pop")
	named := p.Named("vnet", "chunkQueue")
	if push == nil || pop == nil || named == nil {
		o.Undecide("chunkQueue push/pop not found")
		return
	}
	// the occupancy field: the int field both push and pop store to
	st, _ := named.Underlying().(*types.Struct)
	field := ""
	if st != nil {
		for i := 0; i < st.NumFields(); i++ {
			f := st.Field(i).Name()
			inPush, inPop := false, false
			instrsOfU(push, func(in ssa.Instruction) {
				if isFieldStore(in, "vnet.chunkQueue", f) {
					inPush = true
				}
			})
			instrsOfU(pop, func(in ssa.Instruction) {
				if isFieldStore(in, "vnet.chunkQueue", f) {
					inPop = true
				}
			})
			if b, ok := st.Field(i).Type().Underlying().(*types.Basic); ok && b.Info()&types.IsInteger != 0 && inPush && inPop {
				field = f
			}
		}
	}
	if field == "" {
		o.Undecide("no integer occupancy field written by both push and pop")
		return
	}
	payloadLen := func(v ssa.Value, chunk func(ssa.Value) bool) bool {
		return isLenOf(origin(v), func(x ssa.Value) bool {
			cl, ok := origin(x).(*ssa.Call)
			return ok && cl.Call.IsInvoke() && cl.Call.Method.Name() == "UserData" && chunk(cl.Call.Value)
		})
	}
	check := func(f *ssa.Function, op token.Token, chunk func(ssa.Value) bool, what string) {
		n := 0
		for _, in := range findU(f, func(in ssa.Instruction) bool { return isFieldStore(in, "vnet.chunkQueue", field) }) {
			n++
			stv := in.(*ssa.Store)
			o.Site(in.Pos(), "%s: %s %s= ...", fname(f), field, op)
			b, ok := origin(stv.Val).(*ssa.BinOp)
			if !ok || b.Op != op || !isFieldLoad(b.X, "vnet.chunkQueue", field) || !payloadLen(b.Y, chunk) {
				o.Fail(in.Pos(), "%s does not change %s by exactly len(UserData()) of %s (a different measure on one side leaks or double counts bytes: the queue ends up full while empty, or never full)", fname(f), field, what)
			}
		}
		if n != 1 {
			o.Fail(f.Pos(), "expected one update of %s in %s, found %d", field, fname(f), n)
		}
	}
	isPushed := func(v ssa.Value) bool { return len(push.Params) > 1 && sameOrigin(v, ssa.Value(push.Params[1])) }
	isHead := func(v ssa.Value) bool {
		// the element popped: chunks[0] (or the front of a list)
		for _, rv := range returnedValuesU(pop, 0) {
			if !isNilConst(rv) && sameOrigin(v, rv) {
				return true
			}
		}
		return false
	}
	check(push, token.ADD, isPushed, "the chunk pushed")
	check(pop, token.SUB, isHead, "the chunk popped")
	// the refusal test
	okFull := false
	instrsOfU(push, func(in ssa.Instruction) {
		// any ordering comparison (also one returned by a predicate helper rather than branched on)
		cmpI, ok := in.(*ssa.BinOp)
		if !ok {
			return
		}
		switch cmpI.Op {
		case token.LSS, token.LEQ, token.GTR, token.GEQ:
		default:
			return
		}
		cm, ok := normCmp(cmpI, true)
		if !ok {
			return
		}
		for _, side := range []ssa.Value{cm.X, cm.Y} {
			if b, ok := origin(side).(*ssa.BinOp); ok && b.Op == token.ADD && isFieldLoad(b.X, "vnet.chunkQueue", field) {
				o.Site(in.Pos(), "full test on %s + ...", field)
				if payloadLen(b.Y, isPushed) {
					okFull = true
				} else {
					o.Fail(in.Pos(), "the byte-limit test of push adds something else than len(UserData()) of the chunk pushed")
				}
			}
		}
	})
	if !okFull {
		o.Fail(push.Pos(), "push has no byte-limit test on occupancy + len(payload)")
	}
	// the refusal as a decision: push refuses exactly when (count limit > 0 and len(chunks) >= count limit) or
	// (byte limit > 0 and occupancy + len(payload) >= byte limit); a limit of zero or below means unlimited
	d := &decisionRegion{start: entryPos(push), classify: func(in ssa.Instruction) string {
		if ret, ok := in.(*ssa.Return); ok && in.Parent() == push {
			if vs := retValAt(ret, 0); len(vs) == 1 {
				if isConstBool(vs[0], false) {
					return "refuse"
				}
				if isConstBool(vs[0], true) {
					return "store"
				}
			}
			return "other-return"
		}
		if isFieldStore(in, "vnet.chunkQueue", field) || isFieldStore(in, "vnet.chunkQueue", "chunks") {
			return "store"
		}
		return ""
	}}
	d.collect()
	// conditions inside predicate helpers bring their atoms only while the region is walked: walk until stable
	for round := 0; round < 6; round++ {
		n := len(d.Atoms)
		if n > 12 {
			break
		}
		for m := 0; m < 1<<n && len(d.Atoms) == n; m++ {
			assign := make([]bool, n)
			for i := range assign {
				assign[i] = m&(1<<i) != 0
			}
			d.eval(assign)
		}
		if len(d.Atoms) == n {
			break
		}
	}
	recv := push.Params[0].Name()
	occ, chunksSym := recv+"."+field, recv+".chunks"
	var a1, a2, a3, a4 *atom
	var cntSym, bytSym string
	// the comparisons in either polarity (x < limit and limit <= x are one atom)
	both := func(a atom) []atom {
		if a.Eq {
			return []atom{a}
		}
		return []atom{a, negAtom(a)}
	}
	for i := range d.Atoms {
		for _, a := range both(d.Atoms[i]) {
			if a.Eq || !a.Form.OK {
				continue
			}
			f := a.Form
			if len(f.Coef) == 2 && f.K == 1 {
				cnt, lim := "", ""
				for s2, cf := range f.Coef {
					if cf == 1 && strings.Contains(s2, chunksSym) {
						cnt = s2
					} else if cf == -1 {
						lim = s2
					}
				}
				if cnt != "" && lim != "" {
					v := a
					cntSym, a2 = lim, &v
				}
			}
			if f.Coef[occ] == 1 && len(f.Coef) == 3 && f.K == 1 {
				neg, pos := "", 0
				for s2, cf := range f.Coef {
					if s2 == occ {
						continue
					}
					if cf == -1 {
						neg = s2
					} else if cf == 1 {
						pos++
					}
				}
				if neg != "" && pos == 1 {
					v := a
					bytSym, a4 = neg, &v
				}
			}
		}
	}
	for i := range d.Atoms {
		for _, a := range both(d.Atoms[i]) {
			if a.Eq || !a.Form.OK || len(a.Form.Coef) != 1 || a.Form.K != 0 {
				continue
			}
			v := a
			if cntSym != "" && a.Form.Coef[cntSym] == 1 {
				a1 = &v
			}
			if bytSym != "" && a.Form.Coef[bytSym] == 1 {
				a3 = &v
			}
		}
	}
	for _, a := range d.Atoms {
		o.Site(push.Pos(), "branch atom of push: %s", a)
	}
	switch {
	case a2 == nil:
		o.Fail(push.Pos(), "push does not compare len(chunks) with the count limit (len >= limit)")
	case a4 == nil:
		o.Fail(push.Pos(), "push does not compare occupancy + len(payload) with the byte limit (sum >= limit)")
	case a1 == nil:
		o.Fail(push.Pos(), "push does not apply the count limit only when it is positive (limit > 0): zero and negative mean unlimited")
	case a3 == nil:
		o.Fail(push.Pos(), "push does not apply the byte limit only when it is positive (limit > 0): zero and negative mean unlimited")
	default:
		A1, A2, A3, A4 := *a1, *a2, *a3, *a4
		if cex := d.compareWithSpec(func(val func(a atom) bool) string {
			if (val(A1) && val(A2)) || (val(A3) && val(A4)) {
				return "refuse"
			}
			return "store"
		}); cex != "" {
			o.Fail(push.Pos(), "push's full test differs from the rule: %s", cex)
		}
		for _, pr := range d.Problems {
			o.Fail(push.Pos(), "%s", pr)
		}
	}
}

// ---------------------------------------------------------------------------------
// C14 — delays
// ---------------------------------------------------------------------------------

func runC14(c *Ctx) {
	p := c.P
	T := "vnet.DelayFilter"
	vnetExclude(p)
	run := p.Func("vnet", "DelayFilter", "Run")
	arr := p.Func("vnet", "DelayFilter", "onInboundChunk")
	pc := p.Func("vnet", "Router", "processChunks")
	rpush := p.Func("vnet", "Router", "push")
	if run == nil || arr == nil || pc == nil || rpush == nil {
		c.Obl("R0", T, "anchors of the delay filter / router are resolved", 1).Undecide("DelayFilter.Run/onInboundChunk, Router.processChunks/push not all found")
		return
	}
	peekBelief(c, "R1", 5)

	// R2 due edge dominates pop+forward (filter)
	o := c.Obl("R2", fname(run), "the delay filter pops and forwards only on the edge where the head's due time is before now", 1)
	fwd := findU(run, func(in ssa.Instruction) bool { return isNICForward(in, T) })
	pops := findU(run, func(in ssa.Instruction) bool { return isQueueCall(in, "pop") })
	dueFact := func(ft fact) bool {
		isDl := func(v ssa.Value) bool { fr, ok := asFieldLoad(v); return ok && fr.SName == "vnet.timedChunk" }
		any := func(v ssa.Value) bool { return !isDl(v) }
		// now is after the deadline
		return timeOrderFact(ft, any, isDl) == 1
	}
	for _, in := range append(append([]ssa.Instruction{}, fwd...), pops...) {
		o.Site(in.Pos(), "%s", in.String())
		if !hasFact(in, dueFact) {
			o.Fail(in.Pos(), "a chunk leaves the delay filter on a path where its due time was not found to be in the past")
		}
	}
	if len(fwd) != 1 || len(pops) != 1 {
		o.Fail(run.Pos(), "expected one pop and one forward in the filter loop, found %d/%d", len(pops), len(fwd))
	}
	// forwarded value is the Chunk of the peeked timedChunk, and the pop follows a peek of the same queue
	for _, in := range fwd {
		a := in.(*ssa.Call).Call.Args[0]
		fr, ok := asFieldLoad(a)
		if !ok || fr.SName != "vnet.timedChunk" {
			o.Fail(in.Pos(), "the forwarded value is not the chunk wrapped in the queue head")
		}
	}
	// R5 per pop exactly one forward
	o5 := c.Obl("R5", fname(run), "every pop is followed by exactly one forward before the next wait (nothing popped is lost, nothing forwarded twice)", 1)
	loopEnd := func(in ssa.Instruction) bool {
		if isReturn(in) {
			return true
		}
		s, ok := in.(*ssa.Select)
		return ok && s.Blocking
	}
	for _, pp := range pops {
		o5.Site(pp.Pos(), "pop")
		if ok, bad := mustPassU(posAfter(pp), loopEnd, func(in ssa.Instruction) bool { return isNICForward(in, T) }); !ok {
			o5.Fail(bad.Pos(), "after a pop the loop can wait again without forwarding the chunk")
		}
		if mx, inf := maxEventsU(posAfter(pp), loopEnd, func(in ssa.Instruction) int { return b2i(isNICForward(in, T)) }); mx > 1 || inf {
			o5.Fail(pp.Pos(), "a popped chunk can be forwarded more than once")
		}
	}
	for _, fw := range fwd {
		dom := false
		for _, pp := range pops {
			if domU(pp, fw) {
				dom = true
			}
		}
		if !dom {
			o5.Fail(fw.Pos(), "a chunk is forwarded without being popped (it would be forwarded again)")
		}
	}

	// R3 due time computed at arrival from time.Now() + configured delay
	o = c.Obl("R3", fname(arr), "the due time is computed when the chunk arrives as time.Now().Add(configured delay); the arrival is queued before the loop is notified", 1)
	okDue := false
	instrsOfU(arr, func(in ssa.Instruction) {
		s, ok := in.(*ssa.Store)
		if !ok || !isFieldStore(s, "vnet.timedChunk", "deadline") {
			return
		}
		o.Site(in.Pos(), "deadline = %s", s.Val.String())
		call, ok := origin(s.Val).(*ssa.Call)
		if ok && callName(call) == "(time.Time).Add" {
			now, ok1 := origin(call.Call.Args[0]).(*ssa.Call)
			if ok1 && callName(now) == "time.Now" && isFieldLoad(call.Call.Args[1], T, "delay") {
				okDue = true
			}
		}
		if !okDue {
			o.Fail(in.Pos(), "the due time is not time.Now() + delay (time spent upstream would be subtracted from the delay)")
		}
	})
	if !okDue && !o.Failed {
		o.Fail(arr.Pos(), "no due time is recorded at arrival")
	}
	// constructor stores delay param
	if nw := p.Func("vnet", "", "NewDelayFilter"); nw != nil {
		instrsOfU(nw, func(in ssa.Instruction) {
			if s, ok := in.(*ssa.Store); ok && isFieldStore(s, T, "delay") {
				if _, isP := s.Val.(*ssa.Parameter); !isP {
					o.Fail(in.Pos(), "the constructor does not store the configured delay unchanged")
				}
			}
		})
	}
	pushes := findU(arr, func(in ssa.Instruction) bool { return isQueueCall(in, "push") })
	for _, cm := range commsOfU(arr) {
		if cm.Dir == types.SendOnly {
			for _, ps := range pushes {
				if !domU(ps, cm.Instr) {
					o.Fail(cm.Instr.Pos(), "the loop is notified before the chunk is queued")
				}
			}
		}
	}

	// every arrival is announced: after the chunk was queued every path to the return of the arrival function sends
	// the notification (an arrival that is queued silently waits for the fallback timer when the loop has just
	// emptied the queue)
	for _, ps := range pushes {
		// the capacity of the notification channel as the constructor makes it (0: the loop must be there to take it)
		pushCap := int64(0)
		if nf := p.Func("vnet", "", "NewDelayFilter"); nf != nil {
			instrsOfU(nf, func(in ssa.Instruction) {
				if mk, ok := in.(*ssa.MakeChan); ok {
					if s, isS := mk.Type().Underlying().(*types.Chan).Elem().Underlying().(*types.Struct); isS && s.NumFields() == 0 {
						if k, isC := constInt(mk.Size); isC {
							pushCap = k
						}
					}
				}
			})
		}
		isNotify := func(in ssa.Instruction) bool {
			switch x := in.(type) {
			case *ssa.Send:
				return true
			case *ssa.Select:
				for _, st := range x.States {
					// a send that may be skipped (select with default) announces the arrival only if the channel
					// can hold the token while the loop is busy
					if st.Dir == types.SendOnly && (x.Blocking || pushCap >= 1) {
						return true
					}
				}
			}
			return false
		}
		if ok, bad := mustPassU(posAfter(ps), func(in ssa.Instruction) bool { return isReturn(in) && in.Parent() == arr }, isNotify); !ok {
			o.Fail(bad.Pos(), "the arrival function can return after queueing the chunk without notifying the forwarding loop: the chunk waits for the next arrival or the fallback timer")
		}
	}

	// R6 only timedChunk values are pushed into the filter's queue
	o = c.Obl("R6", T+".queue", "only timedChunk values are pushed into the filter's queue (so the comma-ok assertions on a non-nil head cannot fail)", 1)
	r6ok := true
	for _, f := range p.Funcs {
		if pkgOf(f) != "vnet" {
			continue
		}
		instrsOf(f, func(in ssa.Instruction) {
			if isQueueCall(in, "push") && strings.HasPrefix(queueOf(in), T+".") {
				a := in.(*ssa.Call).Call.Args[1]
				o.Site(in.Pos(), "push(%s) in %s", a.String(), fname(f))
				mi, ok := a.(*ssa.MakeInterface)
				if !ok || typeName(mi.X.Type()) != "vnet.timedChunk" {
					r6ok = false
					o.Fail(in.Pos(), "a value that is not a timedChunk is pushed into the delay filter's queue")
				}
			}
		})
	}

	// R4 timer re-armed
	o = c.Obl("R4", fname(run), "every path from a timer tick, and every path from timer.Stop(), to the next wait re-arms the timer (Reset); otherwise later chunks are never forwarded", 2)
	isReset := func(in ssa.Instruction) bool { return isCall(in, "(*time.Timer).Reset") }
	// infeasible edges: failed comma-ok assertion of a non-nil head to timedChunk (R6)
	infeasible := func(from, to *ssa.BasicBlock) bool {
		if !r6ok {
			return false
		}
		iff, ok := from.Instrs[len(from.Instrs)-1].(*ssa.If)
		if !ok || from.Succs[1] != to {
			return false
		}
		ex, ok := iff.Cond.(*ssa.Extract)
		if !ok || ex.Index != 1 {
			return false
		}
		ta, ok := origin(ex.Tuple).(*ssa.TypeAssert)
		if !ok || typeName(ta.AssertedType) != "vnet.timedChunk" {
			return false
		}
		return hasFact(iff, func(ft fact) bool { return nilFact(ft, func(v ssa.Value) bool { return v == ta.X }, false) })
	}
	var waitSel *ssa.Select
	for _, cm := range commsOfU(run) {
		if cm.Sel != nil && cm.Sel.Blocking && strings.HasPrefix(chanRole(cm.Chan), "timer.C") {
			waitSel = cm.Sel
			cs, _ := caseBlocks(cm.Sel)
			blk := cs[cm.Index]
			if blk == nil {
				blk = lastCaseBlock(cm.Sel)
			}
			if blk == nil {
				o.Undecide("tick branch not located")
				continue
			}
			o.Site(cm.Sel.Pos(), "tick branch at block %d", blk.Index)
			re := reachEdges(blockStart(blk), func(in ssa.Instruction) bool { return isReset(in) || loopEnd(in) }, infeasible)
			for in := range re {
				if loopEnd(in) && !isReturn(in) {
					o.Fail(in.Pos(), "after a tick the loop can wait again without re-arming the timer")
				}
			}
		}
	}
	if waitSel == nil {
		o.Undecide("no blocking select on a timer channel in the filter loop")
	}
	// arrival branch: unless the queue head is gone (already forwarded by the tick branch), every path back to the
	// wait re-arms the timer for the head - also when the head is already overdue
	headGone := func(from, to *ssa.BasicBlock) bool {
		iff, ok := from.Instrs[len(from.Instrs)-1].(*ssa.If)
		if !ok || from.Succs[0] == from.Succs[1] {
			return false
		}
		val := from.Succs[0] == to
		ft := fact{Cond: iff.Cond, Val: val, If: iff}
		isPeek := func(v ssa.Value) bool {
			cl, ok := origin(v).(*ssa.Call)
			return ok && isQueueCall(cl, "peek")
		}
		// failed comma-ok assertion of the peeked head
		if boolFact(ft, func(v ssa.Value) bool {
			ex, ok := v.(*ssa.Extract)
			if !ok || ex.Index != 1 {
				return false
			}
			ta, ok := origin(ex.Tuple).(*ssa.TypeAssert)
			return ok && isPeek(ta.X)
		}, false) {
			return true
		}
		return nilFact(ft, isPeek, true)
	}
	for _, cm := range commsOfU(run) {
		if cm.Sel != waitSel || cm.Sel == nil || cm.Dir != types.RecvOnly || !strings.HasPrefix(chanRole(cm.Chan), "field "+T+".") {
			continue
		}
		cs, _ := caseBlocks(cm.Sel)
		blk := cs[cm.Index]
		if blk == nil {
			blk = lastCaseBlock(cm.Sel)
		}
		if blk == nil {
			continue
		}
		o.Site(cm.Sel.Pos(), "arrival branch at block %d", blk.Index)
		re := reachEdges(blockStart(blk), func(in ssa.Instruction) bool { return isReset(in) || loopEnd(in) }, func(from, to *ssa.BasicBlock) bool {
			return headGone(from, to) || infeasible(from, to)
		})
		for in := range re {
			if loopEnd(in) && !isReturn(in) {
				o.Fail(in.Pos(), "after an arrival the loop can wait again without re-arming the timer for the queue head (e.g. when the head is already overdue): the chunk waits for the idle timeout")
			}
		}
	}
	for _, stp := range findU(run, func(in ssa.Instruction) bool { return isCall(in, "(*time.Timer).Stop") }) {
		if _, plain := stp.(*ssa.Call); !plain {
			continue // a deferred Stop runs when the loop has ended: nothing waits after it
		}
		o.Site(stp.Pos(), "timer.Stop()")
		re := reachEdges(posAfter(stp), func(in ssa.Instruction) bool { return isReset(in) || loopEnd(in) }, infeasible)
		for in := range re {
			if loopEnd(in) && !isReturn(in) {
				o.Fail(stp.Pos(), "the timer is stopped (and drained) on a path that reaches the next wait without Reset: the next arrival blocks forever on the drained channel / nothing is forwarded any more")
			}
		}
		// drained receive only when Stop returned false
		for _, cm := range commsOfU(run) {
			if cm.Sel == nil && cm.Dir == types.RecvOnly && strings.HasPrefix(chanRole(cm.Chan), "timer.C") {
				if !hasFact(cm.Instr, func(ft fact) bool {
					return boolFact(ft, func(v ssa.Value) bool { return sameOrigin(v, ssa.Value(stp.(*ssa.Call))) }, false)
				}) {
					o.Fail(cm.Instr.Pos(), "the timer channel is drained although Stop() may have succeeded (blocks forever)")
				}
			}
		}
	}

	routerDelayRules(c, pc, rpush)
	// a router that is running forwards what is queued: the forwarding loop looks at the queue before its first wait
	if st := p.Func("vnet", "Router", "Start"); st != nil {
		o10 := c.Obl("R10", fname(st), "the router's forwarding loop processes the queue before it waits for the first time (chunks left in the queue by a Stop are forwarded after the next Start without a new arrival)", 1)
		o10.Site(st.Pos(), "forwarding goroutine of %s", fname(st))
		if pos, bad := routerLoopWaitsFirst(st, pc, nil); bad {
			o10.Fail(pos, "the forwarding loop waits before it has looked at the queue: a chunk queued before Start stays there until something else arrives")
		}
	}
	fifoShape(c, "R7")
}

// cappedBy: the value is bounded above by float64(<int field of T>): either
// math.Min(float64(t.f), x), or a hand-written clamp - a phi all of whose edges are that
// converted field or a value found <= it on the edge.
func cappedBy(v ssa.Value, T string) (string, bool) {
	isBurst := func(x ssa.Value) (string, bool) {
		if cv, ok := origin(x).(*ssa.Convert); ok {
			if fr, ok := asFieldLoad(cv.X); ok && fr.SName == T {
				return fr.Field, true
			}
		}
		return "", false
	}
	v = origin(v) // the value may be computed by a pure helper
	if call, ok := v.(*ssa.Call); ok && callName(call) == "math.Min" {
		for _, a := range call.Call.Args {
			if f, ok := isBurst(a); ok {
				return f, true
			}
		}
		return "", false
	}
	ph, ok := v.(*ssa.Phi)
	if !ok {
		return "", false
	}
	field := ""
	for i, e := range ph.Edges {
		if f, ok := isBurst(e); ok {
			field = f
			continue
		}
		// e <= burst must hold on this edge
		pred := ph.Block().Preds[i]
		okEdge := false
		for _, ft := range append(guardsOfBlock(pred), lastBranchFact(pred, ph.Block())...) {
			cm, ok := normCmp(ft.Cond, ft.Val)
			if !ok || (cm.Op != token.LEQ && cm.Op != token.LSS) || cm.X != e {
				continue
			}
			if f, ok := isBurst(cm.Y); ok {
				field = f
				okEdge = true
			}
		}
		if !okEdge {
			return "", false
		}
	}
	return field, field != ""
}

// fifoShapeList: the FIFO rules for a queue kept in a container/list: push is PushBack of the argument, peek returns
// Front().Value, pop returns the value of Remove(Front()); nothing else changes the list.
func fifoShapeList(c *Ctx, o *Obligation, field string, push, pop, peek *ssa.Function, la *lockAnalysis) {
	p := c.P
	const L = "(*container/list.List)."
	onQueue := func(cl *ssa.Call) bool {
		return len(cl.Call.Args) > 0 && isFieldLoad(cl.Call.Args[0], "vnet.chunkQueue", field)
	}
	listCall := func(in ssa.Instruction, name string) *ssa.Call {
		cl, ok := in.(*ssa.Call)
		if ok && callName(cl) == L+name && onQueue(cl) {
			return cl
		}
		return nil
	}
	frontOf := func(v ssa.Value) bool {
		cl, ok := origin(v).(*ssa.Call)
		return ok && callName(cl) == L+"Front" && onQueue(cl)
	}
	// who changes the list
	for _, f := range p.Funcs {
		if pkgOf(f) != "vnet" {
			continue
		}
		instrsOf(f, func(in ssa.Instruction) {
			cl, ok := in.(*ssa.Call)
			if !ok || !strings.HasPrefix(callName(cl), L) || !onQueue(cl) {
				return
			}
			switch strings.TrimPrefix(callName(cl), L) {
			case "Len", "Front":
			case "PushBack":
				if !isIn(f, push) {
					o.Fail(in.Pos(), "%s appends to the queue (only push may)", fname(f))
				}
			case "Remove":
				if !isIn(f, pop) {
					o.Fail(in.Pos(), "%s removes from the queue (only pop may)", fname(f))
				}
			default:
				o.Fail(in.Pos(), "%s calls %s on the queue: the order of the queued chunks is no longer first-in first-out", fname(f), callName(cl))
			}
		})
	}
	nPush := 0
	for _, in := range findU(push, func(in ssa.Instruction) bool { return listCall(in, "PushBack") != nil }) {
		nPush++
		cl := in.(*ssa.Call)
		o.Site(in.Pos(), "push: PushBack(%s)", cl.Call.Args[1].Name())
		if !derivesFrom(cl.Call.Args[1], func(v ssa.Value) bool { return sameOrigin(v, ssa.Value(push.Params[1])) }, false) {
			o.Fail(in.Pos(), "push does not append its argument at the end of the queue")
		}
		if !la.holdsOwner(in, "vnet.chunkQueue", true) {
			o.Fail(in.Pos(), "push modifies the queue outside its mutex")
		}
	}
	if nPush != 1 {
		o.Fail(push.Pos(), "expected one PushBack in push, found %d", nPush)
	}
	if ok, bad := mustPassU(entryPos(push), func(in ssa.Instruction) bool {
		ret, ok := in.(*ssa.Return)
		if !ok {
			return false
		}
		for _, v := range retValAt(ret, 0) {
			if isConstBool(v, true) {
				return true
			}
		}
		return false
	}, func(in ssa.Instruction) bool { return listCall(in, "PushBack") != nil }); !ok {
		o.Fail(bad.Pos(), "push reports success without having appended the chunk")
	}
	// peek: Front().Value
	for _, v := range returnedValuesU(peek, 0) {
		if isNilConst(v) {
			continue
		}
		okV := false
		if x, ok := assertedFrom(v); ok {
			if fr, ok := asFieldLoad(x); ok && fr.SName == "container/list.Element" && fr.Field == "Value" && frontOf(fr.Base) {
				okV = true
			}
		}
		o.Site(v.Pos(), "peek returns %s", v.String())
		if !okV {
			o.Fail(v.Pos(), "peek does not return the oldest element (Front().Value)")
		}
	}
	for _, in := range findU(peek, func(in ssa.Instruction) bool {
		cl, ok := in.(*ssa.Call)
		return ok && strings.HasPrefix(callName(cl), L) && onQueue(cl) && callName(cl) != L+"Front" && callName(cl) != L+"Len"
	}) {
		o.Fail(in.Pos(), "peek modifies the queue")
	}
	// pop: Remove(Front()) and its value (or Front().Value) is returned
	nRem := 0
	for _, in := range findU(pop, func(in ssa.Instruction) bool { return listCall(in, "Remove") != nil }) {
		nRem++
		cl := in.(*ssa.Call)
		o.Site(in.Pos(), "pop: Remove(Front())")
		if !frontOf(cl.Call.Args[1]) {
			o.Fail(in.Pos(), "pop does not remove exactly the oldest element (Remove(Front()))")
		}
		if !la.holdsOwner(in, "vnet.chunkQueue", true) {
			o.Fail(in.Pos(), "pop modifies the queue outside its mutex")
		}
	}
	if nRem != 1 {
		o.Fail(pop.Pos(), "expected one Remove in pop, found %d", nRem)
	}
	for _, v := range returnedValuesU(pop, 0) {
		if isNilConst(v) {
			continue
		}
		okV := false
		if x, ok := assertedFrom(v); ok {
			if cl, ok := origin(x).(*ssa.Call); ok && callName(cl) == L+"Remove" && onQueue(cl) && frontOf(cl.Call.Args[1]) {
				okV = true
			}
			if fr, ok := asFieldLoad(x); ok && fr.SName == "container/list.Element" && fr.Field == "Value" && frontOf(fr.Base) {
				okV = true
			}
		}
		o.Site(v.Pos(), "pop returns %s", v.String())
		if !okV {
			o.Fail(v.Pos(), "pop does not return the oldest element")
		}
	}
}

// assertedFrom: v is x.(T), in the plain or the comma-ok form (first result); returns x.
func assertedFrom(v ssa.Value) (ssa.Value, bool) {
	v = origin(v)
	if ta, ok := v.(*ssa.TypeAssert); ok {
		return ta.X, true
	}
	if ex, ok := v.(*ssa.Extract); ok && ex.Index == 0 {
		if ta, ok := ex.Tuple.(*ssa.TypeAssert); ok {
			return ta.X, true
		}
	}
	return nil, false
}

// routerDelayRules: the router's minimum delay and the wait it reports to its forwarding loop (C14.R8/R9; also
// part of C01: a queued datagram is not lost while the router is started).
func routerDelayRules(c *Ctx, pc, rpush *ssa.Function) {
	p := c.P
	var o *Obligation
	// R8 router minimum delay
	o = c.Obl("R8", fname(pc), "router: a chunk is popped only on the edge where its timestamp is not after cutOff = now - minDelay; the timestamp is taken when the router enqueues the chunk", 3)
	var cut *ssa.Call
	instrsOfU(pc, func(in ssa.Instruction) {
		call, ok := in.(*ssa.Call)
		if !ok || callName(call) != "(time.Time).Add" {
			return
		}
		now, ok := origin(call.Call.Args[0]).(*ssa.Call)
		if !ok || callName(now) != "time.Now" {
			return
		}
		lf := linOf(call.Call.Args[1], nil)
		want := linSym(pc.Params[0].Name() + ".minDelay").scale(-1)
		if lf.eq(want) {
			cut = call
			o.Site(in.Pos(), "cutOff = now - minDelay")
		} else if strings.Contains(lf.String(), "minDelay") {
			o.Site(in.Pos(), "cutOff = now + (%s)", lf)
			o.Fail(in.Pos(), "the cut-off is now + (%s), not now - minDelay: chunks younger than the minimum delay are forwarded", lf)
		}
	})
	if cut == nil && !o.Failed {
		o.Fail(pc.Pos(), "cut-off time (now - minDelay) not found in processChunks")
	}
	notDue := func(ft fact) bool {
		if cut == nil {
			return false
		}
		isTS := func(v ssa.Value) bool {
			ts, ok := origin(v).(*ssa.Call)
			return ok && ts.Call.IsInvoke() && ts.Call.Method.Name() == "getTimestamp"
		}
		return timeOrderFact(ft, isTS, func(v ssa.Value) bool { return sameOrigin(v, ssa.Value(cut)) }) == -1
	}
	for _, in := range findU(pc, func(in ssa.Instruction) bool { return isQueueCall(in, "pop") }) {
		o.Site(in.Pos(), "pop")
		if !hasFact(in, notDue) {
			o.Fail(in.Pos(), "the router pops a chunk on a path where its timestamp was not compared with the cut-off")
		}
	}
	// R9 the wait reported to the forwarding loop
	o9 := c.Obl("R9", fname(pc), "the wait processChunks reports is 0 only when the queue was found empty; otherwise it is (head timestamp + minDelay) - T for the very instant T whose cut-off T - minDelay the head was found after: a positive time, so the forwarding loop sleeps on a timer and not on the push signal while a chunk is queued", 2)
	if cut != nil {
		nowCall := origin(cut.Call.Args[0])
		isTSv := func(v ssa.Value) bool {
			ts, ok := origin(v).(*ssa.Call)
			return ok && ts.Call.IsInvoke() && ts.Call.Method.Name() == "getTimestamp"
		}
		ppaths, okP := enumIterPathsU(pc, 20000)
		if !okP {
			o9.Undecide("the paths of processChunks could not be enumerated")
		}
		nZero, nWait := 0, 0
		seen9 := map[string]bool{}
		for pi := range ppaths {
			pt := &ppaths[pi]
			ret, isRet := pt.last().(*ssa.Return)
			if !isRet || pt.Loop || ret.Parent() != pc || len(ret.Results) != 2 {
				continue
			}
			if e := errorOperand(ret); e == nil || !isNilConst(pt.value(e)) {
				continue // an error ends the forwarding loop
			}
			dv := retValAt(ret, 0)
			if len(dv) != 1 {
				o9.Undecide("the wait returned by processChunks is not a single value")
				continue
			}
			d := pt.value(dv[0])
			if k, isC := constInt(d); isC {
				nZero++
				// the queue was found empty on this path
				empty := false
				for _, ft := range pt.Conds {
					if nilFact(ft, func(v ssa.Value) bool {
						cl, ok := origin(pt.value(v)).(*ssa.Call)
						return ok && isQueueCall(cl, "peek")
					}, true) {
						empty = true
					}
					if boolFact(ft, func(v ssa.Value) bool {
						ex, ok := v.(*ssa.Extract)
						if !ok || ex.Index != 1 {
							return false
						}
						cl, ok := origin(ex.Tuple).(*ssa.Call)
						return ok && isQueueCall(cl, "pop")
					}, false) {
						empty = true // pop() reported that nothing was queued
					}
				}
				key := fmt.Sprintf("zero %d %v", k, empty)
				if !seen9[key] {
					seen9[key] = true
					o9.Site(ret.Pos(), "returns %d (queue found empty: %v)", k, empty)
				}
				if k != 0 || !empty {
					if !seen9["f"+key] {
						seen9["f"+key] = true
						o9.Fail(ret.Pos(), "processChunks reports the constant wait %d on a path where the queue was not found empty: the loop waits for the next push while a chunk is queued (or spins)", k)
					}
				}
				continue
			}
			nWait++
			okShape := false
			if sub, ok := d.(*ssa.Call); ok && callName(sub) == "(time.Time).Sub" && isTSv(sub.Call.Args[0]) && sameOrigin(sub.Call.Args[1], ssa.Value(cut)) {
				// timestamp - (T - minDelay): the same quantity
				for _, ft := range pt.Conds {
					if timeOrderFact(ft, isTSv, func(v ssa.Value) bool { return sameOrigin(v, ssa.Value(cut)) }) == 1 {
						okShape = true
					}
				}
			}
			if sub, ok := d.(*ssa.Call); ok && callName(sub) == "(time.Time).Sub" && sameOrigin(sub.Call.Args[1], nowCall) {
				if add, ok := origin(sub.Call.Args[0]).(*ssa.Call); ok && callName(add) == "(time.Time).Add" && isTSv(add.Call.Args[0]) &&
					linOf(add.Call.Args[1], nil).eq(linSym(pc.Params[0].Name()+".minDelay")) {
					// on the edge head.After(T - minDelay)
					for _, ft := range pt.Conds {
						if timeOrderFact(ft, isTSv, func(v ssa.Value) bool { return sameOrigin(v, ssa.Value(cut)) }) == 1 {
							okShape = true
						}
					}
				}
			}
			if !seen9["w"] {
				seen9["w"] = true
				o9.Site(ret.Pos(), "returns the remaining delay of the head (recognised: %v)", okShape)
			}
			if !okShape && !seen9["fw"] {
				seen9["fw"] = true
				o9.Fail(ret.Pos(), "the wait for a head that is not due is not (timestamp + minDelay) - T with the T of the cut-off test (e.g. measured against a later clock reading): it can be <= 0 although a chunk is queued, and the forwarding loop then waits for a push that may never come")
			}
		}
		if nZero == 0 || nWait == 0 {
			o9.Undecide("expected a path reporting 0 (empty queue) and a path reporting the head's remaining delay, found %d / %d", nZero, nWait)
		}
	}
	// timestamp at enqueue
	var stamp, qpush ssa.Instruction
	instrsOfU(rpush, func(in ssa.Instruction) {
		if isInvoke(in, "setTimestamp") {
			stamp = in
		}
		if isQueueCall(in, "push") {
			qpush = in
		}
	})
	if stamp == nil || qpush == nil || !domU(stamp, qpush) {
		o.Fail(rpush.Pos(), "the chunk is not stamped before the router enqueues it")
	} else {
		o.Site(stamp.Pos(), "setTimestamp before queue.push")
		if stamp.(*ssa.Call).Call.Value != qpush.(*ssa.Call).Call.Args[1] {
			o.Fail(stamp.Pos(), "the stamped chunk is not the one that is enqueued")
		}
	}
	for _, tn := range []string{"chunkIP"} {
		if f := p.Func("vnet", tn, "setTimestamp"); f != nil {
			instrsOf(f, func(in ssa.Instruction) {
				if s, ok := in.(*ssa.Store); ok && isFieldStore(s, "vnet."+tn, "timestamp") {
					call, ok := origin(s.Val).(*ssa.Call)
					if !ok || callName(call) != "time.Now" {
						o.Fail(in.Pos(), "setTimestamp does not record time.Now()")
					}
				}
			})
			// on every path: a chunk that already carries a stamp (a clone handed on by the NAT of another router,
			// an echoed chunk) is stamped again, the delay counts from the entry into this router
			if ok, bad := mustPassU(entryPos(f), isReturn, func(in ssa.Instruction) bool {
				s, ok := in.(*ssa.Store)
				return ok && isFieldStore(s, "vnet."+tn, "timestamp")
			}); !ok {
				o.Fail(bad.Pos(), "setTimestamp can return without having stored the current time: a chunk that was stamped by another router keeps the older stamp and is forwarded before this router's delay has passed")
			}
		}
	}
}

// harmlessChanceClamp: v is the constructor's integer parameter brought into a range [lo, hi] with lo <= 0 and
// hi >= N, N being the bound of the draw rand.Intn(N) the filter compares the chance with: a draw is never below 0
// and always below N, so "draw < chance" has the same truth value for the clamped and the original chance. Every
// constant leaf must sit on an edge that established the parameter at or beyond it.
func harmlessChanceClamp(v ssa.Value, ctor, use *ssa.Function) bool {
	N := int64(-1)
	instrsOfU(use, func(in ssa.Instruction) {
		if cl, ok := in.(*ssa.Call); ok && strings.HasSuffix(callName(cl), "rand.Intn") && len(cl.Call.Args) == 1 {
			if k, isC := constInt(cl.Call.Args[0]); isC {
				N = k
			}
		}
	})
	if N <= 0 {
		return false
	}
	isCtorParam := func(x ssa.Value) bool {
		prm, ok := strip(x).(*ssa.Parameter)
		if !ok || prm.Parent() != ctor {
			return false
		}
		b, ok := prm.Type().Underlying().(*types.Basic)
		return ok && b.Info()&types.IsInteger != 0
	}
	okLeaf := func(leaf ssa.Value, facts []fact, isP func(ssa.Value) bool) bool {
		if isP(leaf) {
			return true
		}
		c, isC := constInt(leaf)
		if !isC {
			return false
		}
		for _, ft := range facts {
			cm, ok := normCmp(ft.Cond, ft.Val)
			if !ok {
				continue
			}
			if c <= 0 && isP(cm.X) {
				if k, isK := constInt(cm.Y); isK && ((cm.Op == token.LSS && k <= c+1) || (cm.Op == token.LEQ && k <= c)) {
					return true
				}
			}
			if c >= N && isP(cm.Y) {
				if k, isK := constInt(cm.X); isK && ((cm.Op == token.LSS && k+1 >= c) || (cm.Op == token.LEQ && k >= c)) {
					return true
				}
			}
		}
		return false
	}
	v = strip(v)
	switch x := v.(type) {
	case *ssa.Phi:
		for _, lf := range phiLeavesWithPred(x) {
			facts := []fact{}
			if lf.pred != nil {
				facts = lf.edgeFacts()
			}
			if !okLeaf(strip(lf.v), facts, isCtorParam) {
				return false
			}
		}
		return true
	case *ssa.Call:
		h := helperCallee(x)
		if h == nil || h.Signature.Results().Len() != 1 {
			return false
		}
		var hp *ssa.Parameter
		for i, a := range x.Call.Args {
			if isCtorParam(a) && i < len(h.Params) {
				hp = h.Params[i]
			}
		}
		if hp == nil {
			return false
		}
		isP := func(y ssa.Value) bool { return strip(y) == ssa.Value(hp) }
		n := 0
		for _, in := range findInstrs(h, isReturn) {
			ret := in.(*ssa.Return)
			if h.Recover != nil && ret.Block() == h.Recover {
				continue
			}
			for _, rv := range retValAt(ret, 0) {
				for _, lf := range phiLeavesWithPred(rv) {
					facts := append([]fact{}, guardsOfBlock(ret.Block())...)
					if lf.pred != nil {
						facts = append(facts, lf.edgeFacts()...)
					}
					n++
					if !okLeaf(strip(lf.v), facts, isP) {
						return false
					}
				}
			}
		}
		return n > 0
	}
	return false
}
