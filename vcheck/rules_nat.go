package main

// vnet NAT: C02 (mapping behaviour) and C03 (filtering behaviour).

import (
	"fmt"
	"go/constant"
	"go/token"
	"go/types"
	"sort"
	"strings"

	"golang.org/x/tools/go/ssa"
)

const natT = "vnet.networkAddressTranslator"
const mapT = "vnet.mapping"

// field roles of the NAT and of a mapping, resolved by type and usage (defaults = today's names)
var (
	fOut, fIn, fCtr, fMappedIPs, fLocalIPs       = "outboundMap", "inboundMap", "udpPortCounter", "mappedIPs", "localIPs"
	mExp, mFilt, mMapped, mLocal, mProto, mBound = "expires", "filters", "mapped", "local", "proto", "bound"
)

type natRoles struct {
	out, in, findOut, findIn, remove, alloc, pairMapped, pairLocal *ssa.Function
	outEntry, inEntry                                              *ssa.Function // the methods the router calls; out/in are their bodies (a "...Locked" helper when the entry is only a lock wrapper)
	routerIn                                                       *ssa.Function
	problems                                                       []string
	enum                                                           map[string]int64
}

func resolveNAT(p *Prog) *natRoles {
	r := &natRoles{enum: map[string]int64{}}
	get := func(n string) *ssa.Function {
		f := p.Func("vnet", "networkAddressTranslator", n)
		if f == nil {
			r.problems = append(r.problems, "(*networkAddressTranslator)."+n+" not found")
		}
		return f
	}
	r.outEntry, r.inEntry = get("translateOutbound"), get("translateInbound")
	if len(r.problems) > 0 {
		return r
	}
	r.out, r.in = bodyOf(r.outEntry), bodyOf(r.inEntry)
	resolveNATFields(p, r)
	if len(r.problems) > 0 {
		return r
	}
	// helpers by role
	for _, f := range p.Funcs {
		if pkgOf(f) != "vnet" || f.Signature.Recv() == nil || typeName(f.Signature.Recv().Type()) != natT || f == r.out || f == r.in || f == r.outEntry || f == r.inEntry {
			continue
		}
		lookOut, lookIn, delOut := false, false, false
		instrsOf(f, func(in ssa.Instruction) {
			if lk, ok := in.(*ssa.Lookup); ok {
				if isFieldLoad(lk.X, natT, fOut) {
					lookOut = true
				}
				if isFieldLoad(lk.X, natT, fIn) {
					lookIn = true
				}
			}
			if isCall(in, "builtin.delete") && isFieldLoad(in.(ssa.CallInstruction).Common().Args[0], natT, fOut) {
				delOut = true
			}
			// the table handed to a lookup helper shared by both directions (findLiveMapping(n.outboundMap, key))
			if cl, ok := in.(*ssa.Call); ok && helperCallee(cl) != nil {
				for _, a := range cl.Call.Args {
					if isFieldLoad(a, natT, fOut) {
						lookOut = true
					}
					if isFieldLoad(a, natT, fIn) {
						lookIn = true
					}
				}
			}
		})
		res := f.Signature.Results()
		prm := f.Signature.Params()
		switch {
		case delOut:
			r.remove = f
		case lookOut && res.Len() == 1 && typeName(res.At(0).Type()) == mapT:
			r.findOut = f
		case lookIn && res.Len() == 1 && typeName(res.At(0).Type()) == mapT:
			r.findIn = f
		case res.Len() == 2 && res.At(0).Type().String() == "string" && prm.Len() == 0:
			r.alloc = f
		case res.Len() == 1 && prm.Len() == 1 && res.At(0).Type().String() == "net.IP" && prm.At(0).Type().String() == "net.IP":
			// pairing helpers: which list do they return an element of? (path by path: a helper shared by
			// both directions is followed with this function's arguments)
			if paths, ok := enumIterPathsU(f, 5000); ok {
				for pi := range paths {
					pth := &paths[pi]
					rt, isRet := pth.last().(*ssa.Return)
					if !isRet || pth.Loop || rt.Parent() != f {
						continue
					}
					for _, v0 := range retValAt(rt, 0) {
						if u, ok := pth.value(v0).(*ssa.UnOp); ok {
							if ia, ok := u.X.(*ssa.IndexAddr); ok {
								if isFieldLoad(pth.value(ia.X), natT, fMappedIPs) {
									r.pairMapped = f
								}
								if isFieldLoad(pth.value(ia.X), natT, fLocalIPs) {
									r.pairLocal = f
								}
							}
						}
					}
				}
			}
		}
	}
	// one pairing helper for both directions: pairedIP(from, to, ip) called by both translations; the lists are
	// the call's arguments
	if r.pairMapped == nil && r.pairLocal == nil {
		for _, f := range p.Funcs {
			if pkgOf(f) != "vnet" || f.Signature.Recv() != nil || f.Parent() != nil {
				continue
			}
			res, prm := f.Signature.Results(), f.Signature.Params()
			if res.Len() == 1 && prm.Len() == 3 && res.At(0).Type().String() == "net.IP" && prm.At(2).Type().String() == "net.IP" &&
				prm.At(0).Type().String() == "[]net.IP" && prm.At(1).Type().String() == "[]net.IP" {
				calledBy := func(from *ssa.Function) bool {
					found := false
					instrsOf(from, func(in ssa.Instruction) {
						if cl, ok := in.(*ssa.Call); ok && cl.Call.StaticCallee() == f {
							found = true
						}
					})
					return found
				}
				if calledBy(r.out) && calledBy(r.in) {
					r.pairMapped, r.pairLocal = f, f
				}
			}
		}
	}
	// the lookup helpers are, first of all, what the translations call to obtain a mapping for a key
	byCall := func(from *ssa.Function) *ssa.Function {
		var h *ssa.Function
		n := 0
		instrsOfU(from, func(in ssa.Instruction) {
			if cl, ok := in.(*ssa.Call); ok {
				if sc := cl.Call.StaticCallee(); sc != nil && inModule(sc) && sc.Signature.Results().Len() == 1 &&
					typeName(sc.Signature.Results().At(0).Type()) == mapT && sc.Signature.Params().Len() == 1 &&
					sc.Signature.Params().At(0).Type().String() == "string" {
					if h != sc {
						n++
					}
					h = sc
				}
			}
		})
		if n == 1 {
			return h
		}
		return nil
	}
	if h := byCall(r.out); h != nil {
		r.findOut = h
	}
	if h := byCall(r.in); h != nil {
		r.findIn = h
	}
	r.routerIn = p.Func("vnet", "Router", "onInboundChunk")
	for n, f := range map[string]*ssa.Function{"outbound lookup helper": r.findOut, "inbound lookup helper": r.findIn, "removal helper": r.remove,
		"getPairedMappedIP": r.pairMapped, "getPairedLocalIP": r.pairLocal, "Router.onInboundChunk": r.routerIn} {
		if f == nil {
			r.problems = append(r.problems, n+" not found")
		}
	}
	for _, n := range []string{"EndpointIndependent", "EndpointAddrDependent", "EndpointAddrPortDependent", "NATModeNormal", "NATModeNAT1To1"} {
		if pk := p.Pkgs["vnet"]; pk != nil {
			if c, ok := pk.Types.Scope().Lookup(n).(*types.Const); ok {
				if v, ok := constant.Int64Val(c.Val()); ok {
					r.enum[n] = v
					continue
				}
			}
		}
		r.problems = append(r.problems, "constant "+n+" not found")
	}
	return r
}

func natAnchors(c *Ctx) *natRoles {
	setUnitExclude()
	r := resolveNAT(c.P)
	setUnitExclude(r.out, r.in, r.outEntry, r.inEntry, r.findOut, r.findIn, r.remove, r.alloc, r.pairMapped, r.pairLocal, r.routerIn,
		c.P.Func("vnet", "Router", "push"), c.P.Func("vnet", "chunkUDP", "Clone"))
	if len(r.problems) > 0 {
		o := c.Obl("R0", natT, "anchors of the NAT are resolved", 1)
		for _, pr := range r.problems {
			o.Undecide("%s", pr)
		}
		return nil
	}
	return r
}

// addrClass classifies a string-valued SSA value as a component of a chunk address.
func addrClass(v ssa.Value) string { return addrClassB(v, nil) }

// addrClassB: bind maps the parameters of a helper being looked through to the call's arguments.
func addrClassB(v ssa.Value, bind map[ssa.Value]ssa.Value) string {
	res := func(x ssa.Value) ssa.Value {
		for i := 0; i < 4; i++ {
			if a, ok := bind[x]; ok {
				x = a
				continue
			}
			break
		}
		return x
	}
	v = res(strip(v))
	if c, ok := v.(*ssa.Const); ok && c.Value != nil && c.Value.Kind() == constant.String {
		if constant.StringVal(c.Value) == "" {
			return "none"
		}
		return "lit:" + constant.StringVal(c.Value)
	}
	call, ok := v.(*ssa.Call)
	if !ok {
		if fr, ok := asFieldLoad(v); ok {
			return "field:" + fr.SName + "." + fr.Field
		}
		if ex, ok := v.(*ssa.Extract); ok {
			if cl, ok := origin(ex.Tuple).(*ssa.Call); ok {
				return fmt.Sprintf("call:%s#%d", callName(cl), ex.Index)
			}
		}
		if ph, ok := v.(*ssa.Phi); ok {
			return "phi:" + ph.Comment
		}
		if p, ok := v.(*ssa.Parameter); ok {
			return "param:" + p.Name()
		}
		if b, ok := v.(*ssa.BinOp); ok && b.Op == token.ADD && b.Type().String() == "string" {
			return "fmt:concat" // a string assembled by concatenation, like one assembled by Sprintf
		}
		return "?"
	}
	n := callName(call)
	inner := func(x ssa.Value) string {
		if ic, ok := res(x).(*ssa.Call); ok && ic.Call.IsInvoke() {
			return ic.Call.Method.Name()
		}
		return ""
	}
	switch {
	case n == "(net.IP).String":
		switch inner(call.Call.Args[0]) {
		case "getDestinationIP":
			return "dst.IP"
		case "getSourceIP":
			return "src.IP"
		}
		return "ip:" + addrClassB(call.Call.Args[0], bind)
	case call.Call.IsInvoke() && call.Call.Method.Name() == "String":
		switch inner(call.Call.Value) {
		case "DestinationAddr":
			return "dst.IP:port"
		case "SourceAddr":
			return "src.IP:port"
		}
	case call.Call.IsInvoke() && call.Call.Method.Name() == "Network":
		return mProto
	case n == "fmt.Sprintf":
		return "fmt"
	}
	return "call:" + n
}

// ---- key shapes ---------------------------------------------------------------------

type kpart struct {
	Lit string
	V   ssa.Value
}

func sprintfArgs(call *ssa.Call) []ssa.Value {
	if len(call.Call.Args) < 2 {
		return nil
	}
	sl, ok := origin(call.Call.Args[1]).(*ssa.Slice)
	if !ok {
		return nil
	}
	al, ok := origin(sl.X).(*ssa.Alloc)
	if !ok {
		return nil
	}
	m := map[int64]ssa.Value{}
	for _, r := range *al.Referrers() {
		ia, ok := r.(*ssa.IndexAddr)
		if !ok {
			continue
		}
		k, ok := constInt(ia.Index)
		if !ok {
			continue
		}
		for _, rr := range *ia.Referrers() {
			if st, ok := rr.(*ssa.Store); ok {
				m[k] = strip(st.Val)
			}
		}
	}
	var out []ssa.Value
	for i := int64(0); i < int64(len(m)); i++ {
		out = append(out, m[i])
	}
	return out
}

// keyParts decomposes a string key into literals and variable parts.
func keyParts(v ssa.Value, depth int) []kpart { return keyPartsS(v, depth, nil) }

// keyPartsS: subst binds the parameters of a string-building helper to the arguments of the call being expanded.
func keyPartsS(v ssa.Value, depth int, subst map[ssa.Value]ssa.Value) []kpart {
	v = strip(v)
	if depth > 6 {
		return []kpart{{V: v}}
	}
	if a, ok := subst[v]; ok {
		// an argument is one part of the key (a constant is a literal part)
		a = strip(a)
		if c, ok := a.(*ssa.Const); ok && c.Value != nil && c.Value.Kind() == constant.String {
			return []kpart{{Lit: constant.StringVal(c.Value)}}
		}
		return []kpart{{V: a}}
	}
	// a module helper that only assembles a string from its parameters is expanded
	if call, ok := v.(*ssa.Call); ok && !call.Call.IsInvoke() {
		if h := call.Call.StaticCallee(); h != nil && inModule(h) && len(h.Blocks) == 1 && h.Signature.Recv() == nil &&
			h.Signature.Results().Len() == 1 && h.Signature.Results().At(0).Type().String() == "string" {
			if ret, ok := h.Blocks[0].Instrs[len(h.Blocks[0].Instrs)-1].(*ssa.Return); ok {
				sub := map[ssa.Value]ssa.Value{}
				for i, prm := range h.Params {
					if i < len(call.Call.Args) {
						sub[prm] = call.Call.Args[i]
					}
				}
				return keyPartsS(ret.Results[0], depth+1, sub)
			}
		}
	}
	if c, ok := v.(*ssa.Const); ok && c.Value != nil && c.Value.Kind() == constant.String {
		return []kpart{{Lit: constant.StringVal(c.Value)}}
	}
	if b, ok := v.(*ssa.BinOp); ok && b.Op == token.ADD {
		// a + b: constants and nested concatenations are spelled out, any other operand is one part (like an
		// argument of Sprintf: an address built elsewhere stays atomic)
		part := func(x ssa.Value) []kpart {
			sx := strip(x)
			if _, isSub := subst[sx]; isSub {
				return keyPartsS(sx, depth+1, subst)
			}
			switch y := sx.(type) {
			case *ssa.Const:
				return keyPartsS(y, depth+1, subst)
			case *ssa.BinOp:
				if y.Op == token.ADD {
					return keyPartsS(y, depth+1, subst)
				}
			case *ssa.Call:
				if strings.HasPrefix(callName(y), "strconv.") {
					return keyPartsS(y, depth+1, subst)
				}
			}
			return []kpart{{V: sx}}
		}
		return append(part(b.X), part(b.Y)...)
	}
	if call, ok := v.(*ssa.Call); ok && callName(call) == "fmt.Sprintf" {
		fc, ok := origin(call.Call.Args[0]).(*ssa.Const)
		if ok && fc.Value != nil {
			format := constant.StringVal(fc.Value)
			args := sprintfArgs(call)
			var out []kpart
			lit := ""
			ai := 0
			for i := 0; i < len(format); i++ {
				if format[i] == '%' && i+1 < len(format) {
					if format[i+1] == '%' {
						lit += "%"
						i++
						continue
					}
					if lit != "" {
						out = append(out, kpart{Lit: lit})
						lit = ""
					}
					if ai < len(args) {
						// a nested Sprintf argument is kept atomic; a helper parameter is replaced by the caller's argument
						if a, ok := subst[args[ai]]; ok {
							if c, ok := strip(a).(*ssa.Const); ok && c.Value != nil && c.Value.Kind() == constant.String {
								out = append(out, kpart{Lit: constant.StringVal(c.Value)})
							} else {
								out = append(out, kpart{V: strip(a)})
							}
						} else {
							out = append(out, kpart{V: args[ai]})
						}
					} else {
						out = append(out, kpart{V: nil})
					}
					ai++
					i++
					continue
				}
				lit += string(format[i])
			}
			if lit != "" {
				out = append(out, kpart{Lit: lit})
			}
			return out
		}
	}
	if call, ok := v.(*ssa.Call); ok && (callName(call) == "strconv.Itoa" || callName(call) == "strconv.FormatInt" || callName(call) == "strconv.FormatUint") && len(call.Call.Args) >= 1 {
		// the decimal rendering of an integer is that integer as a key part (like %d)
		return []kpart{{V: strip(call.Call.Args[0])}}
	}
	return []kpart{{V: v}}
}

// skeleton renders a key as PROTO / V / literal sequence.
func skeleton(parts []kpart) (string, []ssa.Value) {
	var sb []string
	var vars []ssa.Value
	// merge adjacent literals
	var merged []kpart
	for _, p := range parts {
		if p.V == nil && len(merged) > 0 && merged[len(merged)-1].V == nil {
			merged[len(merged)-1].Lit += p.Lit
			continue
		}
		merged = append(merged, p)
	}
	for i, p := range merged {
		if p.V == nil {
			l := p.Lit
			if i == 0 && strings.HasPrefix(l, "udp:") {
				sb = append(sb, "PROTO", ":")
				l = strings.TrimPrefix(l, "udp:")
				if l == "" {
					continue
				}
			}
			sb = append(sb, l)
			continue
		}
		cl := addrClass(p.V)
		if i == 0 && (cl == mProto || cl == "field:"+mapT+".proto") {
			sb = append(sb, "PROTO")
			continue
		}
		sb = append(sb, "V")
		vars = append(vars, p.V)
	}
	return strings.Join(sb, " "), vars
}

type keyUse struct {
	Map  string // outboundMap | inboundMap
	Op   string // lookup | insert | delete
	Key  ssa.Value
	In   ssa.Instruction
	Fn   *ssa.Function
	Skel string
	Vars []ssa.Value
}

// natKeyUses collects every key used with the two mapping tables, following a key
// parameter of a lookup helper back to the helper's call sites.
func natKeyUses(p *Prog) []keyUse {
	var out []keyUse
	add := func(m, op string, key ssa.Value, in ssa.Instruction, f *ssa.Function) {
		if prm, ok := key.(*ssa.Parameter); ok {
			// follow to callers
			idx := -1
			for i, q := range f.Params {
				if q == prm {
					idx = i
				}
			}
			for _, e := range p.CG().In[f] {
				if ci, ok := e.Site.(ssa.CallInstruction); ok && idx >= 0 && idx < len(ci.Common().Args) {
					k := ci.Common().Args[idx]
					sk, vs := skeleton(keyParts(k, 0))
					out = append(out, keyUse{m, op, k, e.Site, e.From, sk, vs})
				}
			}
			return
		}
		sk, vs := skeleton(keyParts(key, 0))
		out = append(out, keyUse{m, op, key, in, f, sk, vs})
	}
	for _, f := range p.Funcs {
		if pkgOf(f) != "vnet" {
			continue
		}
		instrsOf(f, func(in ssa.Instruction) {
			for _, m := range []string{fOut, fIn} {
				switch x := in.(type) {
				case *ssa.Lookup:
					if isFieldLoad(x.X, natT, m) {
						add(m, "lookup", x.Index, in, f)
					}
					// a lookup helper shared by both tables: table[key] with both handed in by the callers
					if tp, isP := x.X.(*ssa.Parameter); isP && tp.Parent() == f {
						ti, ki := -1, -1
						for i, q := range f.Params {
							if q == tp {
								ti = i
							}
							if ssa.Value(q) == x.Index {
								ki = i
							}
						}
						for _, e := range p.CG().In[f] {
							ci, ok := e.Site.(ssa.CallInstruction)
							if !ok || ti < 0 || ti >= len(ci.Common().Args) || !isFieldLoad(ci.Common().Args[ti], natT, m) {
								continue
							}
							key := x.Index
							if ki >= 0 && ki < len(ci.Common().Args) {
								key = ci.Common().Args[ki]
							}
							add(m, "lookup", key, e.Site, e.From)
						}
					}
				case *ssa.MapUpdate:
					if isFieldLoad(x.Map, natT, m) {
						add(m, "insert", x.Key, in, f)
					}
				case *ssa.Call:
					if isCall(in, "builtin.delete") && isFieldLoad(x.Call.Args[0], natT, m) {
						add(m, "delete", x.Call.Args[1], in, f)
					}
				}
			}
		})
	}
	return out
}

// switchTable: for a value selected by a switch on n.natType.<field> - a phi in the
// translation itself, or the result of a helper that is passed n.natType.<field> and
// switches on that parameter - the class of the value chosen for every enum constant
// (and "default").
func switchTable(v ssa.Value, field string) map[string]string {
	out := map[string]string{}
	labelOf := func(facts []fact, isSel func(ssa.Value) bool) string {
		label := "default"
		for _, ft := range facts {
			cm, ok := normCmp(ft.Cond, ft.Val)
			if !ok || cm.Op != token.EQL {
				continue
			}
			var cst ssa.Value
			if isSel(cm.X) {
				cst = cm.Y
			} else if isSel(cm.Y) {
				cst = cm.X
			} else {
				continue
			}
			if k, ok := constInt(cst); ok {
				label = fmt.Sprint(k)
			}
		}
		return label
	}
	put := func(label, class string) {
		if old, ok := out[label]; ok && old != class {
			class = old + "|" + class
		}
		out[label] = class
	}
	switch x := v.(type) {
	case *ssa.Phi:
		for i, e := range x.Edges {
			pred := x.Block().Preds[i]
			facts := append(guardsOfBlock(pred), lastBranchFact(pred, x.Block())...)
			// "the two behaviours are equal: reuse the value selected by the other switch": under field == other the
			// value is what the other switch selects for that same constant
			expanded := false
			for _, ft := range facts {
				cm, ok := normCmp(ft.Cond, ft.Val)
				if !ok || cm.Op != token.EQL {
					continue
				}
				for _, pr := range [][2]ssa.Value{{cm.X, cm.Y}, {cm.Y, cm.X}} {
					if !isNatTypeLoad(pr[0], field) {
						continue
					}
					fr, ok := asFieldLoad(pr[1])
					if !ok || fr.SName != "vnet.NATType" || fr.Field == field {
						continue
					}
					tm := switchTable(e, fr.Field)
					n := 0
					for k := range tm {
						if k != "default" {
							n++
						}
					}
					if n < 2 {
						continue
					}
					for k, cls := range tm {
						put(k, cls)
					}
					expanded = true
				}
			}
			if expanded {
				continue
			}
			// an edge that is itself selected by the same behaviour (a key helper called in one branch only)
			if _, isCall := e.(*ssa.Call); isCall {
				te := switchTable(e, field)
				n := 0
				for k := range te {
					if k != "default" {
						n++
					}
				}
				if n >= 2 {
					for k, cls := range te {
						put(k, cls)
					}
					continue
				}
			}
			put(labelOf(facts, func(y ssa.Value) bool { return isNatTypeLoad(y, field) }), addrClass(e))
		}
	case *ssa.Call:
		h := x.Call.StaticCallee()
		if h == nil || !inModule(h) || len(h.Blocks) == 0 || h.Signature.Results().Len() != 1 {
			return out
		}
		bind := map[ssa.Value]ssa.Value{}
		var sel ssa.Value
		for i, a := range x.Call.Args {
			if i < len(h.Params) {
				bind[h.Params[i]] = a
				if isNatTypeLoad(a, field) {
					sel = h.Params[i]
				}
			}
		}
		isSel := func(y ssa.Value) bool { return (sel != nil && y == sel) || isNatTypeLoad(y, field) }
		for _, ret := range findInstrs(h, isReturn) {
			for _, rv := range retValAt(ret.(*ssa.Return), 0) {
				for _, leaf := range phiLeavesWithPred(rv) {
					facts := guardsOfBlock(ret.Block())
					if leaf.pred != nil {
						facts = append(guardsOfBlock(leaf.pred), lastBranchFact(leaf.pred, ret.Block())...)
					}
					put(labelOf(facts, isSel), addrClassB(leaf.v, bind))
				}
			}
		}
	}
	return out
}

// lastBranchFact: the fact established by the branch from pred to succ itself.
func lastBranchFact(pred, succ *ssa.BasicBlock) []fact {
	iff, ok := pred.Instrs[len(pred.Instrs)-1].(*ssa.If)
	if !ok || pred.Succs[0] == pred.Succs[1] {
		return nil
	}
	if pred.Succs[0] == succ {
		return []fact{{Cond: iff.Cond, Val: true, If: iff}}
	}
	if pred.Succs[1] == succ {
		return []fact{{Cond: iff.Cond, Val: false, If: iff}}
	}
	return nil
}

func isNatTypeLoad(v ssa.Value, field string) bool {
	fr, ok := asFieldLoad(v)
	if !ok || fr.SName != "vnet.NATType" || fr.Field != field {
		return false
	}
	return true
}

func fmtTable(t map[string]string) string {
	var ks []string
	for k := range t {
		ks = append(ks, k)
	}
	sort.Strings(ks)
	var out []string
	for _, k := range ks {
		out = append(out, k+":"+t[k])
	}
	return strings.Join(out, " ")
}

// findKeyPhis locates in f the values selected by switches on the given natType field.
func findKeyPhis(f *ssa.Function, field string) []ssa.Value {
	var out []ssa.Value
	for _, g := range unitOf(f) {
		instrsOf(g, func(in ssa.Instruction) {
			v, ok := in.(ssa.Value)
			if !ok || v.Type().String() != "string" {
				return
			}
			switch in.(type) {
			case *ssa.Phi, *ssa.Call:
			default:
				return
			}
			t := switchTable(v, field)
			n := 0
			for k := range t {
				if k != "default" {
					n++
				}
			}
			if ph, isPhi := v.(*ssa.Phi); isPhi && n >= 2 {
				// a value that merely reuses, where the two behaviours are equal, the key this field selects
				// elsewhere is a key of the other behaviour
				for i, e := range ph.Edges {
					pred := ph.Block().Preds[i]
					for _, ft := range append(guardsOfBlock(pred), lastBranchFact(pred, ph.Block())...) {
						cm, ok := normCmp(ft.Cond, ft.Val)
						if !ok || cm.Op != token.EQL {
							continue
						}
						fx, okx := asFieldLoad(cm.X)
						fy, oky := asFieldLoad(cm.Y)
						if okx && oky && fx.SName == "vnet.NATType" && fy.SName == "vnet.NATType" && fx.Field != fy.Field && (fx.Field == field || fy.Field == field) {
							te := switchTable(e, field)
							m := 0
							for k := range te {
								if k != "default" {
									m++
								}
							}
							if m >= 2 {
								n = 0
							}
						}
					}
				}
			}
			if n >= 2 {
				out = append(out, v)
			}
		})
	}
	// a value that only feeds another selected value (the key helper called on one edge of the selection) is part of it
	var kept []ssa.Value
	for _, v := range out {
		part := false
		for _, w := range out {
			if ph, ok := w.(*ssa.Phi); ok && w != v {
				for _, e := range ph.Edges {
					if e == v {
						part = true
					}
				}
			}
		}
		if !part {
			kept = append(kept, v)
		}
	}
	return kept
}

func valFunc(v ssa.Value) *ssa.Function {
	if in, ok := v.(ssa.Instruction); ok {
		return in.Parent()
	}
	return nil
}

func (r *natRoles) checkTable(o *Obligation, ph ssa.Value, field string, want map[int64]string) {
	t := switchTable(ph, field)
	o.Site(ph.Pos(), "switch on %s in %s: %s", field, fname(valFunc(ph)), fmtTable(t))
	for k, w := range want {
		got, ok := t[fmt.Sprint(k)]
		if !ok {
			// a constant without a case of its own takes the default
			got, ok = t["default"]
		}
		if !ok {
			o.Fail(ph.Pos(), "switch on %s has no case for constant %d (not exhaustive)", field, k)
			continue
		}
		if got != w {
			o.Fail(ph.Pos(), "%s = %d selects %s, the behaviour requires %s", field, k, got, w)
		}
	}
	if d, ok := t["default"]; ok && d != "none" {
		o.Fail(ph.Pos(), "default of the switch on %s selects %s", field, d)
	}
}

// naptBlock: the block that starts the NAPT (normal mode) branch of a translate function.
func (r *natRoles) modeFact(ft fact, oneToOne bool) bool {
	cm, ok := normCmp(ft.Cond, ft.Val)
	if !ok {
		return false
	}
	var cst ssa.Value
	if isNatTypeLoad(cm.X, "Mode") {
		cst = cm.Y
	} else if isNatTypeLoad(cm.Y, "Mode") {
		cst = cm.X
	} else {
		return false
	}
	k, ok := constInt(cst)
	if !ok {
		return false
	}
	if k == r.enum["NATModeNAT1To1"] {
		return (cm.Op == token.EQL) == oneToOne
	}
	if k == r.enum["NATModeNormal"] {
		return (cm.Op == token.EQL) != oneToOne
	}
	return false
}

func isSetAddr(in ssa.Instruction, which string) bool { return isInvoke(in, which) }

// ---------------------------------------------------------------------------------
// C02
// ---------------------------------------------------------------------------------

func runC02(c *Ctx) {
	p := c.P
	r := natAnchors(c)
	if r == nil {
		return
	}
	la := computeLocksets(p)
	E := r.enum

	// R1 mapping-key table
	o := c.Obl("R1", fname(r.out), "the mapping key depends on nothing / the destination IP / the destination IP:port for the three mapping behaviours (exhaustive switch), and is combined with the chunk's source address", 1)
	boundPhis := findKeyPhis(r.out, "MappingBehavior")
	if len(boundPhis) != 1 {
		o.Undecide("expected one switch on MappingBehavior in translateOutbound, found %d", len(boundPhis))
	} else {
		r.checkTable(o, boundPhis[0], "MappingBehavior", map[int64]string{E["EndpointIndependent"]: "none", E["EndpointAddrDependent"]: "dst.IP", E["EndpointAddrPortDependent"]: "dst.IP:port"})
	}
	for _, f := range []*ssa.Function{r.in, r.findOut, r.findIn, r.remove} {
		if len(findKeyPhis(f, "MappingBehavior")) > 0 {
			o.Fail(f.Pos(), "%s also switches on MappingBehavior", fname(f))
		}
	}

	// R2 key agreement
	o = c.Obl("R2", natT+".maps", "all keys of outboundMap have the shape proto:local:bound and all keys of inboundMap the shape proto:mapped, with ':' between parts; insert and delete keys agree component by component; creation registers the mapping in both maps and removal deletes from both", 6)
	uses := natKeyUses(p)
	wantSkel := map[string]string{fOut: "PROTO : V : V", fIn: "PROTO : V"}
	comps := map[string][][]string{}
	var creation *ssa.Alloc
	instrsOfU(r.out, func(in ssa.Instruction) {
		if a, ok := in.(*ssa.Alloc); ok && typeName(a.Type()) == mapT {
			creation = a
		}
	})
	eq := map[string]ssa.Value{} // mapping field -> value stored at creation
	if creation != nil {
		for _, rf := range *creation.Referrers() {
			if fa, ok := rf.(*ssa.FieldAddr); ok {
				fr, _ := asFieldAddr(fa)
				for _, rr := range *fa.Referrers() {
					if st, ok := rr.(*ssa.Store); ok && sameOrigin(st.Addr, ssa.Value(fa)) {
						eq[fr.Field] = st.Val
					}
				}
			}
		}
	}
	classOf := func(v ssa.Value) string {
		cl := addrClass(v)
		if strings.HasPrefix(cl, "field:"+mapT+".") {
			f := strings.TrimPrefix(cl, "field:"+mapT+".")
			if sv, ok := eq[f]; ok {
				return classOfStored(sv)
			}
		}
		return classOfStored(v)
	}
	for _, u := range uses {
		o.Site(u.In.Pos(), "%s %s in %s: key %s", u.Map, u.Op, fname(u.Fn), u.Skel)
		if u.Skel != wantSkel[u.Map] {
			o.Fail(u.In.Pos(), "%s %s in %s uses a key of shape [%s], the table is keyed by [%s]: keys no longer agree / adjacent parts are not separated (two endpoints can collide, or a lookup never finds its entry)", u.Map, u.Op, fname(u.Fn), u.Skel, wantSkel[u.Map])
			continue
		}
		var cs []string
		for _, v := range u.Vars {
			cs = append(cs, classOf(v))
		}
		comps[u.Map+"/"+u.Op] = append(comps[u.Map+"/"+u.Op], cs)
	}
	// outbound: insert key parts = (src.IP:port, bound phi); delete parts must map to the same
	agree := func(m string) {
		ins := comps[m+"/insert"]
		del := comps[m+"/delete"]
		if len(ins) != 1 || len(del) != 1 {
			o.Fail(r.out.Pos(), "%s: expected one insert and one delete site, found %d/%d", m, len(ins), len(del))
			return
		}
		for i := range ins[0] {
			if i >= len(del[0]) || ins[0][i] != del[0][i] {
				o.Fail(r.remove.Pos(), "%s: the delete key component %d is %v but the insert key component is %v (an expired mapping would never be removed, or another one would be)", m, i, del[0], ins[0])
			}
		}
	}
	agree(fOut)
	agree(fIn)
	if ins := comps[fOut+"/insert"]; len(ins) == 1 && len(ins[0]) == 2 {
		if ins[0][0] != "src.IP:port" {
			o.Fail(r.out.Pos(), "the outbound key is not built from the chunk's source address and port (got %s)", ins[0][0])
		}
		if !strings.HasPrefix(ins[0][1], "phi:") {
			o.Fail(r.out.Pos(), "the outbound key's second part is not the behaviour-dependent bound value (got %s)", ins[0][1])
		}
	}
	for _, lk := range comps[fIn+"/lookup"] {
		if len(lk) == 1 && lk[0] != "dst.IP:port" && !strings.HasPrefix(lk[0], "fmt") && !strings.HasPrefix(lk[0], "call:") {
			o.Fail(r.in.Pos(), "inbound lookup is keyed by %s, not by the chunk's destination address", lk[0])
		}
	}
	// creation registers in both maps with the same mapping; removal deletes both
	if creation == nil {
		o.Fail(r.out.Pos(), "no mapping is created in translateOutbound")
	} else {
		for _, m := range []string{fOut, fIn} {
			isIns := func(in ssa.Instruction) bool {
				mu, ok := in.(*ssa.MapUpdate)
				return ok && isFieldLoad(mu.Map, natT, m) && sameOrigin(mu.Value, ssa.Value(creation))
			}
			if ok, bad := mustPassU(posAfter(creation), func(in ssa.Instruction) bool { return isSuccessReturnOf(in, 1) && retChunkNonNil(in) }, isIns); !ok {
				o.Fail(bad.Pos(), "a new mapping is not registered in %s on every path to the successful return", m)
			}
		}
	}
	for _, m := range []string{fOut, fIn} {
		if ok, bad := mustPassU(entryPos(r.remove), isReturn, func(in ssa.Instruction) bool {
			return isCall(in, "builtin.delete") && isFieldLoad(in.(ssa.CallInstruction).Common().Args[0], natT, m)
		}); !ok {
			o.Fail(bad.Pos(), "removal does not delete the mapping from %s", m)
		}
	}

	// R3 outbound-only refresh
	o = c.Obl("R3", mapT+".expires", "the expiry of a mapping is written only on outbound paths (creation and outbound reuse), never by anything reachable from the inbound translation; outbound reuse always refreshes", 2)
	cg := p.CG()
	fromIn := cg.reachableFrom([]*ssa.Function{r.in, r.inEntry, r.routerIn}, func(e cgEdge) bool { return pkgOf(e.To) == "vnet" && e.Kind != "ref" })
	isRefresh := func(in ssa.Instruction) bool { return isFieldStore(in, mapT, mExp) }
	for _, f := range p.Funcs {
		if isPrivateHelper(f) && !unitExclude[f] {
			continue // analysed as part of the functions that call it
		}
		if pkgOf(f) != "vnet" {
			continue
		}
		for _, in := range findU(f, isRefresh) {
			o.Site(in.Pos(), "store to expires in %s", fname(f))
			if fromIn[f] && in.Parent() != f {
				// a lookup helper shared with the outbound side and switched by a constant argument (refresh bool):
				// the store counts only if some path of this function, with that argument, executes it
				if ps, okP := enumIterPathsU(f, 20000); okP {
					onPath := false
					for pi := range ps {
						if ps[pi].indexOf(in) >= 0 {
							onPath = true
							break
						}
					}
					if !onPath {
						continue
					}
				}
			}
			if fromIn[f] {
				o.Fail(in.Pos(), "mapping.expires is written in %s, which is reachable from the inbound translation: inbound traffic alone prolongs a mapping", fname(f))
			}
			// the new expiry is one lifetime from now (not from the old expiry: a burst would bank lifetimes)
			okVal := false
			if add, ok := origin(in.(*ssa.Store).Val).(*ssa.Call); ok && callName(add) == "(time.Time).Add" {
				now, isNow := origin(add.Call.Args[0]).(*ssa.Call)
				fr, isLT := asFieldLoad(add.Call.Args[1])
				okVal = isNow && callName(now) == "time.Now" && isLT && fr.Field == "MappingLifeTime"
			}
			if !okVal {
				o.Fail(in.Pos(), "mapping.expires is not set to time.Now().Add(MappingLifeTime): the idle timer of the mapping is not restarted from the moment of the outbound datagram")
			}
		}
	}
	// outbound reuse refreshes: the lookup helper refreshes before returning a live mapping, or the caller does on the found edge
	helperRefreshes := true
	for _, ret := range findInstrs(r.findOut, isReturn) {
		for _, leaf := range phiLeavesWithPred(ret.(*ssa.Return).Results[0]) {
			if isNilConst(leaf.v) {
				continue
			}
			// value may be non-nil unless the edge is the !ok edge of the lookup
			if leaf.pred != nil && blockHasFact(leaf.pred, ret.Block(), func(ft fact) bool {
				return boolFact(ft, func(v ssa.Value) bool {
					ex, ok := v.(*ssa.Extract)
					if !ok || ex.Index != 1 {
						return false
					}
					_, isLk := origin(ex.Tuple).(*ssa.Lookup)
					return isLk
				}, false)
			}) {
				continue
			}
			// must have passed a refresh
			start := entryPos(r.findOut)
			okp := true
			if leaf.pred != nil {
				re := reachU(start, isRefresh)
				last := leaf.pred.Instrs[len(leaf.pred.Instrs)-1]
				if re[last] {
					okp = false
				}
			} else {
				okp, _ = mustPassU(start, func(in ssa.Instruction) bool { return in == ret }, isRefresh)
			}
			if !okp {
				helperRefreshes = false
			}
		}
	}
	if !helperRefreshes {
		// then the caller must refresh on the found edge
		var call *ssa.Call
		instrsOfU(r.out, func(in ssa.Instruction) {
			if cl, ok := in.(*ssa.Call); ok && cl.Call.StaticCallee() == r.findOut {
				call = cl
			}
		})
		okCaller := false
		if call != nil {
			for _, b := range r.out.Blocks {
				iff, ok := b.Instrs[len(b.Instrs)-1].(*ssa.If)
				if !ok || b.Succs[0] == b.Succs[1] {
					continue
				}
				for k := 0; k < 2; k++ {
					ft := fact{Cond: iff.Cond, Val: k == 0, If: iff}
					if nilFact(ft, func(v ssa.Value) bool { return sameOrigin(v, ssa.Value(call)) }, false) && len(b.Succs[k].Preds) == 1 {
						// b.Succs[k] is the entry of the found edge
						if ok, _ := mustPassU(blockStart(b.Succs[k]), func(in ssa.Instruction) bool { return isSuccessReturnOf(in, 1) }, isRefresh); ok {
							okCaller = true
						}
					}
				}
			}
		}
		if !okCaller {
			o.Fail(r.findOut.Pos(), "an existing mapping can be reused by an outbound datagram without refreshing its expiry on every path: a flow that keeps sending (e.g. to new remotes) times out")
		}
	}

	// R4 expiry before reuse
	o = c.Obl("R4", natT+".find", "a mapping is handed out by the lookup helpers only on the not-expired edge (now.After(expires) false); the expired edge removes it", 2)
	for _, f := range []*ssa.Function{r.findOut, r.findIn} {
		// path by path (a lookup helper shared by both tables is followed with this caller's arguments)
		fpaths, okFP := enumIterPathsU(f, 5000)
		if !okFP {
			o.Undecide("the paths of %s could not be enumerated", fname(f))
		}
		seenR4 := map[string]bool{}
		for pi := range fpaths {
			pt := &fpaths[pi]
			ret, isRet := pt.last().(*ssa.Return)
			if !isRet || pt.Loop || ret.Parent() != f || len(ret.Results) == 0 {
				continue
			}
			rv := pt.value(retValAt(ret, 0)[0])
			if isNilConst(rv) {
				continue
			}
			okE := false
			for _, ft := range pt.Conds {
				at := len(pt.Instrs) - 1
				if ft.If != nil {
					if k := pt.indexOf(ft.If); k >= 0 {
						at = k
					}
				}
				if boolFact(ft, func(v ssa.Value) bool {
					cl, ok := v.(*ssa.Call)
					return ok && isExpiredTestP(cl, mExp, pt, at)
				}, false) {
					okE = true // found not expired
				}
				if boolFact(ft, func(v ssa.Value) bool {
					ex, ok := v.(*ssa.Extract)
					if !ok || ex.Index != 1 {
						return false
					}
					_, isLk := origin(ex.Tuple).(*ssa.Lookup)
					return isLk
				}, false) {
					okE = true // not found: the value handed back is the nil of a failed lookup
				}
			}
			key := fmt.Sprintf("%s %v", rv.Name(), okE)
			if !seenR4[key] {
				seenR4[key] = true
				o.Site(ret.Pos(), "%s returns %s (guarded: %v)", f.Name(), rv.Name(), okE)
			}
			if !okE && !seenR4["fail"] {
				seenR4["fail"] = true
				o.Fail(ret.Pos(), "%s can return a mapping without having found it not expired", fname(f))
			}
		}
		// expired edge removes
		rem := findU(f, func(in ssa.Instruction) bool {
			cl, ok := in.(*ssa.Call)
			return ok && cl.Call.StaticCallee() == r.remove
		})
		if len(rem) == 0 {
			o.Fail(f.Pos(), "%s never removes an expired mapping", fname(f))
		}
		for _, in := range rem {
			if !hasFact(in, func(ft fact) bool {
				return boolFact(ft, func(v ssa.Value) bool {
					cl, ok := v.(*ssa.Call)
					return ok && isExpiredTest(cl, mExp)
				}, true)
			}) {
				o.Fail(in.Pos(), "%s removes a mapping that was not found expired", fname(f))
			}
		}
	}

	// R5 external port valid and unique
	allocName := "vnet.networkAddressTranslator.allocate"
	if r.alloc != nil {
		allocName = fname(r.alloc)
	}
	o = c.Obl("R5", allocName, "the external port is base + (counter mod span) with 1 <= base and base+span <= 65536; the counter stays in [0, span); an address is handed out only on the edge where the inbound table has no live mapping for it, built from an IP of the router", 3)
	okPort := false
	var portVal ssa.Value
	// the port is the integer part of the address string the allocator returns (or, without an allocator helper, of the mapped address built in translateOutbound)
	var addrVals []ssa.Value
	if r.alloc != nil {
		for _, ret := range findInstrs(r.alloc, isReturn) {
			rv := retValAt(ret.(*ssa.Return), 1)
			if len(rv) == 1 && isConstBool(rv[0], true) {
				addrVals = append(addrVals, retValAt(ret.(*ssa.Return), 0)...)
			}
		}
	} else {
		// no allocator helper: the mapped address is built where the mapping is created
		instrsOfU(r.out, func(in ssa.Instruction) {
			if st, ok := in.(*ssa.Store); ok && isFieldStore(st, mapT, mMapped) {
				addrVals = append(addrVals, st.Val)
			}
		})
	}
	for _, av := range addrVals {
		for _, k := range keyParts(av, 0) {
			if k.V == nil {
				continue
			}
			if bt, ok := k.V.Type().Underlying().(*types.Basic); !ok || bt.Info()&types.IsInteger == 0 {
				continue
			}
			portVal = k.V
			in := k.V.(ssa.Instruction)
			b, ok := k.V.(*ssa.BinOp)
			if !ok || b.Op != token.ADD {
				o.Fail(in.Pos(), "the external port is not base + (counter mod span)")
				continue
			}
			var base int64
			var rest ssa.Value
			if kk, ok := constInt(b.X); ok {
				base, rest = kk, b.Y
			} else if kk, ok := constInt(b.Y); ok {
				base, rest = kk, b.X
			} else {
				o.Fail(in.Pos(), "the external port has no constant base")
				continue
			}
			o.Site(in.Pos(), "port = %d + %s", base, rest.String())
			rm, ok := rest.(*ssa.BinOp)
			if !ok || rm.Op != token.REM || !isFieldLoad(rm.X, natT, fCtr) {
				o.Fail(in.Pos(), "the external port is %d + counter without reduction modulo the size of the dynamic range: after %d mappings the port exceeds 65535, the translation fails and the router goroutine exits", base, 65536-base)
				continue
			}
			span, ok := constInt(rm.Y)
			if !ok || base < 1 || base+span > 65536 || span < 1 {
				o.Fail(in.Pos(), "port range [%d, %d+%d) is not inside [1, 65535]", base, base, span)
				continue
			}
			okPort = true
		}
	}
	if !okPort && !o.Failed {
		o.Fail(r.out.Pos(), "computation of the external port (base + counter mod span) not found")
	}
	for _, f := range p.Funcs {
		if isPrivateHelper(f) && !unitExclude[f] {
			continue // analysed as part of the functions that call it
		}
		if pkgOf(f) != "vnet" {
			continue
		}
		for _, in := range findU(f, func(in ssa.Instruction) bool { return isFieldStore(in, natT, fCtr) }) {
			st := in.(*ssa.Store)
			if isFreshBase(st.Addr.(*ssa.FieldAddr).X) {
				continue
			}
			o.Site(in.Pos(), "counter = %s", st.Val.String())
			if !la.holdsOwner(in, natT, true) {
				o.Fail(in.Pos(), "the port counter is advanced outside the NAT mutex")
			}
		}
	}
	// uniqueness: successful return guarded by "no live inbound mapping" for the very address returned
	nOK := 0
	if r.alloc == nil {
		o.Fail(r.out.Pos(), "external addresses are taken into use without testing that no live mapping holds them (no allocator with a liveness probe)")
		nOK = 1
	}
	for _, ret := range allocReturns(r.alloc) {
		rv := retValAt(ret.(*ssa.Return), 1)
		if len(rv) != 1 || !isConstBool(rv[0], true) {
			continue
		}
		nOK++
		addr := retValAt(ret.(*ssa.Return), 0)[0]
		free := hasFact(ret, func(ft fact) bool {
			return nilFact(ft, func(v ssa.Value) bool {
				cl, ok := v.(*ssa.Call)
				if !ok || cl.Call.StaticCallee() != r.findIn {
					return false
				}
				// the probed key is built from the returned address
				for _, kp := range keyParts(cl.Call.Args[1], 0) {
					if kp.V != nil && kp.V == addr {
						return true
					}
				}
				return false
			}, true)
		})
		o.Site(ret.Pos(), "returns an address (free-probe edge: %v)", free)
		if !free {
			o.Fail(ret.Pos(), "an external address is handed out on a path that has not found the inbound table free of a live mapping for that very address: two live mappings can share one external address")
		}
		// built from mappedIPs and the port value
		kp := keyParts(addr, 0)
		hasIP, hasPort := false, false
		for _, k := range kp {
			if k.V == nil {
				continue
			}
			if derivesFrom(k.V, func(v ssa.Value) bool { return isFieldLoad(v, natT, fMappedIPs) }, true) {
				hasIP = true
			}
			if portVal != nil && k.V == portVal {
				hasPort = true
			}
		}
		if !hasIP || !hasPort {
			o.Fail(ret.Pos(), "the external address is not 'IP of the router : port from the dynamic range'")
		}
	}
	if nOK == 0 {
		o.Fail(r.out.Pos(), "the allocator never succeeds")
	}
	// the NAPT source rewrite uses the mapping's mapped address
	for _, ev := range rewriteEvents(r.out, "setSourceAddr") {
		if ev.has(func(ft fact) bool { return r.modeFact(ft, true) }) {
			continue
		}
		if !isFieldLoad(ev.arg, mapT, mMapped) {
			o.Fail(ev.call.Pos(), "in NAPT mode the source is not rewritten to the mapping's external address")
		}
	}

	// R6 1:1 mirror
	o = c.Obl("R6", natT+".1to1", "1:1 mode: the two pairing helpers are mirror images over the index-aligned IP lists; outbound rewrites only the source (paired external IP, port preserved), inbound only the destination (paired local IP, port preserved); unpaired addresses are not translated", 4)
	pairShape := func(f *ssa.Function, over, ret string, caller *ssa.Function) {
		// path by path (a helper shared by the two directions is followed with this function's arguments)
		okS := false
		// a helper that takes the two lists as arguments: which list a parameter stands for is decided by the
		// call in the translation that uses it
		var site *ssa.Call
		if f.Signature.Recv() == nil && caller != nil {
			n := 0
			instrsOfU(caller, func(in ssa.Instruction) {
				if cl, ok := in.(*ssa.Call); ok && cl.Call.StaticCallee() == f {
					site = cl
					n++
				}
			})
			if n != 1 {
				o.Fail(caller.Pos(), "expected one call of %s in %s, found %d", fname(f), fname(caller), n)
				return
			}
		}
		ipParam := f.Params[len(f.Params)-1]
		isList := func(v ssa.Value, name string) bool {
			if isFieldLoad(v, natT, name) {
				return true
			}
			if prm, ok := v.(*ssa.Parameter); ok && site != nil && prm.Parent() == f {
				for k, q := range f.Params {
					if q == prm && k < len(site.Call.Args) {
						return isFieldLoad(site.Call.Args[k], natT, name)
					}
				}
			}
			return false
		}
		paths, okP := enumIterPathsU(f, 5000)
		if !okP {
			o.Undecide("the paths of %s could not be enumerated", fname(f))
			return
		}
		seen := map[ssa.Value]bool{}
		for pi := range paths {
			pth := &paths[pi]
			rt, isRet := pth.last().(*ssa.Return)
			if !isRet || pth.Loop || rt.Parent() != f {
				continue
			}
			for _, v0 := range retValAt(rt, 0) {
				v := pth.value(v0)
				if isNilConst(v) {
					continue
				}
				u, ok := v.(*ssa.UnOp)
				if !ok {
					o.Fail(rt.Pos(), "%s returns something that is not an element of %s", fname(f), ret)
					continue
				}
				ia, ok := u.X.(*ssa.IndexAddr)
				if !ok || !isList(pth.value(ia.X), ret) {
					o.Fail(v.Pos(), "%s does not return an element of %s", fname(f), ret)
					continue
				}
				// the index is the range index over `over`, and the return is on the Equal(param) edge
				eqFact := false
				for _, ft := range pth.Conds {
					if boolFact(ft, func(x ssa.Value) bool {
						cl, ok := x.(*ssa.Call)
						if !ok || callName(cl) != "(net.IP).Equal" {
							return false
						}
						a0, a1 := cl.Call.Args[0], cl.Call.Args[1]
						fromOver := func(y ssa.Value) bool {
							uu, ok := y.(*ssa.UnOp)
							if !ok {
								return false
							}
							ia2, ok := uu.X.(*ssa.IndexAddr)
							return ok && isList(pth.value(ia2.X), over) && ia2.Index == ia.Index
						}
						isArg := func(y ssa.Value) bool { return pth.value(y) == ssa.Value(ipParam) }
						return (fromOver(a0) && isArg(a1)) || (fromOver(a1) && isArg(a0))
					}, true) {
						eqFact = true
					}
				}
				if !seen[v] {
					o.Site(v.Pos(), "%s returns %s[i] where %s[i].Equal(arg): %v", f.Name(), ret, over, eqFact)
				}
				seen[v] = true
				if !eqFact {
					o.Fail(v.Pos(), "%s returns %s[i] without having matched %s[i] against its argument with the same index", fname(f), ret, over)
				}
				okS = true
			}
		}
		if !okS {
			o.Fail(f.Pos(), "%s never returns a paired address", fname(f))
		}
	}
	pairShape(r.pairMapped, fLocalIPs, fMappedIPs, r.out)
	pairShape(r.pairLocal, fMappedIPs, fLocalIPs, r.in)
	// the two address lists are built in one loop, index by index, and handed to the NAT as they were built: between
	// the appends and the configuration nothing else receives either list (a sort or filter of one of them breaks
	// the pairing for every 1:1 pair but the first)
	if sr := p.Func("vnet", "Router", "setRouter"); sr != nil {
		op := c.Obl("R10", fname(sr), "the paired lists of mapped and local addresses reach the NAT configuration exactly as the address loop built them: no function other than append/len receives either list in between", 2)
		family := map[ssa.Value]bool{}
		cells := map[ssa.Value]bool{}
		var back func(v ssa.Value, d int)
		back = func(v ssa.Value, d int) {
			v = strip(v)
			if v == nil || family[v] || d > 20 {
				return
			}
			family[v] = true
			switch x := v.(type) {
			case *ssa.Phi:
				for _, e := range x.Edges {
					back(e, d+1)
				}
			case *ssa.UnOp:
				if al, ok := x.X.(*ssa.Alloc); ok && x.Op == token.MUL {
					cells[al] = true
					for _, sv := range cellStores(al) {
						back(sv, d+1)
					}
				}
			case *ssa.Call:
				if b, ok := x.Call.Value.(*ssa.Builtin); ok && b.Name() == "append" {
					back(x.Call.Args[0], d+1)
				}
			case *ssa.Slice:
				back(x.X, d+1)
			}
		}
		nCfg := 0
		instrsOfU(sr, func(in ssa.Instruction) {
			if st, ok := in.(*ssa.Store); ok {
				if fr, ok := asFieldAddr(st.Addr); ok && fr.SName == "vnet.natConfig" && (fr.Field == fMappedIPs || fr.Field == fLocalIPs) {
					nCfg++
					op.Site(in.Pos(), "natConfig.%s", fr.Field)
					back(st.Val, 0)
				}
			}
		})
		if nCfg < 2 {
			op.Undecide("the NAT configuration's address lists are not set in %s", fname(sr))
		}
		inFamily := func(v ssa.Value) bool {
			v = strip(v)
			if family[v] {
				return true
			}
			if u, ok := v.(*ssa.UnOp); ok && u.Op == token.MUL && cells[u.X] {
				return true
			}
			return false
		}
		for _, g := range withClosures(sr) {
			instrsOf(g, func(in ssa.Instruction) {
				ci, ok := in.(ssa.CallInstruction)
				if !ok {
					return
				}
				if b, isB := ci.Common().Value.(*ssa.Builtin); isB {
					switch b.Name() {
					case "append", "len", "cap":
						return
					}
				}
				for _, a := range ci.Common().Args {
					if inFamily(a) {
						op.Fail(in.Pos(), "%s receives one of the paired address lists before the NAT is configured: reordering or filtering one list alone breaks the 1:1 pairing", callName(ci))
					}
					// a closure over the list variable (sort.Slice(list, func…))
					if mc, isMC := strip(a).(*ssa.MakeClosure); isMC {
						for _, bnd := range mc.Bindings {
							if cells[bnd] {
								op.Fail(in.Pos(), "%s is given a closure over one of the paired address lists before the NAT is configured", callName(ci))
							}
						}
					}
				}
			})
		}
	}
	oneToOne := func(f *ssa.Function, setter, other, addrMeth string, pair *ssa.Function) {
		n := 0
		for _, ev := range rewriteEvents(f, setter) {
			in := ev.call
			if !ev.has(func(ft fact) bool { return r.modeFact(ft, true) }) {
				continue
			}
			n++
			o.Site(in.Pos(), "1:1 %s", setter)
			kp := keyParts(ev.arg, 0)
			okIP, okPortP := false, false
			for _, k := range kp {
				if k.V == nil {
					continue
				}
				if derivesFrom(k.V, func(v ssa.Value) bool { cl, ok := v.(*ssa.Call); return ok && cl.Call.StaticCallee() == pair }, true) {
					okIP = true
				}
				if fr, ok := asFieldLoad(k.V); ok && fr.SName == "net.UDPAddr" && fr.Field == "Port" &&
					derivesFrom(fr.Base, func(v ssa.Value) bool {
						cl, ok := v.(*ssa.Call)
						return ok && cl.Call.IsInvoke() && cl.Call.Method.Name() == addrMeth
					}, false) {
					okPortP = true
				}
			}
			if !okIP || !okPortP {
				o.Fail(in.Pos(), "1:1 %s in %s does not use the paired IP with the original port (ip ok=%v, port preserved=%v)", setter, fname(f), okIP, okPortP)
			}
			// guarded by paired != nil
			if !ev.has(func(ft fact) bool {
				return nilFact(ft, func(v ssa.Value) bool { cl, ok := v.(*ssa.Call); return ok && cl.Call.StaticCallee() == pair }, false)
			}) {
				o.Fail(in.Pos(), "1:1 translation proceeds although no paired address was found")
			}
		}
		if n != 1 {
			o.Fail(f.Pos(), "expected one 1:1 %s in %s, found %d", setter, fname(f), n)
		}
		for _, in := range findU(f, func(in ssa.Instruction) bool { return isSetAddr(in, other) }) {
			o.Fail(in.Pos(), "%s rewrites the %s", fname(f), strings.TrimPrefix(other, "set"))
		}
	}
	oneToOne(r.out, "setSourceAddr", "setDestinationAddr", "SourceAddr", r.pairMapped)
	oneToOne(r.in, "setDestinationAddr", "setSourceAddr", "DestinationAddr", r.pairLocal)

	for _, f := range []*ssa.Function{r.outEntry, r.inEntry} {
		ob := c.Obl("R7", fname(f), "lock balance on every path", 1)
		la.lockBalance(ob, f)
	}
}

func classOfStored(v ssa.Value) string {
	cl := addrClass(v)
	if strings.HasPrefix(cl, "phi:") {
		return fmt.Sprintf("phi:%s@%d", v.(*ssa.Phi).Comment, v.Pos())
	}
	if call, ok := strip(v).(*ssa.Call); ok && !call.Call.IsInvoke() {
		for _, a := range call.Call.Args {
			if fr, ok := asFieldLoad(a); ok && fr.SName == "vnet.NATType" {
				return fmt.Sprintf("phi:table(%s)@%d", fr.Field, v.Pos())
			}
		}
	}
	return cl
}

type phiLeaf struct {
	v    ssa.Value
	pred *ssa.BasicBlock // predecessor block the value arrives from (nil if not via a phi)
	at   *ssa.BasicBlock // block of the phi the value enters
}

// facts that hold on the edge on which the leaf enters its phi.
func (l phiLeaf) edgeFacts() []fact {
	if l.pred == nil {
		return nil
	}
	fs := guardsOfBlock(l.pred)
	if l.at != nil {
		fs = append(fs, lastBranchFact(l.pred, l.at)...)
	}
	return fs
}

func phiLeavesWithPred(v ssa.Value) []phiLeaf {
	ph, ok := v.(*ssa.Phi)
	if !ok {
		return []phiLeaf{{v, nil, nil}}
	}
	var out []phiLeaf
	for i, e := range ph.Edges {
		if _, nested := e.(*ssa.Phi); nested {
			// leaves of a nested phi keep the edge on which they enter the inner phi
			out = append(out, phiLeavesWithPred(e)...)
			continue
		}
		out = append(out, phiLeaf{e, ph.Block().Preds[i], ph.Block()})
	}
	return out
}

func blockHasFact(pred, succ *ssa.BasicBlock, m func(fact) bool) bool {
	for _, ft := range append(guardsOfBlock(pred), lastBranchFact(pred, succ)...) {
		if m(ft) {
			return true
		}
	}
	return false
}

// isSuccessReturnOf: return whose result idx (error) is nil (looking through defer spills per block).
func isSuccessReturnOf(in ssa.Instruction, idx int) bool {
	ret, ok := in.(*ssa.Return)
	if !ok || idx >= len(ret.Results) {
		return false
	}
	if ret.Parent().Recover != nil && ret.Block() == ret.Parent().Recover {
		return false
	}
	for _, v := range retValAt(ret, idx) {
		if !isNilConst(v) {
			return false
		}
	}
	return true
}

func retChunkNonNil(in ssa.Instruction) bool {
	ret := in.(*ssa.Return)
	for _, v := range retValAt(ret, 0) {
		if isNilConst(v) {
			return false
		}
	}
	return true
}

// ---------------------------------------------------------------------------------
// C03
// ---------------------------------------------------------------------------------

func runC03(c *Ctx) {
	p := c.P
	if c.Prop == "C03" && c.RulePrefix == "" {
		// "forwarded to exactly the internal address and port that created the mapping" presupposes that an external
		// address has one live owner and that keys agree: the mapping rules are part of this property's statement
		c.RulePrefix = "M."
		runC02(c)
		c.RulePrefix = ""
	}
	r := natAnchors(c)
	if r == nil {
		return
	}
	la := computeLocksets(p)
	E := r.enum
	IN, OUT := r.in, r.out

	var findCall *ssa.Call
	instrsOfU(IN, func(in ssa.Instruction) {
		if cl, ok := in.(*ssa.Call); ok && cl.Call.StaticCallee() == r.findIn {
			findCall = cl
		}
	})
	// R2 filter tables
	o := c.Obl("R2", natT+".filters", "the filtering-behaviour switches are exhaustive and agree: outbound records none / destination IP / destination IP:port, inbound tests none / source IP / source IP:port", 2)
	outPh := findKeyPhis(OUT, "FilteringBehavior")
	inPh := findKeyPhis(IN, "FilteringBehavior")
	if len(outPh) != 1 || len(inPh) != 1 {
		o.Undecide("expected one switch on FilteringBehavior in each translation, found %d/%d", len(outPh), len(inPh))
		return
	}
	r.checkTable(o, outPh[0], "FilteringBehavior", map[int64]string{E["EndpointIndependent"]: "none", E["EndpointAddrDependent"]: "dst.IP", E["EndpointAddrPortDependent"]: "dst.IP:port"})
	r.checkTable(o, inPh[0], "FilteringBehavior", map[int64]string{E["EndpointIndependent"]: "none", E["EndpointAddrDependent"]: "src.IP", E["EndpointAddrPortDependent"]: "src.IP:port"})

	// R1 admission dominates forwarding
	o = c.Obl("R1", fname(IN), "in NAPT mode the destination rewrite and the successful return happen only after a live mapping was found for the destination and the exact permission key was found in its filter set", 1)
	isFilterOK := func(ft fact) bool {
		return boolFact(ft, func(v ssa.Value) bool {
			ex, ok := v.(*ssa.Extract)
			if !ok || ex.Index != 1 {
				return false
			}
			lk, ok := origin(ex.Tuple).(*ssa.Lookup)
			if !ok || !isFieldLoad(lk.X, mapT, mFilt) {
				return false
			}
			fr, _ := asFieldLoad(lk.X)
			return sameOrigin(lk.Index, ssa.Value(inPh[0])) && findCall != nil && sameOrigin(fr.Base, ssa.Value(findCall))
		}, true)
	}
	isMapFound := func(ft fact) bool {
		return nilFact(ft, func(v ssa.Value) bool { return findCall != nil && sameOrigin(v, ssa.Value(findCall)) }, false)
	}
	nRew := 0
	for _, ev := range rewriteEvents(IN, "setDestinationAddr") {
		in := ev.call
		if ev.has(func(ft fact) bool { return r.modeFact(ft, true) }) {
			continue
		}
		nRew++
		o.Site(in.Pos(), "NAPT destination rewrite")
		if !ev.has(isMapFound) {
			o.Fail(in.Pos(), "an inbound datagram is rewritten/forwarded without a live mapping for its destination")
		}
		if !ev.has(isFilterOK) {
			o.Fail(in.Pos(), "an inbound datagram is admitted without the exact-match test of the sender's key in the mapping's permission set (filters[key], comma-ok) for the configured filtering behaviour")
		}
		// R5 owner
		fr, ok := asFieldLoad(ev.arg)
		if !ok || fr.SName != mapT || fr.Field != mLocal || findCall == nil || !sameOrigin(fr.Base, ssa.Value(findCall)) {
			o.Fail(in.Pos(), "the destination is not rewritten to the internal address (.local) of the mapping found for the datagram's destination")
		}
	}
	if nRew != 1 {
		o.Fail(IN.Pos(), "expected one NAPT destination rewrite in translateInbound, found %d", nRew)
	}
	if findCall != nil {
		kp := keyParts(findCall.Call.Args[1], 0)
		okK := false
		for _, k := range kp {
			if k.V != nil && addrClass(k.V) == "dst.IP:port" {
				okK = true
			}
		}
		if !okK {
			o.Fail(findCall.Pos(), "the inbound mapping is not looked up by the datagram's destination address")
		}
	} else {
		o.Fail(IN.Pos(), "translateInbound does not look up the inbound mapping")
	}
	// success returns of IN in NAPT mode are after the rewrite; the returned chunk is the clone that was rewritten
	var clone *ssa.Call
	instrsOfU(IN, func(in ssa.Instruction) {
		if cl, ok := in.(*ssa.Call); ok && cl.Call.IsInvoke() && cl.Call.Method.Name() == "Clone" && sameOrigin(cl.Call.Value, ssa.Value(IN.Params[1])) {
			clone = cl
		}
	})
	for _, in := range findInstrs(IN, func(in ssa.Instruction) bool { return isSuccessReturnOf(in, 1) }) {
		ret := in.(*ssa.Return)
		for _, v := range retValAt(ret, 0) {
			if clone == nil || !sameOrigin(v, ssa.Value(clone)) {
				o.Fail(in.Pos(), "translateInbound returns something else than the clone of the datagram")
			}
		}
		if ok, _ := mustPassU(entryPos(IN), func(x ssa.Instruction) bool { return x == in }, func(x ssa.Instruction) bool { return isSetAddr(x, "setDestinationAddr") }); !ok {
			o.Fail(in.Pos(), "a successful inbound translation is reachable without a destination rewrite")
		}
	}
	for _, in := range findU(IN, func(in ssa.Instruction) bool {
		return isSetAddr(in, "setDestinationAddr") || isSetAddr(in, "setSourceAddr")
	}) {
		if clone == nil || !sameOrigin(in.(*ssa.Call).Call.Value, ssa.Value(clone)) {
			o.Fail(in.Pos(), "the address is rewritten on the original chunk, not on the clone")
		}
	}

	// R3 permission recorded on every outbound success path
	o = c.Obl("R3", fname(OUT), "every successful NAPT outbound translation has the destination's permission key in the mapping's filter set (inserted, or found present), under the key chosen by the filtering behaviour; a new mapping starts with a fresh, empty permission set", 2)
	var outFind *ssa.Call
	instrsOfU(OUT, func(in ssa.Instruction) {
		if cl, ok := in.(*ssa.Call); ok && cl.Call.StaticCallee() == r.findOut {
			outFind = cl
		}
	})
	// the permission set: the filters field of a mapping, or the map made for that field when a mapping is created
	isFilterSet := func(m ssa.Value) bool {
		if isFieldLoad(m, mapT, mFilt) {
			return true
		}
		if mk, ok := origin(m).(*ssa.MakeMap); ok {
			for _, rf := range *mk.Referrers() {
				if st, ok := rf.(*ssa.Store); ok && st.Val == ssa.Value(mk) && isFieldStore(st, mapT, mFilt) {
					return true
				}
			}
		}
		return false
	}
	isPerm := func(in ssa.Instruction) bool {
		mu, ok := in.(*ssa.MapUpdate)
		return ok && isFilterSet(mu.Map) && sameOrigin(mu.Key, ssa.Value(outPh[0]))
	}
	for _, in := range findU(OUT, func(in ssa.Instruction) bool {
		mu, ok := in.(*ssa.MapUpdate)
		return ok && isFilterSet(mu.Map)
	}) {
		mu := in.(*ssa.MapUpdate)
		o.Site(in.Pos(), "filters[%s] = ...", mu.Key.Name())
		if !sameOrigin(mu.Key, ssa.Value(outPh[0])) {
			o.Fail(in.Pos(), "a permission is recorded under %s, not under the key selected by the filtering behaviour: the reply of that remote is refused", addrClass(mu.Key))
		}
	}
	// success returns in NAPT mode: must pass isPerm or the ok edge of a lookup of the same key
	for _, in := range findInstrs(OUT, func(in ssa.Instruction) bool { return isSuccessReturnOf(in, 1) && retChunkNonNil(in) }) {
		// restrict to NAPT: paths through the outbound lookup call
		if outFind == nil {
			o.Fail(OUT.Pos(), "outbound lookup not found")
			break
		}
		re := reachEdges(posAfter(outFind), func(x ssa.Instruction) bool { return isPerm(x) || x == in }, func(from, to *ssa.BasicBlock) bool {
			for _, ft := range lastBranchFact(from, to) {
				if boolFact(ft, func(v ssa.Value) bool {
					ex, ok := v.(*ssa.Extract)
					if !ok || ex.Index != 1 {
						return false
					}
					lk, ok := origin(ex.Tuple).(*ssa.Lookup)
					return ok && isFieldLoad(lk.X, mapT, mFilt) && sameOrigin(lk.Index, ssa.Value(outPh[0]))
				}, true) {
					return true
				}
			}
			return false
		})
		o.Site(in.Pos(), "success return")
		if re[in] {
			o.Fail(in.Pos(), "an outbound datagram can be translated successfully without its destination being recorded in (or found in) the mapping's permission set: the remote's reply would be dropped")
		}
	}
	// fresh permission set
	instrsOfU(OUT, func(in ssa.Instruction) {
		if st, ok := in.(*ssa.Store); ok && isFieldStore(st, mapT, mFilt) {
			if _, isMk := origin(st.Val).(*ssa.MakeMap); !isMk {
				o.Fail(in.Pos(), "a new mapping does not start with a fresh permission set (permissions would leak between mappings)")
			}
		}
	})

	// R4 refusal has no side effect
	o = c.Obl("R4", fname(IN), "the inbound translation writes nothing but the clone it returns: no insert into the mapping tables or a permission set, no store to a mapping or the port counter (only deletes of expired mappings)", 3)
	cg := p.CG()
	fromIn := cg.reachableFrom([]*ssa.Function{IN, r.inEntry}, func(e cgEdge) bool { return pkgOf(e.To) == "vnet" && (e.Kind == "static") })
	var fns []*ssa.Function
	for f := range fromIn {
		fns = append(fns, f)
	}
	sort.Slice(fns, func(i, j int) bool { return fname(fns[i]) < fname(fns[j]) })
	for _, f := range fns {
		o.Site(f.Pos(), "reachable from translateInbound: %s", fname(f))
		instrsOf(f, func(in ssa.Instruction) {
			switch x := in.(type) {
			case *ssa.MapUpdate:
				if isFieldLoad(x.Map, natT, fOut) || isFieldLoad(x.Map, natT, fIn) || isFieldLoad(x.Map, mapT, mFilt) {
					o.Fail(in.Pos(), "%s (reachable from the inbound translation) inserts into a NAT table / permission set: a refused datagram changes later answers", fname(f))
				}
			case *ssa.Store:
				if fr, ok := asFieldAddr(x.Addr); ok && (fr.SName == mapT || (fr.SName == natT)) && !isFreshBase(fr.Base) {
					o.Fail(in.Pos(), "%s (reachable from the inbound translation) writes %s.%s", fname(f), fr.SName, fr.Field)
				}
			}
		})
	}

	// R6 error => router drops
	o = c.Obl("R6", fname(r.routerIn), "the child router pushes the inbound translation's result only when it returned no error, and pushes exactly that result", 1)
	var tcall *ssa.Call
	instrsOfU(r.routerIn, func(in ssa.Instruction) {
		if cl, ok := in.(*ssa.Call); ok && cl.Call.StaticCallee() == r.inEntry {
			tcall = cl
		}
	})
	nPush := 0
	for _, in := range findU(r.routerIn, func(in ssa.Instruction) bool { return isCall(in, "(*vnet.Router).push") }) {
		nPush++
		o.Site(in.Pos(), "push")
		cl := in.(ssa.CallInstruction)
		if _, isGo := in.(*ssa.Go); isGo {
			o.Fail(in.Pos(), "the translated datagram is pushed from a new goroutine: datagrams of one flow can overtake each other")
		}
		ex, ok := origin(cl.Common().Args[1]).(*ssa.Extract)
		okRes := ok && tcall != nil && sameOrigin(ex.Tuple, ssa.Value(tcall)) && ex.Index == 0
		if !okRes && tcall != nil {
			// handed on by a helper that returns the translation's result or nil
			if refs := tcall.Referrers(); refs != nil {
				for _, rf := range *refs {
					if te, isE := rf.(*ssa.Extract); isE && te.Index == 0 && sameOrigin(cl.Common().Args[1], ssa.Value(te)) {
						okRes = true
					}
				}
			}
		}
		if !okRes {
			o.Fail(in.Pos(), "the router does not push the chunk returned by the inbound translation")
		}
		if !hasFact(in, func(ft fact) bool {
			return nilFact(ft, func(v ssa.Value) bool {
				e, ok := v.(*ssa.Extract)
				return ok && tcall != nil && sameOrigin(e.Tuple, ssa.Value(tcall)) && e.Index == 1
			}, true)
		}) {
			o.Fail(in.Pos(), "the router forwards although the inbound translation reported an error (refused datagram delivered)")
		}
	}
	if nPush != 1 {
		o.Fail(r.routerIn.Pos(), "expected one push in Router.onInboundChunk, found %d", nPush)
	}

	// R7 1:1 unpaired -> error
	o = c.Obl("R7", fname(IN), "1:1 mode: a destination without a paired local IP is refused with an error", 1)
	for _, in := range findU(IN, func(in ssa.Instruction) bool {
		cl, ok := in.(*ssa.Call)
		return ok && cl.Call.StaticCallee() == r.pairLocal
	}) {
		o.Site(in.Pos(), "pair lookup")
		nilBlk := (*ssa.BasicBlock)(nil)
		for _, g := range unitOf(IN) {
			for _, b := range g.Blocks {
				for _, ft := range guardsOfBlockNoExpand(b) {
					if nilFact(ft, func(v ssa.Value) bool { return sameOrigin(v, ssa.Value(in.(*ssa.Call))) }, true) && len(b.Preds) == 1 {
						nilBlk = b
					}
				}
			}
		}
		if nilBlk == nil {
			o.Fail(in.Pos(), "the result of the pair lookup is not tested for nil")
			continue
		}
		if ok, bad := mustPassU(blockStart(nilBlk), isReturn, func(x ssa.Instruction) bool {
			ret, ok := x.(*ssa.Return)
			return ok && !isSuccessReturnOf(ret, 1)
		}); !ok {
			_ = bad
		}
		for x := range reachU(blockStart(nilBlk), nil) {
			if isSuccessReturnOf(x, 1) {
				o.Fail(x.Pos(), "an unpaired destination is translated successfully")
			}
		}
	}
	for _, f := range []*ssa.Function{r.outEntry, r.inEntry} {
		ob := c.Obl("R8", fname(f), "lock balance on every path", 1)
		la.lockBalance(ob, f)
	}
}

func allocReturns(f *ssa.Function) []ssa.Instruction {
	if f == nil {
		return nil
	}
	return findInstrs(f, isReturn)
}

// resolveNATFields finds the fields of the NAT and of a mapping by role.
func resolveNATFields(p *Prog, r *natRoles) {
	miss := func(f string, a ...interface{}) { r.problems = append(r.problems, fmt.Sprintf(f, a...)) }
	nn, mn := p.Named("vnet", "networkAddressTranslator"), p.Named("vnet", "mapping")
	if nn == nil || mn == nil {
		miss("types networkAddressTranslator / mapping not found")
		return
	}
	nst, _ := nn.Underlying().(*types.Struct)
	mst, _ := mn.Underlying().(*types.Struct)
	var maps, lists, mstrings []string
	ctr := ""
	for i := 0; i < nst.NumFields(); i++ {
		f := nst.Field(i)
		switch t := f.Type().Underlying().(type) {
		case *types.Map:
			if typeName(t.Elem()) == mapT {
				maps = append(maps, f.Name())
			}
		case *types.Slice:
			if t.Elem().String() == "net.IP" {
				lists = append(lists, f.Name())
			}
		case *types.Basic:
			if t.Kind() == types.Int {
				ctr = f.Name()
			}
		}
	}
	filt, exp := "", ""
	for i := 0; i < mst.NumFields(); i++ {
		f := mst.Field(i)
		switch t := f.Type().Underlying().(type) {
		case *types.Map:
			filt = f.Name()
		case *types.Struct:
			if f.Type().String() == "time.Time" {
				exp = f.Name()
			}
		case *types.Basic:
			if t.Kind() == types.String {
				mstrings = append(mstrings, f.Name())
			}
		}
	}
	if len(maps) != 2 || len(lists) != 2 || ctr == "" || filt == "" || exp == "" || len(mstrings) != 4 {
		miss("NAT / mapping fields not recognised (maps %v, IP lists %v, counter %q, filters %q, expiry %q, strings %v)", maps, lists, ctr, filt, exp, mstrings)
		return
	}
	fCtr, mFilt, mExp = ctr, filt, exp
	// inbound map: the one that a function on the inbound path uses alone (the removal helper touches both)
	inSet := map[string]bool{}
	isMapF := map[string]bool{maps[0]: true, maps[1]: true}
	for _, g := range p.CG().reachableSlice(r.in, "vnet") {
		used := map[string]bool{}
		instrsOf(g, func(in ssa.Instruction) {
			if v, ok := in.(ssa.Value); ok {
				if fr, ok := asFieldLoad(v); ok && fr.SName == natT && isMapF[fr.Field] {
					used[fr.Field] = true
				}
			}
		})
		if len(used) == 1 {
			for k := range used {
				inSet[k] = true
			}
		}
	}
	if len(inSet) != 1 {
		miss("the table of the inbound direction is not identified (functions on the inbound path use %v alone)", inSet)
		return
	}
	fIn, fOut = "", ""
	for _, m := range maps {
		if inSet[m] {
			fIn = m
		} else {
			fOut = m
		}
	}
	// mapped IPs: the list whose element 0 is used for the external address on the outbound path
	mset := map[string]bool{}
	for _, g := range p.CG().reachableSlice(r.out, "vnet") {
		instrsOf(g, func(in ssa.Instruction) {
			if ia, ok := in.(*ssa.IndexAddr); ok {
				if k, ok := constInt(ia.Index); ok && k == 0 {
					if fr, ok := asFieldLoad(ia.X); ok && fr.SName == natT {
						mset[fr.Field] = true
					}
				}
			}
		})
	}
	fMappedIPs, fLocalIPs = "", ""
	for _, l := range lists {
		if mset[l] {
			fMappedIPs = l
		} else {
			fLocalIPs = l
		}
	}
	// mapping strings: mapped = passed to setSourceAddr on the outbound path; local = passed to setDestinationAddr on the inbound path;
	// proto = stored from Network(); bound = the remaining one
	mMapped, mLocal, mProto, mBound = "", "", "", ""
	for _, g := range p.CG().reachableSlice(r.out, "vnet") {
		instrsOf(g, func(in ssa.Instruction) {
			if isInvoke(in, "setSourceAddr") {
				for _, lf := range phiLeaves(origin(in.(*ssa.Call).Call.Args[0])) {
					if fr, ok := asFieldLoad(lf); ok && fr.SName == mapT {
						mMapped = fr.Field
					}
					for _, hv := range helperSuccessValues(lf) {
						if fr, ok := asFieldLoad(hv.v); ok && fr.SName == mapT {
							mMapped = fr.Field
						}
					}
				}
			}
			if st, ok := in.(*ssa.Store); ok {
				if fr, ok := asFieldAddr(st.Addr); ok && fr.SName == mapT {
					if cl, ok := origin(st.Val).(*ssa.Call); ok && cl.Call.IsInvoke() && cl.Call.Method.Name() == "Network" {
						mProto = fr.Field
					}
				}
			}
		})
	}
	for _, g := range p.CG().reachableSlice(r.in, "vnet") {
		instrsOf(g, func(in ssa.Instruction) {
			if isInvoke(in, "setDestinationAddr") {
				for _, lf := range phiLeaves(origin(in.(*ssa.Call).Call.Args[0])) {
					if fr, ok := asFieldLoad(lf); ok && fr.SName == mapT {
						mLocal = fr.Field
					}
					for _, hv := range helperSuccessValues(lf) {
						if fr, ok := asFieldLoad(hv.v); ok && fr.SName == mapT {
							mLocal = fr.Field
						}
					}
				}
			}
		})
	}
	for _, n := range mstrings {
		if n != mMapped && n != mLocal && n != mProto {
			mBound = n
		}
	}
	if fIn == "" || fOut == "" || fMappedIPs == "" || fLocalIPs == "" || mMapped == "" || mLocal == "" || mProto == "" || mBound == "" {
		miss("NAT field roles not resolved (in=%q out=%q mappedIPs=%q localIPs=%q mapped=%q local=%q proto=%q bound=%q)", fIn, fOut, fMappedIPs, fLocalIPs, mMapped, mLocal, mProto, mBound)
	}
}

// bodyOf: when f only forwards to one private helper with its own parameters (a lock
// wrapper around a "...Locked" function), the helper is the body analysed by the rules.
func bodyOf(f *ssa.Function) *ssa.Function {
	if f == nil {
		return nil
	}
	var calls []*ssa.Call
	instrsOf(f, func(in ssa.Instruction) {
		if cl, ok := in.(*ssa.Call); ok {
			if h := cl.Call.StaticCallee(); h != nil && isPrivateHelper(h) && types.Identical(h.Signature.Results(), f.Signature.Results()) {
				calls = append(calls, cl)
			}
		}
	})
	if len(calls) != 1 {
		return f
	}
	cl := calls[0]
	for i, a := range cl.Call.Args {
		if i >= len(f.Params) || !sameOrigin(a, ssa.Value(f.Params[i])) {
			return f
		}
	}
	// every return forwards the helper's results
	for _, ret := range findInstrs(f, isReturn) {
		for k := range ret.(*ssa.Return).Results {
			for _, v := range retValAt(ret.(*ssa.Return), k) {
				ex, ok := v.(*ssa.Extract)
				if !ok || !sameOrigin(ex.Tuple, ssa.Value(cl)) || ex.Index != k {
					return f
				}
			}
		}
	}
	return cl.Call.StaticCallee()
}

// isExpiredTest: now.After(m.expires), or the same comparison written m.expires.Before(now).
func isExpiredTest(cl *ssa.Call, mExp string) bool {
	switch callName(cl) {
	case "(time.Time).After":
		return isFieldLoad(cl.Call.Args[1], mapT, mExp)
	case "(time.Time).Before":
		return isFieldLoad(cl.Call.Args[0], mapT, mExp)
	}
	return false
}

// rewriteEv: one way an address is rewritten: a setter call together with one value its argument can take (the
// argument may be chosen in the mode branches and passed to a single setter call afterwards).
type rewriteEv struct {
	call *ssa.Call
	arg  ssa.Value
	leaf phiLeaf
	ret  *ssa.Return // the return of a private helper that hands this value back (nil: computed in place)
}

// has: the fact holds where the setter is called, or on the edge on which this value was chosen.
func (ev rewriteEv) has(pred func(fact) bool) bool {
	if hasFact(ev.call, pred) {
		return true
	}
	for _, ft := range ev.leaf.edgeFacts() {
		if pred(ft) {
			return true
		}
	}
	if ev.leaf.pred != nil && len(ev.leaf.pred.Instrs) > 0 {
		if hasFact(ev.leaf.pred.Instrs[len(ev.leaf.pred.Instrs)-1], pred) {
			return true
		}
	}
	if ev.ret != nil {
		return hasFact(ev.ret, pred)
	}
	return false
}

func rewriteEvents(f *ssa.Function, setter string) []rewriteEv {
	var out []rewriteEv
	for _, in := range findU(f, func(in ssa.Instruction) bool { return isSetAddr(in, setter) }) {
		call := in.(*ssa.Call)
		a := origin(call.Call.Args[0])
		for _, lf := range phiLeavesWithPred(a) {
			exp := helperSuccessValues(lf.v)
			if len(exp) == 0 {
				out = append(out, rewriteEv{call, lf.v, lf, nil})
				continue
			}
			for _, hv := range exp {
				out = append(out, rewriteEv{call, hv.v, lf, hv.ret})
			}
		}
	}
	return out
}

type helperValue struct {
	v   ssa.Value
	ret *ssa.Return
}

// helperSuccessValues: v is a result of a private helper with several returns (dst, err := n.inboundDestination(from)):
// the values it hands back on the returns that do not report an error, each with its return instruction.
func helperSuccessValues(v ssa.Value) []helperValue { return helperSuccessValuesD(v, 0) }

func helperSuccessValuesD(v ssa.Value, depth int) []helperValue {
	var call *ssa.Call
	idx := 0
	switch x := origin(v).(type) {
	case *ssa.Call:
		call = x
	case *ssa.Extract:
		call, _ = x.Tuple.(*ssa.Call)
		idx = x.Index
	}
	if call == nil {
		return nil
	}
	h := helperCallee(call)
	if h == nil || idx >= h.Signature.Results().Len() {
		return nil
	}
	var out []helperValue
	for _, in := range findInstrs(h, isReturn) {
		ret := in.(*ssa.Return)
		if h.Recover != nil && ret.Block() == h.Recover {
			continue
		}
		if e := errorOperand(ret); e != nil && !isNilConst(e) {
			// "return n.other(x)": both results forwarded from another helper
			if fw := retValAt(ret, idx); len(fw) == 1 && depth < 4 {
				ex, ok1 := fw[0].(*ssa.Extract)
				ee, ok2 := e.(*ssa.Extract)
				if ok1 && ok2 && ex.Tuple == ee.Tuple {
					out = append(out, helperSuccessValuesD(ex, depth+1)...)
				}
			}
			continue
		}
		rv := retValAt(ret, idx)
		if len(rv) != 1 {
			return nil
		}
		for _, lf := range phiLeaves(origin(rv[0])) {
			out = append(out, helperValue{origin(lf), ret})
		}
	}
	return out
}

// isExpiredTestP: isExpiredTest with the operands resolved along a path (the mapping may be a helper's parameter).
func isExpiredTestP(cl *ssa.Call, mExp string, pt *upath, at int) bool {
	if isExpiredTest(cl, mExp) {
		return true
	}
	switch callName(cl) {
	case "(time.Time).After":
		return isFieldLoad(pt.valueAt(cl.Call.Args[1], at), mapT, mExp)
	case "(time.Time).Before":
		return isFieldLoad(pt.valueAt(cl.Call.Args[0], at), mapT, mExp)
	}
	return false
}
