package main

// packetio.Buffer: role discovery shared by C06 (integrity), C07 (limits/occupancy)
// and C08 (wake-ups).

import (
	"fmt"
	"go/token"
	"go/types"

	"golang.org/x/tools/go/ssa"
)

type bufRoles struct {
	T                                                            string
	Write, Read, Close, Count, Size, SetLimitCount, SetLimitSize *ssa.Function
	New, sizeFn, growFn, availFn, SetReadDeadline                *ssa.Function
	mutex, data, head, tail, notify, closed, count               string
	limitCount, limitSize, readDeadline                          string
	problems                                                     []string
}

func (r *bufRoles) isLoad(v ssa.Value, field string) bool {
	return field != "" && isFieldLoad(v, r.T, field)
}

func resolveBufRoles(p *Prog) *bufRoles {
	r := &bufRoles{T: "packetio.Buffer"}
	miss := func(s string, a ...interface{}) { r.problems = append(r.problems, fmt.Sprintf(s, a...)) }
	named := p.Named("packetio", "Buffer")
	if named == nil {
		miss("type packetio.Buffer not found")
		return r
	}
	st, _ := named.Underlying().(*types.Struct)
	if st == nil {
		miss("packetio.Buffer is not a struct")
		return r
	}
	get := func(n string) *ssa.Function {
		f := p.Func("packetio", "Buffer", n)
		if f == nil {
			miss("method (*packetio.Buffer).%s not found", n)
		}
		return f
	}
	r.Write, r.Read, r.Close = get("Write"), get("Read"), get("Close")
	r.Count, r.Size = get("Count"), get("Size")
	r.SetLimitCount, r.SetLimitSize = get("SetLimitCount"), get("SetLimitSize")
	r.SetReadDeadline = get("SetReadDeadline")
	r.New = p.Func("packetio", "", "NewBuffer")
	if r.New == nil {
		miss("packetio.NewBuffer not found")
	}
	if len(r.problems) > 0 {
		return r
	}
	var ints []string
	flattenFields = true
	for _, f := range flatStructFields(st, "", 0) {
		switch t := f.Type.(type) {
		case *types.Named:
			if isMutexType(t) {
				r.mutex = f.Name
			}
			// a named channel type (a small local type with methods around the wake-up channel)
			if ch, ok := t.Underlying().(*types.Chan); ok {
				if s, ok := ch.Elem().Underlying().(*types.Struct); ok && s.NumFields() == 0 {
					r.notify = f.Name
				}
			}
		case *types.Slice:
			if isByteSlice(t) {
				r.data = f.Name
			}
		case *types.Chan:
			if s, ok := t.Elem().Underlying().(*types.Struct); ok && s.NumFields() == 0 {
				r.notify = f.Name
			}
		case *types.Basic:
			if t.Kind() == types.Bool {
				r.closed = f.Name
			}
			if t.Kind() == types.Int {
				ints = append(ints, f.Name)
			}
		case *types.Pointer:
			if typeName(t) == "deadline.Deadline" {
				r.readDeadline = f.Name
			}
		}
	}
	// count: the int field Count() returns
	for _, v := range returnedValues(r.Count, 0) {
		if fr, ok := asFieldLoad(v); ok && fr.SName == r.T {
			r.count = fr.Field
		}
		// through a private helper with several results (count and size under one lock)
		if ex, ok := v.(*ssa.Extract); ok {
			if call, ok := ex.Tuple.(*ssa.Call); ok {
				if h := helperCallee(call); h != nil {
					for _, hv := range returnedValues(h, ex.Index) {
						if fr, ok := asFieldLoad(hv); ok && fr.SName == r.T {
							r.count = fr.Field
						}
					}
				}
			}
		}
	}
	storedIn := func(f *ssa.Function) map[string]bool {
		m := map[string]bool{}
		for _, in := range findU(f, func(in ssa.Instruction) bool { _, ok := in.(*ssa.Store); return ok }) {
			if fr, ok := asFieldAddr(in.(*ssa.Store).Addr); ok && fr.SName == r.T {
				m[fr.Field] = true
			}
		}
		// a shared setter helper that stores through a pointer to the field: the field whose address this
		// function passes
		instrsOf(f, func(in ssa.Instruction) {
			call, ok := in.(*ssa.Call)
			if !ok {
				return
			}
			h := helperCallee(call)
			if h == nil {
				return
			}
			for i, a := range call.Call.Args {
				fr, ok := asFieldAddr(a)
				if !ok || fr.SName != r.T || i >= len(h.Params) {
					continue
				}
				instrsOf(h, func(x ssa.Instruction) {
					if st, ok := x.(*ssa.Store); ok && st.Addr == ssa.Value(h.Params[i]) {
						m[fr.Field] = true
					}
				})
			}
		})
		return m
	}
	for f := range storedIn(r.SetLimitCount) {
		r.limitCount = f
	}
	for f := range storedIn(r.SetLimitSize) {
		r.limitSize = f
	}
	// helpers: the occupancy helper is the one Size() returns; head/tail are its operands (tail - head)
	for _, in := range findU(r.Size, func(in ssa.Instruction) bool { _, ok := in.(*ssa.Call); return ok }) {
		if sc := in.(*ssa.Call).Call.StaticCallee(); sc != nil && inModule(sc) && pkgOf(sc) == "packetio" && sc.Signature.Results().Len() == 1 {
			r.sizeFn = sc
		}
	}
	if r.sizeFn != nil {
		instrsOf(r.sizeFn, func(in ssa.Instruction) {
			if b, ok := in.(*ssa.BinOp); ok && b.Op == token.SUB {
				fx, okx := asFieldLoad(b.X)
				fy, oky := asFieldLoad(b.Y)
				if okx && oky && fx.SName == r.T && fy.SName == r.T && r.tail == "" {
					r.tail, r.head = fx.Field, fy.Field
				}
			}
		})
	}
	_ = ints
	// growth / free-space helpers: called from Write's unit, returning error / bool
	for _, in := range findU(r.Write, func(in ssa.Instruction) bool { _, ok := in.(*ssa.Call); return ok }) {
		sc := in.(*ssa.Call).Call.StaticCallee()
		if sc == nil || !inModule(sc) || pkgOf(sc) != "packetio" || sc == r.sizeFn || sc.Signature.Recv() == nil {
			continue
		}
		res := sc.Signature.Results()
		if res.Len() == 1 {
			if b, ok := res.At(0).Type().Underlying().(*types.Basic); ok && b.Kind() == types.Bool && sc.Signature.Params().Len() == 1 {
				r.availFn = sc
			} else if res.At(0).Type().String() == "error" && sc.Signature.Params().Len() == 0 {
				r.growFn = sc
			}
		}
	}
	for name, v := range map[string]string{"mutex": r.mutex, "data": r.data, "notify": r.notify, "closed": r.closed, "count": r.count,
		"limitCount": r.limitCount, "limitSize": r.limitSize, "head": r.head, "tail": r.tail, "readDeadline": r.readDeadline} {
		if v == "" {
			miss("role %q of packetio.Buffer could not be resolved", name)
		}
	}
	if r.sizeFn == nil {
		miss("occupancy helper called by Size() not found")
	}
	return r
}

func (r *bufRoles) recv(f *ssa.Function) string { return f.Params[0].Name() }

// isElemStore: in writes bytes into the ring: store through an IndexAddr of data, or copy(dst) with dst derived from data.
func (r *bufRoles) isRingWrite(in ssa.Instruction) bool {
	switch x := in.(type) {
	case *ssa.Store:
		if ia, ok := x.Addr.(*ssa.IndexAddr); ok {
			return derivesFrom(ia.X, func(v ssa.Value) bool { return r.isLoad(v, r.data) }, false)
		}
	case *ssa.Call:
		if b, ok := x.Call.Value.(*ssa.Builtin); ok && b.Name() == "copy" {
			return derivesFrom(x.Call.Args[0], func(v ssa.Value) bool { return r.isLoad(v, r.data) }, false)
		}
	}
	return false
}

func (r *bufRoles) isStoreTo(in ssa.Instruction, field string) bool {
	return isFieldStore(in, r.T, field)
}

// incDec: store field = load(field) + k  -> k (ok)
func (r *bufRoles) fieldDelta(in ssa.Instruction, field string) (int64, bool) {
	st, ok := in.(*ssa.Store)
	if !ok || !r.isStoreTo(in, field) {
		return 0, false
	}
	b, ok := origin(st.Val).(*ssa.BinOp)
	if !ok {
		return 0, false
	}
	k, isC := constInt(b.Y)
	if !isC || !r.isLoad(b.X, field) {
		return 0, false
	}
	switch b.Op {
	case token.ADD:
		return k, true
	case token.SUB:
		return -k, true
	}
	return 0, false
}

func errorOperand(ret *ssa.Return) ssa.Value {
	if len(ret.Results) == 0 {
		return nil
	}
	last := ret.Results[len(ret.Results)-1]
	if last.Type().String() == "error" {
		// functions with defers return through result cells: resolve to the value stored in this return's block
		if vs := retValAt(ret, len(ret.Results)-1); len(vs) == 1 {
			return vs[0]
		}
		return last
	}
	return nil
}

func isSuccessReturn(in ssa.Instruction) bool {
	ret, ok := in.(*ssa.Return)
	if !ok {
		return false
	}
	e := errorOperand(ret)
	return e != nil && isNilConst(e)
}

func isErrorReturn(in ssa.Instruction) bool {
	ret, ok := in.(*ssa.Return)
	if !ok {
		return false
	}
	e := errorOperand(ret)
	return e != nil && !isNilConst(e)
}

// returnsGlobalErr: return whose error operand is the value of package variable pkg.name.
func returnsGlobalErr(in ssa.Instruction, pkgPath, name string) bool {
	ret, ok := in.(*ssa.Return)
	if !ok {
		return false
	}
	e := errorOperand(ret)
	if e == nil {
		return false
	}
	u, ok := e.(*ssa.UnOp)
	if !ok || u.Op != token.MUL {
		return false
	}
	g, ok := u.X.(*ssa.Global)
	return ok && g.Name() == name && (g.Pkg.Pkg.Path() == pkgPath || shortPkg(g.Pkg.Pkg.Path()) == pkgPath)
}

func (r *bufRoles) isLockCall(in ssa.Instruction, op string) bool {
	c, ok := in.(*ssa.Call)
	if !ok {
		return false
	}
	o, _ := lockOp(c)
	if o != op {
		return false
	}
	fr, ok := asFieldAddr(c.Call.Args[0])
	return ok && fr.SName == r.T && fr.Field == r.mutex
}

// ---------------------------------------------------------------------------------
// C08 — wake-ups
// ---------------------------------------------------------------------------------

func runC08(c *Ctx) {
	p := c.P
	setUnitExclude()
	r := resolveBufRoles(p)
	setUnitExclude(r.growFn, r.availFn, r.sizeFn)
	if len(r.problems) > 0 {
		o := c.Obl("R0", "packetio.Buffer", "anchors of the packet buffer are resolved", 1)
		for _, pr := range r.problems {
			o.Undecide("%s", pr)
		}
		return
	}
	la := computeLocksets(p)
	notifyRole := "field " + r.T + "." + r.notify
	doneRole := "done " + r.T + "." + r.readDeadline
	isNotifySend := func(in ssa.Instruction) bool { return isNonBlockingSendOn(in, notifyRole) }

	// R1: writer posts the token on every success path, after storing, under the lock
	o := c.Obl("R1", fname(r.Write), "every success path of Write posts the wake-up token (non-blocking send) after the packet is stored and before the lock is released", 1)
	sends := rootEvents(p, r.Write, isNotifySend)
	if len(sends) == 0 {
		sends = findU(r.Write, isNotifySend)
	}
	for _, s := range sends {
		o.Site(s.Pos(), "non-blocking send on %s held=%s", r.notify, la.heldAt(s))
	}
	nSucc := 0
	for _, ret := range findInstrs(r.Write, isSuccessReturn) {
		nSucc++
		o.Site(ret.Pos(), "success return")
	}
	if nSucc == 0 {
		o.Undecide("no success return found in Write")
	}
	if ok, bad := mustPassU(entryPos(r.Write), isSuccessReturn, mustDo(p, isNotifySend)); !ok {
		o.Fail(bad.Pos(), "a success return of Write is reachable without posting the wake-up token on %s", r.notify)
	}
	countInc := findU(r.Write, func(in ssa.Instruction) bool { d, ok := r.fieldDelta(in, r.count); return ok && d == 1 })
	for _, s := range sends {
		if !la.holdsOwner(s, r.T, true) {
			o.Fail(s.Pos(), "the token is posted without holding %s (a reader could test, miss the packet and park after the token was consumed)", r.mutex)
		}
		dom := false
		for _, ci := range countInc {
			if domU(ci, s) {
				dom = true
			}
		}
		if !dom && len(countInc) > 0 {
			// every feasible path from the entry to the send has accounted the packet (the send may sit behind
			// "if err == nil" on the result of the helper that stores the packet)
			isInc := func(in ssa.Instruction) bool { d, ok := r.fieldDelta(in, r.count); return ok && d == 1 }
			dom, _ = mustPassU(entryPos(r.Write), func(in ssa.Instruction) bool { return in == s }, isInc)
		}
		if !dom {
			o.Fail(s.Pos(), "the token is posted before the packet is accounted (count++ does not dominate the send)")
		}
	}

	// R2: capacity >= 1
	o = c.Obl("R2", r.T+"."+r.notify, "the wake-up channel is created with constant capacity >= 1 (with 0 a token posted between a reader's test and its wait is lost)", 1)
	for _, mk := range chanMakesForField(p, r.T, r.notify) {
		o.Site(mk.Pos, "store of make(chan, %d) in %s", mk.Cap, fname(mk.Fn))
		if !mk.Const || mk.Cap < 1 {
			o.Fail(mk.Pos, "wake-up channel %s is created with capacity %d (const=%v); must be a constant >= 1", r.notify, mk.Cap, mk.Const)
		}
	}

	// locate the selects of Read
	var preSel, waitSel *ssa.Select
	for _, cm := range commsOfU(r.Read) {
		if cm.Sel == nil {
			continue
		}
		if cm.Dir == types.RecvOnly && chanRole(cm.Chan) == notifyRole {
			waitSel = cm.Sel
		}
	}
	readPaths, readPathsOK := enumIterPathsU(r.Read, 50000)
	for _, cm := range commsOfU(r.Read) {
		if cm.Sel != nil && cm.Sel != waitSel && cm.Dir == types.RecvOnly && chanRole(cm.Chan) == doneRole && !cm.Sel.Blocking {
			preSel = cm.Sel
		}
	}
	// emptiness test: If comparing head and tail
	isEmptyTest := func(in ssa.Instruction) bool {
		iff, ok := in.(*ssa.If)
		if !ok {
			return false
		}
		cm, ok := normCmp(iff.Cond, true)
		if !ok || (cm.Op != token.EQL && cm.Op != token.NEQ) {
			return false
		}
		return (r.isLoad(cm.X, r.head) && r.isLoad(cm.Y, r.tail)) || (r.isLoad(cm.X, r.tail) && r.isLoad(cm.Y, r.head))
	}
	emptyFact := func(f fact, empty bool) bool {
		cm, ok := normCmp(f.Cond, f.Val)
		if !ok {
			return false
		}
		if !((r.isLoad(cm.X, r.head) && r.isLoad(cm.Y, r.tail)) || (r.isLoad(cm.X, r.tail) && r.isLoad(cm.Y, r.head))) {
			return false
		}
		if empty {
			return cm.Op == token.EQL
		}
		return cm.Op == token.NEQ
	}
	closedFact := func(f fact, want bool) bool {
		return boolFact(f, func(v ssa.Value) bool { return r.isLoad(v, r.closed) }, want)
	}

	// R3: after a wake-up the reader re-tests under the lock
	o = c.Obl("R3", fname(r.Read), "after receiving the wake-up token every path to a return re-acquires the lock and re-tests for data (no return on a mere wake-up)", 1)
	if waitSel == nil {
		o.Undecide("blocking select receiving from %s not found in Read", r.notify)
	} else {
		found := false
		goodTest := func(in ssa.Instruction) bool { return isEmptyTest(in) && la.holdsOwner(in, r.T, true) }
		// scan: the first re-test or return after position i of a path (0 = re-test, 1 = return, 2 = neither)
		scan := func(pth *upath, i int) (int, ssa.Instruction) {
			for _, in := range pth.Instrs[i:] {
				if goodTest(in) {
					return 0, in
				}
				if _, ok := in.(*ssa.Return); ok && in.Parent() == r.Read {
					return 1, in
				}
			}
			return 2, nil
		}
		if !readPathsOK {
			o.Undecide("the paths of Read could not be enumerated")
		}
		for pi := range readPaths {
			pth := &readPaths[pi]
			for i, in := range pth.Instrs {
				sel, ok := in.(*ssa.Select)
				if !ok {
					continue
				}
				k := selCaseOnPath(pth, sel)
				if k < 0 || k >= len(sel.States) || sel.States[k].Dir != types.RecvOnly || chanRole(sel.States[k].Chan) != notifyRole {
					continue
				}
				if !found {
					o.Site(sel.Pos(), "wake-up case #%d of the blocking select", k)
				}
				found = true
				res, at := scan(pth, i+1)
				if res == 1 {
					o.Fail(at.Pos(), "after a wake-up Read can return without re-testing head/tail under the lock")
				}
				if res == 2 && pth.Loop {
					// the path goes round the loop: every continuation from the loop head must re-test before returning
					for qi := range readPaths {
						q := &readPaths[qi]
						if j := q.indexOf(pth.LoopTo.Instrs[0]); j >= 0 {
							if res2, at2 := scan(q, j); res2 == 1 {
								o.Fail(at2.Pos(), "after a wake-up Read can return without re-testing head/tail under the lock")
							}
						}
					}
				}
			}
		}
		if !found && !o.Failed {
			o.Undecide("wake-up receive case not found")
		}
	}

	// R4: EOF only through empty then closed
	o = c.Obl("R4", fname(r.Read), "end-of-file is reported only when the buffer is empty and closed (emptiness tested first): remaining packets stay readable after Close", 1)
	eofs := findU(r.Read, func(in ssa.Instruction) bool { return returnsGlobalErr(in, "io", "EOF") })
	for _, e := range eofs {
		o.Site(e.Pos(), "return io.EOF")
		if !hasFact(e, func(f fact) bool { return emptyFact(f, true) }) {
			o.Fail(e.Pos(), "io.EOF is returned on a path where the buffer was not found empty (head == tail not established)")
		}
		if !hasFact(e, func(f fact) bool { return closedFact(f, true) }) {
			o.Fail(e.Pos(), "io.EOF is returned on a path where closed was not found true")
		}
	}
	// every return of a packet is on the non-empty edge; the closed test must not precede data delivery:
	for _, in := range findU(r.Read, func(in ssa.Instruction) bool { _, ok := r.fieldDelta(in, r.count); return ok }) {
		if hasFact(in, func(f fact) bool { return closedFact(f, false) }) {
			o.Fail(in.Pos(), "packets are delivered only while the buffer is not closed: data buffered at Close would be lost")
		}
	}

	// R5: close exactly once, under the lock, flag set in the same critical section; sends are ordered with it
	o = c.Obl("R5", fname(r.Close), "close(notify) happens once: under the mutex, on the !closed edge, with closed=true in the same critical section; every send on it is under the mutex on the !closed edge", 1)
	var closes []ssa.Instruction
	for _, f := range p.Funcs {
		if isPrivateHelper(f) && !unitExclude[f] {
			continue // analysed as part of the functions that call it
		}
		if pkgOf(f) != "packetio" {
			continue
		}
		for _, in := range findU(f, func(in ssa.Instruction) bool {
			if !isCall(in, "builtin.close") {
				return false
			}
			return chanRole(in.(ssa.CallInstruction).Common().Args[0]) == notifyRole
		}) {
			closes = append(closes, in)
		}
	}
	for _, cl := range closes {
		f := cl.Parent()
		o.Site(cl.Pos(), "close(%s) in %s held=%s", r.notify, fname(f), la.heldAt(cl))
		if !la.holdsOwner(cl, r.T, true) {
			o.Fail(cl.Pos(), "close(%s) is not under the mutex", r.notify)
		}
		if !hasFact(cl, func(ft fact) bool { return closedFact(ft, false) }) {
			o.Fail(cl.Pos(), "close(%s) is not guarded by the !closed test: a second Close would panic", r.notify)
		}
		// closed = true in the same critical section: a store of true to closed, dominated by the test, with no unlock between
		set := false
		for _, st := range findU(f, func(in ssa.Instruction) bool { return r.isStoreTo(in, r.closed) }) {
			if la.holdsOwner(st, r.T, true) && sameCritical(r, st, cl) {
				set = true
			}
		}
		if !set {
			o.Fail(cl.Pos(), "closed is not set to true in the critical section that closes %s", r.notify)
		}
	}
	if len(closes) != 1 {
		o.Fail(r.Close.Pos(), "expected exactly one close(%s) site in the package, found %d", r.notify, len(closes))
	}
	for _, f := range []*ssa.Function{r.Write, r.Read} {
		evs := rootEvents(p, f, isNotifySend)
		if len(evs) == 0 {
			evs = findU(f, isNotifySend)
		}
		for _, s := range evs {
			o.Site(s.Pos(), "send on %s in %s", r.notify, fname(f))
			if !la.holdsOwner(s, r.T, true) {
				o.Fail(s.Pos(), "send on %s outside the mutex can race with close(%s) (send on closed channel panics)", r.notify, r.notify)
			}
			if !hasFact(s, func(ft fact) bool { return closedFact(ft, false) }) {
				o.Fail(s.Pos(), "send on %s is not on the !closed edge (send on closed channel panics)", r.notify)
				continue
			}
			// the lock must be held continuously between the closed test and the send
			for _, ft := range guards(s) {
				if closedFact(ft, false) {
					if unlockBetween(r, ft.If, s) {
						o.Fail(s.Pos(), "the mutex is released between the !closed test and the send on %s", r.notify)
					}
				}
			}
		}
	}
	// any other send (blocking or not) on notify anywhere in the package is forbidden
	for _, f := range p.Funcs {
		if pkgOf(f) != "packetio" {
			continue
		}
		for _, cm := range commsOf(f) {
			if cm.Dir == types.SendOnly && chanRole(cm.Chan) == notifyRole {
				if cm.Sel == nil || cm.Sel.Blocking {
					o.Fail(cm.Instr.Pos(), "blocking send on %s in %s (a writer would block while holding the lock)", r.notify, fname(f))
				}
			}
		}
	}

	// R6: baton pass
	o = c.Obl("R6", fname(r.Read), "a reader that takes a packet passes the token on unless the buffer is now empty or closed (two writes leave one token for two parked readers)", 1)
	decs := findU(r.Read, func(in ssa.Instruction) bool { d, ok := r.fieldDelta(in, r.count); return ok && d == -1 })
	if len(decs) == 0 {
		o.Undecide("count-- not found in Read")
	}
	// path by path (one loop iteration, helpers inlined): on a path that takes a packet (count--), between the
	// emptiness test that found data and the unlock that follows, the token is re-posted, unless the path has
	// found the buffer closed, or empty again after the head was advanced
	if !readPathsOK {
		o.Undecide("the paths of Read could not be enumerated")
	}
	isUnlock := func(in ssa.Instruction) bool { return r.isLockCall(in, "unlock") }
	isDecIn := func(in ssa.Instruction) bool { d, ok := r.fieldDelta(in, r.count); return ok && d == -1 }
	reportedU := map[ssa.Instruction]bool{}
	nTake := 0
	for pi := range readPaths {
		pth := &readPaths[pi]
		hasDec := false
		for _, in := range pth.Instrs {
			if isDecIn(in) {
				hasDec = true
			}
		}
		if !hasDec {
			continue
		}
		nTake++
		// walk the path
		ci := 0
		started, headAdvanced, excused, posted := false, false, false, false
		var unlock ssa.Instruction
		for _, in := range pth.Instrs {
			if iff, ok := in.(*ssa.If); ok {
				var ft fact
				if ci < len(pth.Conds) {
					ft = pth.Conds[ci]
				}
				ci++
				if ft.If != iff {
					continue
				}
				if !started {
					if emptyFact(ft, false) {
						started = true // data present
					} else if cm, ok := normCmp(ft.Cond, ft.Val); ok && cm.Op == token.NEQ {
						if (r.isLoad(origin(cm.X), r.head) && r.isLoad(origin(cm.Y), r.tail)) || (r.isLoad(origin(cm.X), r.tail) && r.isLoad(origin(cm.Y), r.head)) {
							started = true
						}
					}
					continue
				}
				if closedFact(ft, true) {
					excused = true
				}
				if emptyFact(ft, true) && headAdvanced {
					excused = true
				}
				// the advanced head held in a local (stored back later) and compared with the tail
				if cm, ok := normCmp(ft.Cond, ft.Val); ok && cm.Op == token.EQL {
					for _, pr := range [][2]ssa.Value{{cm.X, cm.Y}, {cm.Y, cm.X}} {
						if r.isLoad(origin(pr[0]), r.tail) && !r.isLoad(origin(pr[1]), r.head) &&
							computedFrom(pr[1], func(v ssa.Value) bool { return r.isLoad(v, r.head) }) {
							excused = true
						}
					}
				}
				continue
			}
			if !started {
				continue
			}
			if r.isStoreTo(in, r.head) {
				headAdvanced = true
			}
			if isNotifySend(in) {
				posted = true
			}
			if isUnlock(in) {
				unlock = in
				break
			}
		}
		if unlock != nil && !posted && !excused && !reportedU[unlock] {
			reportedU[unlock] = true
			o.Site(unlock.Pos(), "unlock reached")
			o.Fail(unlock.Pos(), "Read can take a packet and release the lock without re-posting the wake-up token although more packets may be buffered: a second parked reader stays asleep with a packet buffered")
		}
	}
	if nTake == 0 && len(decs) > 0 {
		o.Undecide("no path of Read takes a packet")
	}
	for _, s := range findU(r.Read, isNotifySend) {
		o.Site(s.Pos(), "baton send")
	}

	// who may move the buffer's read deadline
	deadlineSettersRule(c, "R9w", "packetio")

	// R7: deadline tests
	o = c.Obl("R7", fname(r.Read), "Read tests the read deadline without blocking before touching the buffer, and waits on it together with the wake-up channel; both lead to a timeout error", 2)
	if preSel == nil {
		o.Fail(r.Read.Pos(), "no non-blocking test of %s.Done() found in Read", r.readDeadline)
	} else {
		o.Site(preSel.Pos(), "non-blocking test of Done()")
		failed := map[ssa.Instruction]bool{}
		for pi := range readPaths {
			pth := &readPaths[pi]
			tested := false
			var doneAt ssa.Instruction
			for _, in := range pth.Instrs {
				if sel, ok := in.(*ssa.Select); ok {
					k := selCaseOnPath(pth, sel)
					for i, st := range sel.States {
						if st.Dir == types.RecvOnly && chanRole(st.Chan) == doneRole {
							if !sel.Blocking {
								tested = true
							}
							if i == k {
								doneAt = in
							}
						}
					}
				}
				if r.isLockCall(in, "lock") && !tested && !failed[in] {
					failed[in] = true
					o.Fail(in.Pos(), "the buffer is locked on a path that has not tested the deadline first")
				}
			}
			if doneAt == nil || failed[doneAt] {
				continue
			}
			ret, isRet := pth.last().(*ssa.Return)
			okErr := false
			if isRet {
				if e := errorOperand(ret); e != nil && !isNilConst(pth.value(e)) {
					okErr = true
				}
			}
			if !okErr {
				failed[doneAt] = true
				o.Fail(doneAt.Pos(), "the expired-deadline branch does not return an error")
			}
		}
	}
	// every blocking wait on the wake-up channel - not just the last select found - has the deadline as an
	// alternative: a reader parked on the token alone is not released by a deadline set (or passing) afterwards
	for _, cm := range commsOfU(r.Read) {
		if cm.Dir != types.RecvOnly || chanRole(cm.Chan) != notifyRole {
			continue
		}
		if cm.Sel == nil {
			o.Fail(cm.Instr.Pos(), "Read blocks on the wake-up channel alone (a receive outside a select): neither a read deadline that passes nor one set while the reader is parked releases it")
			continue
		}
		if cm.Sel == waitSel || !cm.Sel.Blocking {
			continue
		}
		alt := false
		for _, st := range cm.Sel.States {
			if st.Dir == types.RecvOnly && chanRole(st.Chan) == doneRole {
				alt = true
			}
		}
		if !alt {
			o.Fail(cm.Sel.Pos(), "a blocking wait on the wake-up channel has no case for the read deadline")
		}
	}
	if waitSel != nil {
		hasDone := false
		for i, st := range waitSel.States {
			if st.Dir == types.RecvOnly && chanRole(st.Chan) == doneRole {
				hasDone = true
				o.Site(waitSel.Pos(), "blocking select has a Done() case (#%d)", i)
			}
		}
		if !hasDone {
			o.Fail(waitSel.Pos(), "the blocking wait has no case for the read deadline: a blocked Read is never released by its deadline")
		}
		if !waitSel.Blocking {
			o.Fail(waitSel.Pos(), "the wait on the wake-up channel is non-blocking (busy loop)")
		}
		if la.holdsOwner(waitSel, r.T, false) {
			o.Fail(waitSel.Pos(), "Read waits while holding the mutex: writers can never post")
		}
	}

	// R8: lock balance
	for _, f := range []*ssa.Function{r.Read, r.Write, r.Close} {
		ob := c.Obl("R8", fname(f), "lock balance on every path", 1)
		la.lockBalance(ob, f)
	}
	// the read deadline Read waits on is a deadline.Deadline: its signalling discipline (C09 rules) is part of
	// "waits until the read deadline passes / keeps failing until the deadline is changed"
	deadlineRules(c, "D")
}

// lastCaseBlock: for a blocking select the last case is the else-branch of the test of
// the second-to-last index.
func lastCaseBlock(sel *ssa.Select) *ssa.BasicBlock {
	n := len(sel.States)
	if n < 2 {
		return nil
	}
	var idx ssa.Value
	for _, r := range *sel.Referrers() {
		if e, ok := r.(*ssa.Extract); ok && e.Index == 0 {
			idx = e
		}
	}
	if idx == nil {
		return nil
	}
	for _, r := range *idx.Referrers() {
		b, ok := r.(*ssa.BinOp)
		if !ok || b.Op != token.EQL {
			continue
		}
		if k, ok := constInt(b.Y); ok && int(k) == n-2 {
			for _, rr := range *b.Referrers() {
				if iff, ok := rr.(*ssa.If); ok {
					return iff.Block().Succs[1]
				}
			}
		}
	}
	return nil
}

// sameCritical: no unlock of the buffer mutex on any path between a and b (either order).
func sameCritical(r *bufRoles, a, b ssa.Instruction) bool {
	first, second := a, b
	if domU(b, a) {
		first, second = b, a
	}
	return !unlockBetween(r, first, second)
}

// unlockBetween: some path from a to b passes an unlock of the buffer mutex.
func unlockBetween(r *bufRoles, a, b ssa.Instruction) bool {
	re := reachU(posAfter(a), func(in ssa.Instruction) bool { return in == b })
	for in := range re {
		if r.isLockCall(in, "unlock") && canReach(posAfter(in), b, nil) {
			return true
		}
	}
	return false
}

// reachEdges is reachU with an additional edge filter: edges for which stopEdge returns
// true are not traversed.
func reachEdges(start ipos, stop func(ssa.Instruction) bool, stopEdge func(from, to *ssa.BasicBlock) bool) map[ssa.Instruction]bool {
	out := map[ssa.Instruction]bool{}
	seen := map[string]bool{}
	var walk func(p ipos, stack []ssa.Instruction)
	walk = func(p ipos, stack []ssa.Instruction) {
		if p.i == 0 {
			k := fmt.Sprintf("%p|%s", p.b, stackKey(stack))
			if seen[k] {
				return
			}
			seen[k] = true
		}
		for i := p.i; i < len(p.b.Instrs); i++ {
			in := p.b.Instrs[i]
			if _, isRet := in.(*ssa.Return); isRet && len(stack) > 0 {
				top := stack[len(stack)-1]
				walk(posAfter(top), stack[:len(stack)-1])
				return
			}
			out[in] = true
			if stop != nil && stop(in) {
				return
			}
			if h := helperCallee(in); h != nil && len(stack) < unitDepth && !onStack(stack, h) {
				walk(entryPos(h), append(append([]ssa.Instruction{}, stack...), in))
				return
			}
		}
		for _, s := range p.b.Succs {
			if stopEdge != nil && stopEdge(p.b, s) {
				continue
			}
			walk(ipos{s, 0}, stack)
		}
	}
	walk(start, nil)
	return out
}

// computedFrom: v is an integer computed (through arithmetic, conversions and phis) from a value satisfying src.
func computedFrom(v ssa.Value, src func(ssa.Value) bool) bool {
	seen := map[ssa.Value]bool{}
	var rec func(v ssa.Value, d int) bool
	rec = func(v ssa.Value, d int) bool {
		if v == nil || seen[v] || d > 40 {
			return false
		}
		seen[v] = true
		if src(v) {
			return true
		}
		if o := origin(v); o != v {
			return rec(o, d+1)
		}
		switch x := v.(type) {
		case *ssa.Phi:
			for _, e := range x.Edges {
				if rec(e, d+1) {
					return true
				}
			}
		case *ssa.BinOp:
			return rec(x.X, d+1) || rec(x.Y, d+1)
		case *ssa.Convert:
			return rec(x.X, d+1)
		case *ssa.ChangeType:
			return rec(x.X, d+1)
		}
		return false
	}
	return rec(v, 0)
}
