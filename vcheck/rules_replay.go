package main

// replaydetector: C04 (never accept twice) and C05 (exact sliding-window rule; purity of Check).

import (
	"fmt"
	"go/token"
	"go/types"
	"sort"
	"strings"

	"golang.org/x/tools/go/ssa"
)

// symWalker evaluates integer expressions along one unit path with store-to-load
// forwarding for local cells and struct fields (keyed by access path; helper parameters
// are resolved to the caller's arguments).
type symWalker struct {
	mem  map[string]linForm
	memo map[ssa.Value]linForm
	path *upath
	cur  int // index (in path.Instrs) of the instruction being evaluated: selects the helper frame for parameters
}

// argOf resolves a helper parameter to the argument of the call whose body is being evaluated.
func (w *symWalker) argOf(p *ssa.Parameter) (ssa.Value, bool) {
	if len(w.path.Frames) > 0 {
		if a := w.path.valueAt(p, w.cur); a != ssa.Value(p) {
			return a, true
		}
	}
	a, ok := w.path.Arg[p]
	return a, ok
}

func newSymWalker(path *upath) *symWalker {
	return &symWalker{mem: map[string]linForm{}, memo: map[ssa.Value]linForm{}, path: path}
}

func isIntegerType(t types.Type) bool {
	b, ok := t.Underlying().(*types.Basic)
	return ok && b.Info()&(types.IsInteger|types.IsBoolean) != 0
}

// apath is accessPath with helper parameters replaced by the caller's arguments.
func (w *symWalker) apath(v ssa.Value) string {
	switch x := v.(type) {
	case *ssa.Parameter:
		if a, ok := w.argOf(x); ok {
			return w.apath(a)
		}
		return x.Name()
	case *ssa.FieldAddr:
		st := structOf(x.X.Type())
		if st == nil {
			return w.apath(x.X) + ".?"
		}
		if flattenFields && st.Field(x.Field).Embedded() && canonInner(st.Field(x.Field).Type()) {
			return w.apath(x.X)
		}
		return w.apath(x.X) + "." + st.Field(x.Field).Name()
	case *ssa.Field:
		st := structOf(x.X.Type())
		if st == nil {
			return w.apath(x.X) + ".?"
		}
		if flattenFields && st.Field(x.Field).Embedded() && canonInner(st.Field(x.Field).Type()) {
			return w.apath(x.X)
		}
		return w.apath(x.X) + "." + st.Field(x.Field).Name()
	case *ssa.UnOp:
		if x.Op == token.MUL {
			return w.apath(x.X)
		}
	case *ssa.MakeInterface:
		return w.apath(x.X)
	case *ssa.ChangeType:
		return w.apath(x.X)
	}
	return accessPath(v)
}

func (w *symWalker) lin(v ssa.Value) linForm {
	return linOfX(v, w.sym, func(ph *ssa.Phi) ssa.Value { return w.path.phiAt(ph, w.cur) }, func(x ssa.Value) (linForm, bool) {
		if f, ok := w.memo[x]; ok {
			return f, true
		}
		if p, ok := x.(*ssa.Parameter); ok {
			if a, ok := w.argOf(p); ok {
				return w.lin(a), true
			}
		}
		return linForm{}, false
	})
}

func (w *symWalker) sym(v ssa.Value) (string, bool) {
	switch x := v.(type) {
	case *ssa.UnOp:
		if x.Op == token.MUL {
			switch x.X.(type) {
			case *ssa.Alloc, *ssa.FreeVar, *ssa.FieldAddr:
				return w.apath(x.X), true
			}
		}
	case *ssa.Call:
		if b, ok := x.Call.Value.(*ssa.Builtin); ok && (b.Name() == "len" || b.Name() == "cap") {
			return b.Name() + "(" + w.apath(x.Call.Args[0]) + ")", true
		}
		if sc := x.Call.StaticCallee(); sc != nil {
			var as []string
			for _, a := range x.Call.Args {
				if isIntegerType(a.Type()) {
					as = append(as, w.lin(a).String())
				} else {
					as = append(as, w.apath(a))
				}
			}
			return sc.Name() + "(" + strings.Join(as, ",") + ")", true
		}
	}
	return defaultSym(v)
}

func (w *symWalker) step(in ssa.Instruction) {
	switch x := in.(type) {
	case *ssa.Store:
		if isIntegerType(x.Val.Type()) {
			w.mem[w.apath(x.Addr)] = w.lin(x.Val)
		}
	case *ssa.UnOp:
		if x.Op == token.MUL && isIntegerType(x.Type()) {
			if f, ok := w.mem[w.apath(x.X)]; ok {
				w.memo[x] = f
			} else {
				w.memo[x] = linSym(w.apath(x.X))
			}
		}
	case *ssa.Extract:
		if rs, ok := w.path.RetAll[x.Tuple]; ok && x.Index < len(rs) && isIntegerType(x.Type()) {
			w.memo[x] = w.lin(rs[x.Index])
		}
	}
}

// after a helper returned on the path, its call instruction denotes the returned value
func (w *symWalker) bindReturn(call ssa.Value) {
	if r, ok := w.path.Ret[call]; ok && isIntegerType(call.Type()) {
		w.memo[call] = w.lin(r)
	}
}

// pathFacts: the literals established by the branches of a unit path.
type pathFacts struct {
	lits   []lit
	conds  []fact
	w      *symWalker
	instrs []ssa.Instruction
	path   *upath
}

func evalPath(path upath) *pathFacts {
	pp := &path
	w := newSymWalker(pp)
	pf := &pathFacts{w: w, path: pp}
	ci := 0
	var stack []ssa.Value
	for idx, in := range path.Instrs {
		w.cur = idx
		w.step(in)
		pf.instrs = append(pf.instrs, in)
		if h := helperCallee(in); h != nil && idx+1 < len(path.Instrs) && path.Instrs[idx+1].Parent() == h {
			stack = append(stack, in.(*ssa.Call))
		}
		if _, isRet := in.(*ssa.Return); isRet && len(stack) > 0 && idx+1 < len(path.Instrs) {
			call := stack[len(stack)-1]
			stack = stack[:len(stack)-1]
			w.bindReturn(call)
		}
		if _, ok := in.(*ssa.If); ok && ci < len(path.Conds) {
			c := path.Conds[ci]
			ci++
			cond := pp.resolve(c.Cond)
			cm, ok := normCmp(cond, c.Val)
			if !ok {
				pf.conds = append(pf.conds, fact{Cond: cond, Val: c.Val, If: c.If})
				continue
			}
			x, y := w.lin(cm.X), w.lin(cm.Y)
			var a atom
			pol := true
			switch cm.Op {
			case token.LSS:
				a = atom{Form: y.add(x, -1)}
			case token.LEQ:
				a = atom{Form: y.add(x, -1).add(linConst(1), 1)}
			case token.EQL:
				a = atom{Form: canonSign(x.add(y, -1)), Eq: true}
			case token.NEQ:
				a = atom{Form: canonSign(x.add(y, -1)), Eq: true}
				pol = false
			}
			pf.lits = append(pf.lits, lit{a, pol})
			pf.conds = append(pf.conds, fact{Cond: cond, Val: c.Val, If: c.If})
		}
	}
	return pf
}

func (pf *pathFacts) hasIneq(f linForm) bool { return hasIneq(pf.lits, f) }
func (pf *pathFacts) hasEq(f linForm, pol bool) bool {
	f = canonSign(f)
	for _, l := range pf.lits {
		if l.A.Eq && l.Pol == pol && l.A.Form.eq(f) {
			return true
		}
	}
	return false
}
func (pf *pathFacts) litStr() string {
	var s []string
	for _, l := range pf.lits {
		p := ""
		if !l.Pol {
			p = "NOT "
		}
		s = append(s, p+"["+l.A.String()+"]")
	}
	return strings.Join(s, " & ")
}

// boolCond: the path took the given polarity on a boolean condition matching m.
func (pf *pathFacts) boolCond(m func(ssa.Value) bool, want bool) bool {
	for _, c := range pf.conds {
		if boolFact(c, m, want) {
			return true
		}
	}
	return false
}

type rdRoles struct {
	T                string // detector type
	check, accept    *ssa.Function
	ctor             *ssa.Function
	wrapped          bool
	bit, setBit, lsh *ssa.Function
	// field roles (resolved by type and by what the constructor stores, not by name)
	latest, max, window, mask, init string
	diff                            string // name of the folded-distance variable shared by Check and accept (wrapping detector)
}

// resolveDetFields finds the fields of a detector struct by role.
func resolveDetFields(p *Prog, tn string, d *rdRoles) []string {
	var probs []string
	flattenPrefer = "replaydetector." + tn
	defer func() { flattenPrefer = "" }()
	named := p.Named("replaydetector", tn)
	if named == nil {
		return []string{"type " + tn + " not found"}
	}
	st, _ := named.Underlying().(*types.Struct)
	if st == nil {
		return []string{tn + " is not a struct"}
	}
	// constructor: the exported function that allocates the type
	var ctor *ssa.Function
	for _, f := range p.Funcs {
		if pkgOf(f) != "replaydetector" || f.Parent() != nil || f.Signature.Recv() != nil {
			continue
		}
		instrsOf(f, func(in ssa.Instruction) {
			if a, ok := in.(*ssa.Alloc); ok && typeName(a.Type()) == "replaydetector."+tn {
				ctor = f
			}
		})
	}
	var u64 []string
	for _, f := range flatStructFields(st, "", 0) {
		switch t := f.Type.Underlying().(type) {
		case *types.Basic:
			switch {
			case t.Kind() == types.Bool:
				d.init = f.Name
			case t.Kind() == types.Uint64:
				u64 = append(u64, f.Name)
			case t.Kind() == types.Uint:
				d.window = f.Name
			}
		case *types.Pointer:
			if typeName(f.Type) == "replaydetector.fixedBigInt" {
				d.mask = f.Name
			}
		}
	}
	d.ctor = ctor
	if ctor != nil {
		instrsOfU(ctor, func(in ssa.Instruction) {
			if s, ok := in.(*ssa.Store); ok {
				if fr, ok := asFieldAddr(s.Addr); ok && fr.SName == "replaydetector."+tn {
					if prm, ok := s.Val.(*ssa.Parameter); ok {
						if b, ok := prm.Type().Underlying().(*types.Basic); ok && b.Kind() == types.Uint64 {
							d.max = fr.Field
						}
					}
				}
			}
		})
	}
	for _, n := range u64 {
		if n != d.max {
			d.latest = n
		}
	}
	for k, v := range map[string]string{"newest accepted number": d.latest, "maximum": d.max, "window size": d.window, "mask": d.mask} {
		if v == "" {
			probs = append(probs, "field for the "+k+" of "+tn+" not resolved")
		}
	}
	return probs
}

func unsignedCmp(c fact) (bool, bool) {
	cond := c.Cond
	for {
		u, ok := cond.(*ssa.UnOp)
		if ok && u.Op == token.NOT {
			cond = u.X
			continue
		}
		break
	}
	b, ok := cond.(*ssa.BinOp)
	if !ok {
		return false, false
	}
	bt, ok := b.X.Type().Underlying().(*types.Basic)
	if !ok {
		return false, false
	}
	return bt.Info()&types.IsUnsigned != 0, true
}

func replayRules(c *Ctx, which string) {
	p := c.P
	flattenFields = true
	defer func() { flattenFields, flattenPrefer = false, "" }()
	bitF := p.Func("replaydetector", "fixedBigInt", "Bit")
	setF := p.Func("replaydetector", "fixedBigInt", "SetBit")
	lshF := p.Func("replaydetector", "fixedBigInt", "Lsh")
	newBig := p.Func("replaydetector", "", "newFixedBigInt")
	if bitF == nil || setF == nil || lshF == nil || newBig == nil {
		c.Obl("R0", "replaydetector.fixedBigInt", "anchors of the bit mask are resolved", 1).Undecide("fixedBigInt.Bit/SetBit/Lsh/newFixedBigInt not found")
		return
	}
	var dets []rdRoles
	for _, tn := range []string{"slidingWindowDetector", "wrappedSlidingWindowDetector"} {
		ck := p.Func("replaydetector", tn, "Check")
		if ck == nil || len(ck.AnonFuncs) != 1 {
			c.Obl("R0", "replaydetector."+tn, "anchors of the detector are resolved", 1).Undecide("%s.Check with exactly one accept closure not found", tn)
			return
		}
		dr := rdRoles{T: "replaydetector." + tn, check: ck, accept: ck.AnonFuncs[0], wrapped: strings.HasPrefix(tn, "wrapped"), bit: bitF, setBit: setF, lsh: lshF}
		if probs := resolveDetFields(p, tn, &dr); len(probs) > 0 {
			o := c.Obl("R0", "replaydetector."+tn, "anchors of the detector are resolved", 1)
			for _, pr := range probs {
				o.Undecide("%s", pr)
			}
			return
		}
		if dr.wrapped {
			for _, fv := range dr.accept.FreeVars {
				if pt, ok := fv.Type().(*types.Pointer); ok {
					if b, ok := pt.Elem().Underlying().(*types.Basic); ok && b.Kind() == types.Int64 {
						dr.diff = fv.Name()
					}
				}
			}
			if dr.diff == "" || dr.init == "" {
				c.Obl("R0", "replaydetector."+tn, "anchors of the detector are resolved", 1).Undecide("folded distance variable / init flag of the wrapping detector not resolved")
				return
			}
		}
		dets = append(dets, dr)
	}

	for _, d := range dets {
		flattenPrefer = d.T
		D := "d" // receiver name
		if len(d.check.Params) > 0 {
			D = d.check.Params[0].Name()
		}
		seq := linSym(d.check.Params[1].Name())
		L, M, W := linSym(D+"."+d.latest), linSym(D+"."+d.max), linSym(D+"."+d.window)

		if d.ctor != nil {
			// the constructor keeps what it is given: the window size stored and the width of the mask are the window
			// parameter itself, the maximum is the maximum parameter (a size adjusted "because a wider one cannot be
			// used" changes which numbers at the window's edge are accepted)
			o := c.Obl("R9", fname(d.ctor), "the constructor stores the window size and the maximum it is given, unchanged, and creates the mask with that window size", 2)
			isParam := func(v ssa.Value) bool {
				prm, ok := strip(origin(strip(v))).(*ssa.Parameter)
				return ok && prm.Parent() == d.ctor
			}
			instrsOfU(d.ctor, func(in ssa.Instruction) {
				switch x := in.(type) {
				case *ssa.Store:
					fr, ok := asFieldAddr(x.Addr)
					if !ok || fr.SName != d.T || (fr.Field != d.window && fr.Field != d.max) {
						return
					}
					o.Site(in.Pos(), "%s := %s", fr.Field, x.Val.Name())
					if !isParam(x.Val) {
						o.Fail(in.Pos(), "the constructor stores a %s that is not the value it was given (adjusted, clamped or computed)", fr.Field)
					}
				case *ssa.Call:
					if sc := x.Call.StaticCallee(); sc != nil && sc.Name() == "newFixedBigInt" && len(x.Call.Args) == 1 {
						o.Site(in.Pos(), "mask of width %s", x.Call.Args[0].Name())
						if !isParam(x.Call.Args[0]) {
							o.Fail(in.Pos(), "the mask is not created with the window size the constructor was given")
						}
					}
				}
			})
		}
		if which == "C05" || which == "C04" {
			// C05.R1 purity of Check
			o := c.Obl("R1p", fname(d.check), "Check (outside the accept closure) writes no field of the detector: a check whose callback is never invoked has no effect on any later answer", 1)
			o.Site(d.check.Pos(), "%s", fname(d.check))
			for _, in := range findU(d.check, func(ssa.Instruction) bool { return true }) {
				if st, ok := in.(*ssa.Store); ok {
					if fr, ok := asFieldAddr(st.Addr); ok && !isFreshBase(fr.Base) {
						o.Fail(in.Pos(), "Check writes %s.%s before the accept callback is invoked: a number that is checked but never accepted changes later answers", fr.SName, fr.Field)
					}
				}
				if cl, ok := in.(*ssa.Call); ok {
					if sc := cl.Call.StaticCallee(); sc == d.setBit || sc == d.lsh {
						o.Fail(in.Pos(), "Check modifies the bit mask")
					}
				}
			}
		}

		// paths of Check
		paths, ok := enumPathsU(d.check, 600)
		oc := c.Obl("R2", fname(d.check), "every accepting path of Check has established: seq <= max; and either the number is newer than the newest accepted one, or it is fewer than window-size positions behind (unsigned / folded distance) and the bit at exactly that distance is clear; every refusing path refuses for one of these reasons", 4)
		if !ok {
			oc.Undecide("Check has a loop or too many paths")
			continue
		}
		for _, pt := range paths {
			ret, _ := pt.Instrs[len(pt.Instrs)-1].(*ssa.Return)
			if ret == nil {
				continue
			}
			pf := evalPath(pt)
			accepts := isConstBool(retValAt(ret, 1)[0], true)
			oc.Site(ret.Pos(), "ok=%v under %s", accepts, pf.litStr())
			// signedness of comparisons in the plain detector
			if !d.wrapped {
				for _, cnd := range pf.conds {
					if u, isCmp := unsignedCmp(cnd); isCmp && !u {
						if cm, ok := normCmp(cnd.Cond, true); ok && (cm.Op == token.LSS || cm.Op == token.LEQ) {
							oc.Fail(ret.Pos(), "the plain detector compares sequence distances as signed integers: distances of 2^63 or more change sign (an old number is accepted again / a fresh one refused)")
						}
					}
				}
			}
			// Bit() tested on this path and its verdict
			var bitArg linForm
			bitTested, bitClear := false, false
			for _, in := range pf.instrs {
				if cl, ok := in.(*ssa.Call); ok && cl.Call.StaticCallee() == d.bit {
					for _, cnd := range pf.conds {
						cm, ok := normCmp(cnd.Cond, cnd.Val)
						if ok && (sameOrigin(cm.X, ssa.Value(cl)) || sameOrigin(cm.Y, ssa.Value(cl))) {
							bitTested = true
							bitArg = pf.w.lin(cl.Call.Args[1])
							k1, _ := constInt(cm.X)
							k2, _ := constInt(cm.Y)
							bitClear = cm.Op == token.EQL && k1 == 0 && k2 == 0
						}
					}
				}
			}
			leMax := pf.hasIneq(M.add(seq, -1).add(linConst(1), 1)) // seq <= max
			if accepts && !leMax {
				oc.Fail(ret.Pos(), "a number is accepted on a path that has not established seq <= maxSeq")
			}
			if !d.wrapped {
				newer := pf.hasIneq(seq.add(L, -1))           // seq > latest
				inWin := pf.hasIneq(W.add(seq, 1).add(L, -1)) // latest < window+seq
				dist := L.add(seq, -1)
				if accepts && !newer {
					if !inWin {
						oc.Fail(ret.Pos(), "a not-newer number is accepted without the too-old test latestSeq < windowSize+seq")
					}
					if !bitTested || !bitClear || !bitArg.eq(dist) {
						oc.Fail(ret.Pos(), "a not-newer number is accepted without finding the bit at distance latestSeq-seq clear (tested: %v at %s)", bitTested, bitArg)
					}
				}
				if !accepts {
					reason := pf.hasIneq(seq.add(M, -1)) || // seq > max
						pf.hasIneq(L.add(W, -1).add(seq, -1).add(linConst(1), 1)) || // latest >= window+seq
						(bitTested && !bitClear && bitArg.eq(dist))
					if !reason {
						oc.Fail(ret.Pos(), "a number is refused on a path with none of the three legitimate reasons (above max, too old, duplicate): under %s", pf.litStr())
					}
				}
				continue
			}
			// wrapped detector: reconstruct the expected distance on this path
			var diffCell linForm
			for k, v := range pf.w.mem {
				if k == d.diff {
					diffCell = v
				}
			}
			if !diffCell.OK && leMax {
				oc.Fail(ret.Pos(), "cannot find the folded distance on this path")
				continue
			}
			if !leMax {
				if !accepts && pf.hasIneq(seq.add(M, -1)) {
					continue
				}
			}
			// latest' by initialisation branch
			var lat linForm
			initT := pf.boolCond(func(v ssa.Value) bool { return isFieldLoad(v, d.T, d.init) }, true)
			initF := pf.boolCond(func(v ssa.Value) bool { return isFieldLoad(v, d.T, d.init) }, false)
			switch {
			case initT:
				lat = L
			case initF && pf.hasEq(seq, false): // seq != 0
				lat = seq.add(linConst(-1), 1)
			case initF && pf.hasEq(seq, true):
				lat = M
			default:
				oc.Fail(ret.Pos(), "the window position used on this path is not determined by init / seq == 0")
				continue
			}
			d0 := lat.add(seq, -1)
			H := linSym("(" + M.String() + " / +2)")
			span := M.add(linConst(1), 1)
			var want linForm
			switch {
			case pf.hasIneq(d0.add(H, -1)): // d0 > H
				want = d0.add(span, -1)
			case pf.hasIneq(H.scale(-1).add(d0, -1).add(linConst(1), 1)): // d0 <= -H
				if !pf.hasIneq(H.add(d0, -1).add(linConst(1), 1)) { // and not d0 > H
					oc.Fail(ret.Pos(), "the backward fold is taken without first excluding the forward fold")
				}
				want = d0.add(span, 1)
			case pf.hasIneq(H.add(d0, -1).add(linConst(1), 1)) && pf.hasIneq(d0.add(H, 1)): // -H < d0 <= H
				want = d0
			default:
				oc.Fail(ret.Pos(), "the distance is not folded into (-max/2, max/2] by the two comparisons d > max/2 and d <= -max/2 (boundary moved?): %s", pf.litStr())
				continue
			}
			if !diffCell.eq(want) {
				oc.Fail(ret.Pos(), "folded distance on this path is %s, expected %s", diffCell, want)
				continue
			}
			tooOld := pf.hasIneq(diffCell.add(W, -1).add(linConst(1), 1)) // diff >= W
			inWin := pf.hasIneq(W.add(diffCell, -1))                      // diff < W
			nonNeg := pf.hasIneq(diffCell.add(linConst(1), 1))            // diff >= 0
			neg := pf.hasIneq(diffCell.scale(-1))                         // diff < 0
			if accepts {
				if !inWin {
					oc.Fail(ret.Pos(), "a number is accepted without the too-old test diff < windowSize")
				}
				if !neg {
					if !nonNeg || !bitTested || !bitClear || !bitArg.eq(diffCell) {
						oc.Fail(ret.Pos(), "a not-newer number is accepted without finding the bit at the folded distance clear")
					}
				}
			} else {
				reason := tooOld || (nonNeg && bitTested && !bitClear && bitArg.eq(diffCell))
				if !reason {
					oc.Fail(ret.Pos(), "a number is refused with none of the legitimate reasons: %s", pf.litStr())
				}
			}
		}

		// accept closure
		oa := c.Obl("R1", fname(d.accept), "every path of the accept callback records the accepted number: SetBit at the very distance Check tested (0 after moving the head), the head moves exactly when the number is newer, by exactly the distance; the result is true when the head moved", 2)
		apaths, ok := enumPathsU(d.accept, 200)
		if !ok {
			oa.Undecide("accept closure has a loop")
			continue
		}
		plainInitialTrue := false
		for _, pt := range apaths {
			ret, _ := pt.Instrs[len(pt.Instrs)-1].(*ssa.Return)
			if ret == nil {
				continue
			}
			// evaluate with forwarding; record events in order
			ptc := pt
			w := newSymWalker(&ptc)
			var setArgs, lshArgs []linForm
			var latStore []linForm
			lshBeforeStore := true
			var stack []ssa.Value
			for idx, in := range pt.Instrs {
				if cl, ok := in.(*ssa.Call); ok {
					switch cl.Call.StaticCallee() {
					case d.setBit:
						setArgs = append(setArgs, w.lin(cl.Call.Args[1]))
					case d.lsh:
						lshArgs = append(lshArgs, w.lin(cl.Call.Args[1]))
						if len(latStore) > 0 && !d.wrapped {
							lshBeforeStore = false
						}
					}
				}
				if st, ok := in.(*ssa.Store); ok && isFieldStore(st, d.T, d.latest) {
					// the initialisation store of the wrapping detector is not a head move
					if d.wrapped && pathInitStore(d, st) {
						w.step(in)
						continue
					}
					latStore = append(latStore, w.lin(st.Val))
				}
				w.step(in)
				if h := helperCallee(in); h != nil && idx+1 < len(pt.Instrs) && pt.Instrs[idx+1].Parent() == h {
					stack = append(stack, in.(*ssa.Call))
				}
				if _, isRet := in.(*ssa.Return); isRet && len(stack) > 0 && idx+1 < len(pt.Instrs) {
					w.bindReturn(stack[len(stack)-1])
					stack = stack[:len(stack)-1]
				}
			}
			pf := evalPath(pt)
			oa.Site(ret.Pos(), "SetBit%v Lsh%v head<-%v under %s", setArgs, lshArgs, latStore, pf.litStr())
			if len(setArgs) != 1 {
				oa.Fail(ret.Pos(), "the accept callback calls SetBit %d times on this path: an accepted number is not recorded and can be accepted again", len(setArgs))
				continue
			}
			moved := len(latStore) > 0
			if !d.wrapped {
				newer := pf.hasIneq(seq.add(L, -1))
				if moved != newer {
					oa.Fail(ret.Pos(), "the head moves although the number is not newer (or does not move although it is)")
				}
				if moved {
					if len(lshArgs) != 1 || !lshArgs[0].eq(seq.add(L, -1)) || !lshBeforeStore {
						oa.Fail(ret.Pos(), "the mask is not shifted by exactly seq-latestSeq before the head moves to seq")
					}
					if !latStore[0].eq(seq) {
						oa.Fail(ret.Pos(), "the head is not set to the accepted number")
					}
					if !setArgs[0].eq(linConst(0)) {
						oa.Fail(ret.Pos(), "after moving the head the bit set is %s, not bit 0", setArgs[0])
					}
					for _, v := range retValAt(ret, 0) {
						if !pathBoolIs(&ptc, v, true) {
							oa.Fail(ret.Pos(), "accept does not report 'latest' although it moved the head")
						}
					}
				} else {
					// the result may be true only in the initial position (nothing accepted yet, number 0): there the number
					// becomes the newest accepted one without a head move
					for _, v := range retValAt(ret, 0) {
						rv := ptc.value(v)
						okRes := isConstBool(rv, false)
						if b, isB := rv.(*ssa.BinOp); isB && b.Op == token.EQL {
							f := canonSign(w.lin(b.X).add(w.lin(b.Y), -1))
							switch {
							case f.eq(canonSign(L)), f.eq(canonSign(L.add(seq, -1))):
								okRes = true // latest == 0 (with seq <= latest) / seq == latest with its bit clear: only the initial position
							case f.eq(canonSign(seq)) && (pf.hasEq(L, true) || pf.hasEq(L.add(seq, -1), true)):
								okRes = true
							}
						}
						if !isConstBool(rv, false) {
							plainInitialTrue = true
						}
						if !okRes {
							oa.Fail(ret.Pos(), "accept can report 'latest' for a number that is not newer than the newest accepted one (a late number 0 inside the window): the result is %s on a path where the head does not move", rv.String())
						}
					}
					if len(lshArgs) != 0 {
						oa.Fail(ret.Pos(), "the mask is shifted although the head does not move")
					}
					if !setArgs[0].eq(L.add(seq, -1)) {
						oa.Fail(ret.Pos(), "the bit set (%s) is not the bit Check tested (latestSeq-seq): the accepted number is recorded elsewhere (or nowhere) and its replay is accepted", setArgs[0])
					}
				}
			} else {
				diff := linSym(d.diff)
				neg := pf.hasIneq(diff.scale(-1))
				if moved != neg {
					oa.Fail(ret.Pos(), "the head moves although the folded distance is not negative (or does not move although it is)")
				}
				if moved {
					if len(lshArgs) != 1 || !lshArgs[0].eq(diff.scale(-1)) {
						oa.Fail(ret.Pos(), "the mask is not shifted by exactly -diff when the head moves")
					}
					if !latStore[0].eq(seq) {
						oa.Fail(ret.Pos(), "the head is not set to the accepted number")
					}
					if !setArgs[0].eq(linConst(0)) {
						oa.Fail(ret.Pos(), "after moving the head the bit set is %s, not bit 0", setArgs[0])
					}
					for _, v := range retValAt(ret, 0) {
						if !pathBoolIs(&ptc, v, true) {
							oa.Fail(ret.Pos(), "accept does not report 'latest' although it moved the head")
						}
					}
				} else {
					if len(lshArgs) != 0 {
						oa.Fail(ret.Pos(), "the mask is shifted although the head does not move")
					}
					if !setArgs[0].eq(diff) {
						oa.Fail(ret.Pos(), "the bit set (%s) is not the folded distance Check tested: once the head has wrapped past 0 the accepted number is not recorded and its replay is accepted", setArgs[0])
					}
					for _, v := range retValAt(ret, 0) {
						if !pathBoolIs(&ptc, v, false) {
							oa.Fail(ret.Pos(), "accept reports 'latest' although it did not move the head")
						}
					}
				}
			}
		}
		if !d.wrapped && !plainInitialTrue && !oa.Failed {
			oa.Fail(d.accept.Pos(), "accept never reports 'latest' without moving the head: the first accepted number 0 (which becomes the newest accepted one in the initial position) is reported as not latest")
		}

		// R8 no ordering comparison on a sign-changed or narrowed 64-bit quantity; the shift count stays unsigned
		{
			o8 := c.Obl("R8", d.T, "sequence numbers, the maximum and the head are compared as the unsigned 64-bit values they are (no operand of <, <=, >, >= is a conversion of such a value to a signed or narrower type), and the shift routine takes an unsigned count that reaches it without passing through a signed type (distances of 2^63 and more are legitimate)", 1)
			lossy := func(v ssa.Value) (string, bool) {
				cv, ok := v.(*ssa.Convert)
				if !ok {
					return "", false
				}
				from, ok1 := cv.X.Type().Underlying().(*types.Basic)
				to, ok2 := cv.Type().Underlying().(*types.Basic)
				if !ok1 || !ok2 || from.Info()&types.IsInteger == 0 || to.Info()&types.IsInteger == 0 {
					return "", false
				}
				size := func(b *types.Basic) int64 { return types.SizesFor("gc", "amd64").Sizeof(b) }
				if from.Info()&types.IsUnsigned != 0 && size(from) == 8 && (to.Info()&types.IsUnsigned == 0 || size(to) < 8) {
					if _, isC := cv.X.(*ssa.Const); isC {
						return "", false
					}
					// only the quantities that range over the whole sequence space: the number itself, the
					// maximum, the head (the window size is small)
					src := origin(cv.X)
					isSeq := len(d.check.Params) > 1 && sameOrigin(src, ssa.Value(d.check.Params[1]))
					if fr, okf := asFieldLoad(src); okf && (fr.Field == d.latest || fr.Field == d.max) {
						isSeq = true
					}
					if !isSeq {
						return "", false
					}
					return fmt.Sprintf("%s(%s)", to.Name(), from.Name()), true
				}
				return "", false
			}
			nCmp := 0
			for _, fn := range []*ssa.Function{d.check, d.accept} {
				if fn == nil {
					continue
				}
				instrsOfU(fn, func(in ssa.Instruction) {
					b, ok := in.(*ssa.BinOp)
					if !ok {
						return
					}
					switch b.Op {
					case token.LSS, token.LEQ, token.GTR, token.GEQ:
					default:
						return
					}
					nCmp++
					for _, opnd := range []ssa.Value{b.X, b.Y} {
						if what, bad := lossy(opnd); bad {
							o8.Fail(in.Pos(), "%s compares %s: a 64-bit unsigned quantity is ordered after a conversion that changes its value for 2^63 and above (or truncates it)", fname(fn), what)
						}
					}
				})
			}
			o8.Site(d.check.Pos(), "%d ordering comparisons in %s and its callback", nCmp, fname(d.check))
			if d.lsh != nil {
				if d.lsh.Signature.Params().Len() != 1 {
					o8.Undecide("the shift routine does not take exactly one count")
				} else if bt, ok := d.lsh.Signature.Params().At(0).Type().Underlying().(*types.Basic); !ok || bt.Info()&types.IsUnsigned == 0 {
					o8.Fail(d.lsh.Pos(), "the shift routine takes a signed count: a jump of 2^63 or more becomes negative")
				}
				if !d.wrapped && d.accept != nil {
					instrsOfU(d.accept, func(in ssa.Instruction) {
						cl, ok := in.(*ssa.Call)
						if !ok || cl.Call.StaticCallee() != d.lsh {
							return
						}
						v := cl.Call.Args[len(cl.Call.Args)-1]
						for k := 0; k < 6; k++ {
							cv, ok := v.(*ssa.Convert)
							if !ok {
								break
							}
							if to, ok := cv.Type().Underlying().(*types.Basic); ok && to.Info()&types.IsUnsigned == 0 {
								o8.Fail(in.Pos(), "the shift count passes through the signed type %s on its way to the shift routine", to.Name())
							}
							v = cv.X
						}
					})
				}
			}
		}

		// R6 no wrap-around of the unsigned arithmetic (plain detector: numbers up to 2^64-1)
		if !d.wrapped {
			o6 := c.Obl("R6", d.T, "the plain detector's unsigned 64-bit arithmetic cannot wrap around: every subtraction x-y is evaluated on a path that has established y <= x, and no two variable quantities are added (sequence numbers range up to 2^64-1)", 2)
			seen := map[ssa.Instruction]bool{}
			for _, set := range [][]upath{paths, apaths} {
				for pi := range set {
					pt := set[pi]
					pf := evalPath(pt)
					geq := func(x, y linForm) bool {
						dd := x.add(y, -1)
						if dd.OK && len(dd.Coef) == 0 && dd.K >= 0 {
							return true // the operands are the same quantity (up to a non-negative constant) on this path
						}
						return pf.hasIneq(dd.add(linConst(1), 1)) || pf.hasIneq(dd) || pf.hasEq(dd, true)
					}
					for _, in := range pt.Instrs {
						b, ok := in.(*ssa.BinOp)
						if !ok || (b.Op != token.ADD && b.Op != token.SUB) {
							continue
						}
						bt, ok := b.Type().Underlying().(*types.Basic)
						if !ok || bt.Info()&types.IsUnsigned == 0 {
							continue
						}
						if !seen[in] {
							o6.Site(in.Pos(), "%s in %s", b.String(), fname(b.Parent()))
						}
						_, cx := constInt(b.X)
						_, cy := constInt(b.Y)
						switch {
						case b.Op == token.ADD && !cx && !cy:
							if !seen[in] {
								o6.Fail(in.Pos(), "%s adds two variable unsigned quantities: for sequence numbers within the window size of 2^64 the sum wraps around and the comparison that uses it gives the wrong answer (a fresh number inside the window is refused)", b.String())
							}
						case b.Op == token.SUB && !(cx && cy):
							// the result matters only on paths that go on to use it; a path that has established y <= x is fine
							used := false
							for _, rf := range *b.Referrers() {
								if ri, ok := rf.(ssa.Instruction); ok && pt.indexOf(ri) >= 0 {
									used = true
								}
							}
							if used && !geq(pf.w.lin(b.X), pf.w.lin(b.Y)) && !seen[in] {
								o6.Fail(in.Pos(), "%s is evaluated and used on a path that has not established that the subtrahend is not larger (under %s): the unsigned difference wraps around", b.String(), pf.litStr())
							}
						}
						seen[in] = true
					}
				}
			}
		}
	}

	// mask: bounds and truncation width (fields of fixedBigInt by type)
	bigBits, bigN, bigMsb := "", "", ""
	if bn := p.Named("replaydetector", "fixedBigInt"); bn != nil {
		if st, ok := bn.Underlying().(*types.Struct); ok {
			for i := 0; i < st.NumFields(); i++ {
				f := st.Field(i)
				switch t := f.Type().Underlying().(type) {
				case *types.Slice:
					bigBits = f.Name()
				case *types.Basic:
					if t.Kind() == types.Uint {
						bigN = f.Name()
					}
					if t.Kind() == types.Uint64 {
						bigMsb = f.Name()
					}
				}
			}
		}
	}
	if bigBits == "" || bigN == "" {
		c.Obl("R0", "replaydetector.fixedBigInt", "anchors of the bit mask are resolved", 1).Undecide("word array / width field of fixedBigInt not resolved")
		return
	}
	ob := c.Obl("R5", "replaydetector.fixedBigInt", "Bit and SetBit ignore positions >= n (guard dominates the word access) and address word i/64, bit i%64", 2)
	for _, f := range []*ssa.Function{bitF, setF} {
		n := 0
		instrsOfU(f, func(in ssa.Instruction) {
			ia, ok := in.(*ssa.IndexAddr)
			if !ok || !isFieldLoad(ia.X, "replaydetector.fixedBigInt", bigBits) {
				return
			}
			n++
			ob.Site(in.Pos(), "%s word access", f.Name())
			i := f.Params[1]
			if !hasFact(in, func(ft fact) bool {
				cm, ok := normCmp(ft.Cond, ft.Val)
				return ok && cm.Op == token.LSS && sameOrigin(cm.X, ssa.Value(i)) && isFieldLoad(cm.Y, "replaydetector.fixedBigInt", bigN)
			}) {
				ob.Fail(in.Pos(), "%s accesses the word array without the guard i < n", fname(f))
			}
			want := linSym("(" + linSym(i.Name()).String() + " / +64)")
			if got := linOf(originAt(ia.Index, in), nil); !got.eq(want) {
				ob.Fail(in.Pos(), "%s addresses word %s, expected i/64", fname(f), got)
			}
		})
		if n == 0 {
			ob.Fail(f.Pos(), "%s never touches the word array", fname(f))
		}
	}
	maskWidth(c, newBig, lshF, bigMsb)
	lshTerms(c, lshF, bigBits, bigMsb)
}

// lshTerms: C04/C05 R7 - the left shift by n = 64q + r writes into every word i exactly
// (bits[i] << n) | (bits[i-q] << r, if i-q >= 0) | (bits[i-q-1] >> (64-r), if i-q-1 >= 0):
// decided on the paths of one loop iteration by comparing the set of shifted-word terms of the stored
// value with the set the path's conditions call for.
func lshTerms(c *Ctx, lsh *ssa.Function, bitsField, msbField string) {
	o := c.Obl("R7", fname(lsh), "Lsh(n), n = 64q+r, stores into word i exactly (bits[i] << n) | bits[i-q] << r (when i-q >= 0) | bits[i-q-1] >> (64-r) (when i-q-1 >= 0); every word is written; only the top word is masked", 2)
	T := "replaydetector.fixedBigInt"
	paths, ok := enumIterPathsU(lsh, 5000)
	if !ok {
		o.Undecide("the paths of Lsh could not be enumerated")
		return
	}
	n := lsh.Params[1]
	nF := linSym(n.Name())
	q := linSym("(" + nF.String() + " / +64)")
	r := linSym("(" + nF.String() + " % +64)")
	type term struct {
		idx, amt linForm
		right    bool
	}
	key := func(t term) string {
		d := "<<"
		if t.right {
			d = ">>"
		}
		return fmt.Sprintf("bits[%s]%s(%s)", t.idx, d, t.amt)
	}
	nStores := 0
	seenMsg := map[string]bool{}
	fail := func(pos token.Pos, f string, a ...interface{}) {
		m := fmt.Sprintf(f, a...)
		if !seenMsg[m] {
			seenMsg[m] = true
			o.Fail(pos, "%s", m)
		}
	}
	for pi := range paths {
		pt := paths[pi]
		pf := evalPath(pt)
		for idx, in := range pt.Instrs {
			st, ok := in.(*ssa.Store)
			if !ok {
				continue
			}
			ia, ok := st.Addr.(*ssa.IndexAddr)
			if !ok || !isFieldLoad(ia.X, T, bitsField) {
				continue
			}
			I := pf.w.lin(ia.Index)
			// collect the terms of the stored value along this path
			var terms []term
			masked, bad := false, false
			var walk func(v ssa.Value, d int)
			walk = func(v ssa.Value, d int) {
				v = pt.valueAt(v, idx)
				if d > 12 {
					bad = true
					return
				}
				if c0, isC := v.(*ssa.Const); isC {
					if k, ok := constInt(c0); ok && k == 0 {
						return
					}
				}
				b, isB := v.(*ssa.BinOp)
				if !isB {
					// an unshifted word
					if u, ok := v.(*ssa.UnOp); ok && u.Op == token.MUL {
						if ia2, ok := u.X.(*ssa.IndexAddr); ok && isFieldLoad(ia2.X, T, bitsField) {
							terms = append(terms, term{pf.w.lin(ia2.Index), linConst(0), false})
							return
						}
					}
					bad = true
					return
				}
				switch b.Op {
				case token.OR:
					walk(b.X, d+1)
					walk(b.Y, d+1)
				case token.AND:
					if isFieldLoad(b.Y, T, msbField) {
						masked = true
						walk(b.X, d+1)
					} else if isFieldLoad(b.X, T, msbField) {
						masked = true
						walk(b.Y, d+1)
					} else {
						bad = true
					}
				case token.SHL, token.SHR:
					u, ok := pt.valueAt(b.X, idx).(*ssa.UnOp)
					if !ok || u.Op != token.MUL {
						bad = true
						return
					}
					ia2, ok := u.X.(*ssa.IndexAddr)
					if !ok || !isFieldLoad(ia2.X, T, bitsField) {
						bad = true
						return
					}
					terms = append(terms, term{pf.w.lin(ia2.Index), pf.w.lin(b.Y), b.Op == token.SHR})
				default:
					bad = true
				}
			}
			walk(st.Val, 0)
			if bad {
				fail(st.Pos(), "Lsh stores a value into the word array that is not an OR of shifted words")
				continue
			}
			// the truncation of the top word: bits[top] &= mask
			if masked && len(terms) == 1 && terms[0].idx.eq(I) && terms[0].amt.eq(linConst(0)) {
				continue
			}
			if masked {
				fail(st.Pos(), "Lsh masks a word while shifting it (only the top word is truncated, after the shift)")
			}
			nStores++
			want := map[string]bool{key(term{I, nF, false}): true}
			src := I.add(q, -1)
			if pf.hasEq(src, true) {
				// the path has established i - q == 0 (case src == 0): the source word is word 0
				src = linConst(0)
			}
			holds := func(f linForm) bool { // f > 0 on this path (a constant form decides itself)
				if f.OK && len(f.Coef) == 0 {
					return f.K > 0
				}
				return pf.hasIneq(f)
			}
			if holds(src.add(linConst(1), 1)) { // i-q >= 0
				want[key(term{src, r, false})] = true
				// i-q-1 >= 0: i-q > 0, or i-q >= 0 together with i-q != 0 (the cases of a switch on src)
				if holds(src) || holds(src.add(linConst(-1), 1).add(linConst(1), 1)) || pf.hasEq(src, false) {
					want[key(term{src.add(linConst(-1), 1), linConst(64).add(r, -1), true})] = true
				}
			}
			got := map[string]bool{}
			for _, t := range terms {
				got[key(t)] = true
			}
			// bits[i] << n is subsumed by the other terms: for n < 64 it is the very term bits[i-q] << r
			// (q = 0, r = n), for n >= 64 it is 0 - it may be present or absent
			selfT := key(term{I, nF, false})
			delete(got, selfT)
			delete(want, selfT)
			var gs, ws []string
			for k := range got {
				gs = append(gs, k)
			}
			for k := range want {
				ws = append(ws, k)
			}
			sort.Strings(gs)
			sort.Strings(ws)
			o.Site(st.Pos(), "word %s := %s", I, strings.Join(gs, " | "))
			// every bit shifted out: n >= 64*len(bits) puts q at or above the array length, above every index
			allOut := false
			if len(lsh.Params) > 0 {
				lenBits := linSym("len(" + lsh.Params[0].Name() + "." + bitsField + ")")
				allOut = holds(nF.add(lenBits.scale(64), -1).add(linConst(1), 1))
			}
			if len(gs) == 0 && len(ws) == 0 && !holds(q.add(I, -1)) && !allOut {
				// nothing is shifted into the word: right only where the source word i-q does not exist (i < q)
				fail(st.Pos(), "Lsh clears word %s on a path that has not established that its source word i-q lies below the array (i < q): bits of numbers still inside the window are wiped", I)
				continue
			}
			if strings.Join(gs, "|") != strings.Join(ws, "|") {
				fail(st.Pos(), "Lsh writes %s into word %s; on this path the shift by n = 64q+r requires %s (bits of accepted numbers are lost or stale bits survive)", strings.Join(gs, " | "), I, strings.Join(ws, " | "))
			}
		}
	}
	if nStores == 0 {
		o.Fail(lsh.Pos(), "Lsh never writes a shifted word")
	}
}

// pathInitStore: the store to latestSeq happens on the !init edge (window positioning).
func pathInitStore(d rdRoles, st *ssa.Store) bool {
	return hasFact(st, func(ft fact) bool {
		return boolFact(ft, func(v ssa.Value) bool { fr, ok := asFieldLoad(v); return ok && fr.Field == d.init }, false)
	})
}

// maskWidth: C04.R3 — the mask and-ed into the top word keeps at least the n%64 low bits
// that belong to the window (all 64 when n%64 == 0).
func maskWidth(c *Ctx, newBig, lsh *ssa.Function, msb string) {
	o := c.Obl("R3", fname(newBig), "the truncation mask of the top word is a low-bit mask of width >= n%64 for n%64 in [1,63] and of width 64 for n%64 == 0: a shift never clears bits of accepted numbers still inside the window", 1)
	// does Lsh truncate at all?
	trunc := false
	instrsOf(lsh, func(in ssa.Instruction) {
		if b, ok := in.(*ssa.BinOp); ok && b.Op == token.AND && msb != "" && (isFieldLoad(b.X, "replaydetector.fixedBigInt", msb) || isFieldLoad(b.Y, "replaydetector.fixedBigInt", msb)) {
			trunc = true
		}
	})
	if !trunc {
		o.Site(lsh.Pos(), "Lsh does not truncate the top word: nothing to check")
		return
	}
	var stored ssa.Value
	instrsOf(newBig, func(in ssa.Instruction) {
		if st, ok := in.(*ssa.Store); ok && isFieldStore(st, "replaydetector.fixedBigInt", msb) {
			stored = st.Val
		}
	})
	if stored == nil {
		o.Undecide("the constructor does not set the truncation mask")
		return
	}
	n := newBig.Params[0]
	isR := func(v ssa.Value) bool { // n % 64
		b, ok := v.(*ssa.BinOp)
		if !ok || b.Op != token.REM || !sameOrigin(b.X, ssa.Value(n)) {
			return false
		}
		k, ok := constInt(b.Y)
		return ok && k == 64
	}
	// width of a mask expression as a linear form in r
	width := func(v ssa.Value) (linForm, bool) {
		if cst, ok := v.(*ssa.Const); ok {
			if k, ok := constInt(cst); ok && uint64(k) == ^uint64(0) {
				return linConst(64), true
			}
			return linForm{}, false
		}
		symR := func(x ssa.Value) (string, bool) {
			if isR(x) {
				return "r", true
			}
			return defaultSym(x)
		}
		allOnes := func(x ssa.Value) bool {
			k, ok := constInt(x)
			return ok && uint64(k) == ^uint64(0)
		}
		// ^(allones << w): the complement of the high bits
		if u, ok := v.(*ssa.UnOp); ok && u.Op == token.XOR {
			if shl, ok := origin(u.X).(*ssa.BinOp); ok && shl.Op == token.SHL && allOnes(shl.X) {
				return linOf(shl.Y, symR), true
			}
		}
		if x, ok := v.(*ssa.BinOp); ok && x.Op == token.XOR {
			a, b := origin(x.X), origin(x.Y)
			if allOnes(b) {
				a, b = b, a
			}
			if shl, ok := b.(*ssa.BinOp); ok && allOnes(a) && shl.Op == token.SHL && allOnes(shl.X) {
				return linOf(shl.Y, symR), true
			}
		}
		// allones >> (64 - w)
		if shr, ok := v.(*ssa.BinOp); ok && shr.Op == token.SHR && allOnes(shr.X) && isUnsignedType(shr.X.Type()) {
			if amt := linOf(shr.Y, symR); amt.OK {
				return linConst(64).add(amt, -1), true
			}
		}
		sub, ok := v.(*ssa.BinOp)
		if !ok || sub.Op != token.SUB {
			return linForm{}, false
		}
		if k, ok := constInt(sub.Y); !ok || k != 1 {
			return linForm{}, false
		}
		shl, ok := origin(sub.X).(*ssa.BinOp)
		if !ok || shl.Op != token.SHL {
			return linForm{}, false
		}
		if k, ok := constInt(shl.X); !ok || k != 1 {
			return linForm{}, false
		}
		return linOf(shl.Y, func(x ssa.Value) (string, bool) {
			if isR(x) {
				return "r", true
			}
			return defaultSym(x)
		}), true
	}
	check := func(v ssa.Value, rZero, rNonZero bool, pos token.Pos) {
		wf, ok := width(v)
		if !ok || !wf.OK {
			o.Fail(pos, "the truncation mask is not a recognisable low-bit mask ((1<<w)-1 or all ones)")
			return
		}
		a := wf.Coef["r"]
		for k := range wf.Coef {
			if k != "r" {
				o.Fail(pos, "the mask width depends on %s", k)
				return
			}
		}
		o.Site(pos, "mask width = %s (used for r==0: %v, r!=0: %v)", wf, rZero, rNonZero)
		if rNonZero {
			for _, r := range []int64{1, 63} {
				if a*r+wf.K < r {
					o.Fail(pos, "for n%%64 = %d the mask keeps only %d bits of the top word: bits of accepted numbers inside the window are cleared by a shift, so a replay is accepted (e.g. window sizes 48, 50, 100)", r, a*r+wf.K)
					return
				}
			}
		}
		if rZero && wf.K < 64 {
			o.Fail(pos, "for n%%64 = 0 the mask keeps only %d bits of the top word", wf.K)
		}
	}
	if ph, ok := stored.(*ssa.Phi); ok {
		for i, e := range ph.Edges {
			pred := ph.Block().Preds[i]
			rz, rnz := true, true
			for _, ft := range append(guardsOfBlock(pred), lastBranchFact(pred, ph.Block())...) {
				cm, ok := normCmp(ft.Cond, ft.Val)
				if !ok {
					continue
				}
				var other ssa.Value
				if isR(cm.X) {
					other = cm.Y
				} else if isR(cm.Y) {
					other = cm.X
				}
				if k, ok := constInt(other); other != nil && ok && k == 0 {
					if cm.Op == token.EQL {
						rnz = false
					} else if cm.Op == token.NEQ {
						rz = false
					}
				}
				// the unsigned remainder compared by order: r > 0, r >= 1 (not zero); r <= 0, r < 1 (zero)
				if k, ok := constInt(other); other != nil && ok {
					switch {
					case cm.Op == token.LSS && isR(cm.Y) && k == 0, cm.Op == token.LEQ && isR(cm.Y) && k == 1:
						rz = false
					case cm.Op == token.LEQ && isR(cm.X) && k == 0, cm.Op == token.LSS && isR(cm.X) && k == 1:
						rnz = false
					}
				}
			}
			check(e, rz, rnz, newBig.Pos())
		}
		return
	}
	check(stored, true, true, newBig.Pos())
}

func runC04(c *Ctx) { replayRules(c, "C04") }
func runC05(c *Ctx) { replayRules(c, "C05") }

var _ = fmt.Sprint

// pathBoolIs: the boolean v has the value want on this path: a constant, or a value the path has branched on
// (a captured flag such as newer := diff < 0 that is tested and then returned).
func pathBoolIs(pt *upath, v ssa.Value, want bool) bool {
	rv := pt.value(v)
	if isConstBool(rv, want) {
		return true
	}
	same := func(a, b ssa.Value) bool {
		if a == b || sameOrigin(a, b) {
			return true
		}
		la, ok1 := a.(*ssa.UnOp)
		lb, ok2 := b.(*ssa.UnOp)
		if ok1 && ok2 && la.Op == token.MUL && lb.Op == token.MUL && la.X == lb.X {
			// two loads of one captured variable that the closure never writes
			if fv, isFV := la.X.(*ssa.FreeVar); isFV {
				written := false
				instrsOf(fv.Parent(), func(in ssa.Instruction) {
					if st, ok := in.(*ssa.Store); ok && st.Addr == ssa.Value(fv) {
						written = true
					}
				})
				return !written
			}
		}
		return false
	}
	for _, ft := range pt.Conds {
		c, val := ft.Cond, ft.Val
		for d := 0; d < 4; d++ {
			if u, ok := c.(*ssa.UnOp); ok && u.Op == token.NOT {
				c, val = u.X, !val
				continue
			}
			break
		}
		if same(c, rv) || same(c, v) {
			return val == want
		}
	}
	return false
}
