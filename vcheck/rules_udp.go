package main

// udp listener: C11 (demultiplexing) and C12 (socket lifetime / reference counting).

import (
	"fmt"
	"go/token"
	"go/types"
	"os"
	"strings"

	"golang.org/x/tools/go/ssa"
)

type udpRoles struct {
	LT, CT                                                     string // "udp.listener", "udp.Conn"
	Accept, LClose, LCloseFn, Listen, closer, getConn, newConn *ssa.Function
	dispatch, readLoop, CClose, CCloseFn                       *ssa.Function
	readers                                                    []*ssa.Function
	pConn, acceptCh, doneCh, conns, connLock, connWG, readWG   string
	accepting                                                  string
	cListener, cRAddr, cBuffer, cDoneCh                        string
	problems                                                   []string
}

func resolveUDP(p *Prog) *udpRoles {
	r := &udpRoles{LT: "udp.listener", CT: "udp.Conn"}
	miss := func(s string, a ...interface{}) { r.problems = append(r.problems, fmt.Sprintf(s, a...)) }
	ln := p.Named("udp", "listener")
	cn := p.Named("udp", "Conn")
	if ln == nil || cn == nil {
		miss("types udp.listener / udp.Conn not found")
		return r
	}
	lst, _ := ln.Underlying().(*types.Struct)
	cst, _ := cn.Underlying().(*types.Struct)
	if lst == nil || cst == nil {
		miss("udp.listener / udp.Conn are not structs")
		return r
	}
	var structChans []string
	var wgFields []string
	// fields regrouped into an unexported inner struct keep their roles (promoted or dotted names)
	flattenFields = true
	for _, f := range flatStructFields(lst, "", 0) {
		ts := f.Type.String()
		switch {
		case ts == "net.PacketConn":
			r.pConn = f.Name
		case ts == "sync.Mutex":
			r.connLock = f.Name
		case ts == "*sync.WaitGroup" || ts == "sync.WaitGroup" || holdsWaitGroup(f.Type):
			wgFields = append(wgFields, f.Name)
		}
		switch t := f.Type.(type) {
		case *types.Map:
			r.conns = f.Name
		case *types.Chan:
			if typeName(t.Elem()) == "udp.Conn" {
				r.acceptCh = f.Name
			} else {
				structChans = append(structChans, f.Name)
			}
		}
	}
	for i := 0; i < cst.NumFields(); i++ {
		f := cst.Field(i)
		switch {
		case typeName(f.Type()) == "udp.listener":
			r.cListener = f.Name()
		case f.Type().String() == "net.Addr":
			r.cRAddr = f.Name()
		case typeName(f.Type()) == "packetio.Buffer":
			r.cBuffer = f.Name()
		}
		if _, ok := f.Type().(*types.Chan); ok {
			r.cDoneCh = f.Name()
		}
	}
	r.Accept = p.Func("udp", "listener", "Accept")
	r.LClose = p.Func("udp", "listener", "Close")
	r.CClose = p.Func("udp", "Conn", "Close")
	r.Listen = p.Func("udp", "ListenConfig", "Listen")
	if r.Accept == nil || r.LClose == nil || r.CClose == nil || r.Listen == nil {
		miss("Accept / Close / Listen of the udp package not found")
		return r
	}
	// the sync.Once closures
	onceFn := func(f *ssa.Function) *ssa.Function {
		var out *ssa.Function
		instrsOf(f, func(in ssa.Instruction) {
			if isCall(in, "(*sync.Once).Do") {
				args := in.(ssa.CallInstruction).Common().Args
				if mc, ok := args[1].(*ssa.MakeClosure); ok {
					out, _ = mc.Fn.(*ssa.Function)
				} else if fn, ok := args[1].(*ssa.Function); ok {
					out = fn
				}
			}
		})
		return out
	}
	r.LCloseFn, r.CCloseFn = onceFn(r.LClose), onceFn(r.CClose)
	if r.LCloseFn == nil || r.CCloseFn == nil {
		miss("Close of listener / Conn is not wrapped in sync.Once.Do(closure)")
		return r
	}
	// accepting: atomic.Value / atomic.Bool on which Close stores; doneCh: chan struct{} closed by listener Close
	instrsOfU(r.LCloseFn, func(in ssa.Instruction) {
		if isCall(in, "(*sync/atomic.Value).Store") || isCall(in, "(*sync/atomic.Bool).Store") {
			if fr, ok := asFieldAddr(in.(ssa.CallInstruction).Common().Args[0]); ok && fr.SName == r.LT {
				r.accepting = fr.Field
			}
		}
		if isCall(in, "builtin.close") {
			if fr, ok := asFieldLoad(in.(ssa.CallInstruction).Common().Args[0]); ok && fr.SName == r.LT {
				r.doneCh = fr.Field
			}
		}
	})
	_ = structChans
	// functions by role
	for _, f := range p.Funcs {
		if pkgOf(f) != "udp" {
			continue
		}
		instrsOf(f, func(in ssa.Instruction) {
			if lk, ok := in.(*ssa.Lookup); ok && isFieldLoad(lk.X, r.LT, r.conns) && lk.CommaOk {
				r.getConn = f
			}
		})
		instrsOf(f, func(in ssa.Instruction) {
			if c, ok := in.(*ssa.Call); ok && c.Call.IsInvoke() && c.Call.Method.Name() == "Close" && isFieldLoad(c.Call.Value, r.LT, r.pConn) {
				r.closer = f
			}
		})
	}
	if r.getConn == nil {
		miss("no function looks remotes up in the connection table")
		return r
	}
	// the two WaitGroups by usage: the socket reference count is the one getConn adds to (one reference per queued
	// connection); the other one tracks the package's goroutines
	for _, in := range findU(r.getConn, func(in ssa.Instruction) bool { op, _, ok := wgCall(in); return ok && op == "Add" }) {
		_, recv, _ := wgCall(in)
		if f := wgField(recv, r.LT); f != "" {
			r.connWG = f
		}
	}
	for _, f := range wgFields {
		if f != r.connWG {
			r.readWG = f
		}
	}
	if r.closer == nil {
		miss("no function calls Close on the listener's socket field " + r.pConn + " (closing another value - e.g. the raw socket under a batching wrapper - leaves what the listener owns open: the wrapper's goroutine keeps running and queued writes are not flushed)")
		return r
	}
	for _, in := range findU(r.getConn, func(in ssa.Instruction) bool { _, ok := in.(*ssa.Call); return ok }) {
		call := in.(*ssa.Call)
		if sc := call.Call.StaticCallee(); sc != nil && inModule(sc) && sc.Signature.Results().Len() == 1 && typeName(sc.Signature.Results().At(0).Type()) == "udp.Conn" {
			// the constructor is the one that allocates a Conn
			alloc := false
			instrsOf(sc, func(x ssa.Instruction) {
				if a, ok := x.(*ssa.Alloc); ok {
					if n, ok := a.Type().(*types.Pointer).Elem().(*types.Named); ok && typeName(n) == r.CT {
						alloc = true
					}
				}
			})
			if alloc {
				r.newConn = sc
			}
		}
	}
	cg := p.CG()
	for _, e := range cg.In[r.getConn] {
		r.dispatch = e.From
	}
	if r.dispatch != nil {
		for _, e := range cg.In[r.dispatch] {
			r.readers = append(r.readers, e.From)
		}
	}
	for _, rd := range r.readers {
		for _, e := range cg.In[rd] {
			r.readLoop = e.From
		}
	}
	// the read loop proper is the function the constructor starts: climb through private helpers that have one
	// static caller (readLoop -> readUntilError -> read/readBatch)
	for i := 0; i < 4 && r.readLoop != nil; i++ {
		var ins []cgEdge
		for _, e := range cg.In[r.readLoop] {
			if e.Kind != "ref" {
				ins = append(ins, e)
			}
		}
		if len(ins) != 1 || ins[0].Kind != "static" || !isPrivateHelper(r.readLoop) {
			break
		}
		r.readLoop = ins[0].From
	}
	for k, v := range map[string]string{"pConn": r.pConn, "acceptCh": r.acceptCh, "doneCh": r.doneCh, "conns": r.conns, "connLock": r.connLock,
		"connWG": r.connWG, "readWG": r.readWG, "accepting": r.accepting, "Conn.listener": r.cListener, "Conn.rAddr": r.cRAddr, "Conn.buffer": r.cBuffer, "Conn.doneCh": r.cDoneCh} {
		if v == "" {
			miss("role %q of the udp listener could not be resolved", k)
		}
	}
	if r.newConn == nil || r.dispatch == nil || len(r.readers) == 0 || r.readLoop == nil {
		miss("helper chain readLoop -> read/readBatch -> dispatch -> getConn -> newConn not resolved")
	}
	return r
}

func (r *udpRoles) isWG(in ssa.Instruction, method string) bool {
	op, recv, ok := wgCall(in)
	if !ok || op != method {
		return false
	}
	return wgField(recv, r.LT) == r.connWG
}

// holdsWaitGroup: a (pointer to a) module struct whose only field is a WaitGroup (a reference counter type).
func holdsWaitGroup(t types.Type) bool {
	if pt, ok := t.Underlying().(*types.Pointer); ok {
		t = pt.Elem()
	}
	st, ok := t.Underlying().(*types.Struct)
	if !ok || st.NumFields() != 1 {
		return false
	}
	ft := st.Field(0).Type().String()
	return ft == "sync.WaitGroup" || ft == "*sync.WaitGroup"
}

// wgCall: in is Add / Done / Wait on a WaitGroup: called directly (recv is the group), or through a one-line
// method of a type that wraps the group (recv is the wrapper: acquire() { r.wg.Add(1) }).
func wgCall(in ssa.Instruction) (op string, recv ssa.Value, ok bool) {
	c, isCall := in.(ssa.CallInstruction)
	if !isCall {
		return "", nil, false
	}
	n := callName(c)
	if strings.HasPrefix(n, "(*sync.WaitGroup).") {
		return strings.TrimPrefix(n, "(*sync.WaitGroup)."), c.Common().Args[0], true
	}
	sc := c.Common().StaticCallee()
	if sc == nil || !inModule(sc) || len(sc.Blocks) != 1 || sc.Signature.Recv() == nil || !holdsWaitGroup(sc.Signature.Recv().Type()) || len(c.Common().Args) == 0 {
		return "", nil, false
	}
	found := ""
	for _, x := range sc.Blocks[0].Instrs {
		switch y := x.(type) {
		case *ssa.Call:
			yn := callName(y)
			if !strings.HasPrefix(yn, "(*sync.WaitGroup).") || found != "" {
				return "", nil, false
			}
			base := y.Call.Args[0]
			if ld, isLd := base.(*ssa.UnOp); isLd {
				base = ld.X
			}
			fa, isFA := base.(*ssa.FieldAddr)
			if !isFA || fa.X != ssa.Value(sc.Params[0]) {
				return "", nil, false
			}
			found = strings.TrimPrefix(yn, "(*sync.WaitGroup).")
			if found == "Add" {
				if k, isC := constInt(y.Call.Args[1]); !isC || k != 1 {
					return "", nil, false
				}
			}
		case *ssa.Store, *ssa.MapUpdate, *ssa.Send, *ssa.Go, *ssa.Defer:
			return "", nil, false
		}
	}
	if found == "" {
		return "", nil, false
	}
	return found, c.Common().Args[0], true
}

// wgField: the listener field the WaitGroup receiver denotes (a *sync.WaitGroup field is loaded, a sync.WaitGroup
// field is addressed); "" if neither.
func wgField(recv ssa.Value, owner string) string {
	if fr, ok := asFieldLoad(recv); ok && fr.SName == owner {
		return fr.Field
	}
	if fr, ok := asFieldAddr(recv); ok && fr.SName == owner {
		return fr.Field
	}
	return ""
}

func (r *udpRoles) isConnLock(in ssa.Instruction, op string) bool {
	c, ok := in.(*ssa.Call)
	if !ok {
		return false
	}
	o, _ := lockOp(c)
	if o != op {
		return false
	}
	fr, ok := asFieldAddr(c.Call.Args[0])
	return ok && fr.SName == r.LT && fr.Field == r.connLock
}

// acceptingFact: the most recent Load().(bool) of the accepting flag was true/false.
func (r *udpRoles) acceptingFact(f fact, want bool) bool {
	return boolFact(f, func(v ssa.Value) bool {
		ex, ok := v.(*ssa.Extract)
		if !ok || ex.Index != 0 {
			return false
		}
		ta, ok := origin(ex.Tuple).(*ssa.TypeAssert)
		if !ok {
			return false
		}
		call, ok := origin(ta.X).(*ssa.Call)
		if !ok || callName(call) != "(*sync/atomic.Value).Load" {
			return false
		}
		fr, ok := asFieldAddr(call.Call.Args[0])
		return ok && fr.SName == r.LT && fr.Field == r.accepting
	}, want) || boolFact(f, func(v ssa.Value) bool {
		// atomic.Bool: the loaded value itself
		call, ok := origin(v).(*ssa.Call)
		if !ok || callName(call) != "(*sync/atomic.Bool).Load" {
			return false
		}
		fr, ok := asFieldAddr(call.Call.Args[0])
		return ok && fr.SName == r.LT && fr.Field == r.accepting
	}, want)
}

// holdsConnLock: some access path ending in .connLock of a listener is held.
func (r *udpRoles) holdsConnLock(la *lockAnalysis, in ssa.Instruction) bool {
	for _, e := range la.heldAt(in) {
		if e.Owner == r.LT && e.Field == r.connLock {
			return true
		}
	}
	return false
}

func (r *udpRoles) connLockUnlockBetween(a, b ssa.Instruction) bool {
	re := reachU(posAfter(a), func(in ssa.Instruction) bool { return in == b })
	for in := range re {
		if r.isConnLock(in, "unlock") && canReach(posAfter(in), b, nil) {
			return true
		}
	}
	return false
}

func udpAnchors(c *Ctx) *udpRoles {
	setUnitExclude()
	r := resolveUDP(c.P)
	ex := []*ssa.Function{r.getConn, r.newConn, r.dispatch, r.readLoop, r.closer}
	ex = append(ex, r.readers...)
	setUnitExclude(ex...)
	if len(r.problems) > 0 {
		o := c.Obl("R0", "udp.listener", "anchors of the UDP listener are resolved", 1)
		for _, pr := range r.problems {
			o.Undecide("%s", pr)
		}
		return nil
	}
	return r
}

// backlog send in getConn and its success / failure blocks
func (r *udpRoles) backlogSend() (sel *ssa.Select, okBlk, failBlk *ssa.BasicBlock, sent ssa.Value) {
	for _, cm := range commsOfU(r.getConn) {
		if cm.Dir == types.SendOnly && chanRole(cm.Chan) == "field "+r.LT+"."+r.acceptCh && cm.Sel != nil {
			sel = cm.Sel
			sent = cm.Send
			cs, d := caseBlocks(cm.Sel)
			okBlk, failBlk = cs[cm.Index], d
		}
	}
	return
}

// ---------------------------------------------------------------------------------
// C12
// ---------------------------------------------------------------------------------

func runC12(c *Ctx) {
	p := c.P
	r := udpAnchors(c)
	if r == nil {
		return
	}
	la := computeLocksets(p)
	acceptRole := "field " + r.LT + "." + r.acceptCh
	if os.Getenv("VCHECK_DEBUG") != "" {
		for _, g := range unitOf(r.getConn) {
			fmt.Println("DEBUG unit(getConn):", debugHelper(g))
		}
		fmt.Println("DEBUG getConn =", fname(r.getConn), "newConn =", fname(r.newConn))
	}

	// R1 who may close the socket
	o := c.Obl("R1", r.LT+"."+r.pConn, "the shared socket is closed at exactly one site, after connWG.Wait() (count of listener + connections reached zero)", 1)
	n := 0
	for _, f := range p.Funcs {
		if pkgOf(f) != "udp" {
			continue
		}
		for _, in := range findInstrs(f, func(in ssa.Instruction) bool {
			c, ok := in.(ssa.CallInstruction)
			return ok && c.Common().IsInvoke() && c.Common().Method.Name() == "Close" && isFieldLoad(c.Common().Value, r.LT, r.pConn)
		}) {
			n++
			o.Site(in.Pos(), "pConn.Close() in %s", fname(f))
			waits := findInstrs(f, func(x ssa.Instruction) bool { return r.isWG(x, "Wait") })
			dom := false
			for _, w := range waits {
				if domU(w, in) {
					dom = true
				}
			}
			if !dom {
				o.Fail(in.Pos(), "the socket is closed in %s without first waiting for the reference count (connWG.Wait) to reach zero", fname(f))
			}
		}
	}
	if n != 1 {
		o.Fail(r.Listen.Pos(), "expected exactly one close site of the shared socket, found %d", n)
	}

	// R2 every Done is once-only or undoes the Add of its own path
	o = c.Obl("R2", r.LT+"."+r.connWG, "every connWG.Done() is inside a sync.Once closure (listener Close: own reference after the drain + one per drained conn; Conn.Close: its own), or undoes the Add of the same path when the backlog is full", 3)
	sel, okBlk, failBlk, sentConn := r.backlogSend()
	for _, f := range p.Funcs {
		if pkgOf(f) != "udp" {
			continue
		}
		for _, in := range findInstrs(f, func(x ssa.Instruction) bool { return r.isWG(x, "Done") }) {
			o.Site(in.Pos(), "Done() in %s", fname(f))
			switch {
			case isIn(f, r.CCloseFn):
				// exactly once per closure execution
			case isIn(f, r.LCloseFn):
			case isIn(f, r.getConn):
				if failBlk == nil || !(failBlk == in.Block() || failBlk.Dominates(in.Block())) {
					o.Fail(in.Pos(), "Done() in %s is not on the failed-enqueue edge", fname(f))
				}
			default:
				o.Fail(in.Pos(), "connWG.Done() in %s is not protected by a sync.Once: a double Close would release a reference twice and close the socket under a live connection", fname(f))
			}
		}
	}
	// Conn.Close: exactly one Done on every path
	if m, inf := maxEventsU(entryPos(r.CCloseFn), isReturn, func(in ssa.Instruction) int { return b2i(r.isWG(in, "Done")) }); m != 1 || inf {
		o.Fail(r.CCloseFn.Pos(), "Conn.Close releases %d references (must be exactly one)", m)
	}
	if ok, bad := mustPassU(entryPos(r.CCloseFn), isReturn, func(in ssa.Instruction) bool { return r.isWG(in, "Done") }); !ok {
		o.Fail(bad.Pos(), "Conn.Close can return without releasing its reference: the socket would never be closed")
	}
	// listener Close: own Done exactly once outside the drain loop, after the drain (dominated by the connLock critical section)
	var ownDone []ssa.Instruction
	var drainRecv *ssa.Select
	for _, cm := range commsOfU(r.LCloseFn) {
		if cm.Dir == types.RecvOnly && chanRole(cm.Chan) == acceptRole && cm.Sel != nil {
			drainRecv = cm.Sel
		}
	}
	var drainBlk *ssa.BasicBlock
	if drainRecv != nil {
		cs, _ := caseBlocks(drainRecv)
		drainBlk = cs[0]
	}
	for _, in := range findU(r.LCloseFn, func(x ssa.Instruction) bool { return r.isWG(x, "Done") }) {
		if drainBlk != nil && (in.Block() == drainBlk || drainBlk.Dominates(in.Block())) {
			continue
		}
		ownDone = append(ownDone, in)
	}
	if len(ownDone) != 1 {
		o.Fail(r.LCloseFn.Pos(), "listener Close must release its own reference exactly once outside the drain loop (found %d sites)", len(ownDone))
	}

	// R3 references are taken before they can be needed
	o = c.Obl("R3", r.LT+"."+r.connWG, "every connWG.Add is in the constructor before the goroutines start, or under connLock on the accepting edge, in the same critical section as and before the enqueue that makes the conn acceptable", 2)
	for _, f := range p.Funcs {
		if pkgOf(f) != "udp" {
			continue
		}
		for _, in := range findInstrs(f, func(x ssa.Instruction) bool { return r.isWG(x, "Add") }) {
			o.Site(in.Pos(), "Add in %s", fname(f))
			switch {
			case isIn(f, r.Listen):
				base := in.(ssa.CallInstruction).Common().Args[0]
				fr, okL := asFieldLoad(base)
				if !okL {
					fr, _ = asFieldAddr(base) // a sync.WaitGroup held by value
				}
				if !isFreshBaseU(fr.Base, 0) {
					o.Fail(in.Pos(), "Add in the constructor is not on the freshly created listener")
				}
				for _, g := range findInstrs(f, func(x ssa.Instruction) bool { _, ok := x.(*ssa.Go); return ok }) {
					if !domU(in, g) {
						o.Fail(in.Pos(), "the listener's own reference is taken after a goroutine was started (the closer could see a zero count)")
					}
				}
			case isIn(f, r.getConn):
				if !r.holdsConnLock(la, in) {
					o.Fail(in.Pos(), "Add in %s is not under connLock: unordered with listener Close releasing the last reference", fname(f))
				}
				if !hasFact(in, func(ft fact) bool { return r.acceptingFact(ft, true) }) {
					o.Fail(in.Pos(), "Add in %s is not on the accepting edge", fname(f))
				}
				if sel == nil || !domU(in, sel) {
					o.Fail(in.Pos(), "the reference is not taken before the conn is offered to the backlog (Accept + Conn.Close could run first)")
				}
			default:
				o.Fail(in.Pos(), "connWG.Add in %s: a reference taken there is not ordered with the listener releasing its own (the count may already be zero and the socket closed)", fname(f))
			}
		}
	}
	// the enqueue itself: under connLock, accepting edge, same critical section as the accepting test
	oq := c.Obl("R3q", fname(r.getConn), "a conn is offered to the backlog only under connLock, on the accepting edge, with no release of connLock between the accepting test and the enqueue (Close drains under the same lock after clearing the flag)", 1)
	if sel == nil {
		oq.Undecide("backlog send not found")
	} else {
		oq.Site(sel.Pos(), "non-blocking send on %s held=%s", r.acceptCh, la.heldAt(sel))
		if sel.Blocking {
			oq.Fail(sel.Pos(), "the enqueue blocks while holding connLock")
		}
		if !r.holdsConnLock(la, sel) {
			oq.Fail(sel.Pos(), "the enqueue is not under connLock")
		}
		okf := false
		for _, ft := range append(guards(sel), allFactsAt(sel, 0)...) {
			if r.acceptingFact(ft, true) {
				okf = true
				// from where the flag was read (not from where it was branched on) to the enqueue
				from := ssa.Instruction(ft.If)
				if ft.If == nil {
					from = sel
				}
				derivesFrom(ft.Cond, func(v ssa.Value) bool {
					if call, ok := v.(*ssa.Call); ok && (callName(call) == "(*sync/atomic.Value).Load" || callName(call) == "(*sync/atomic.Bool).Load") {
						from = call
						return true
					}
					return false
				}, false)
				if r.connLockUnlockBetween(from, sel) {
					oq.Fail(sel.Pos(), "connLock is released between the accepting test and the enqueue: a conn can be queued after Close has drained the backlog and dropped its reference")
				}
				// the flag must be loaded under the lock
				if ex, ok := ft.Cond.(*ssa.Extract); ok {
					if ta, ok := origin(ex.Tuple).(*ssa.TypeAssert); ok {
						if call, ok := origin(ta.X).(*ssa.Call); ok && !r.holdsConnLock(la, call) {
							oq.Fail(call.Pos(), "the accepting flag is read outside connLock")
						}
					}
				}
			}
		}
		if !okf {
			oq.Fail(sel.Pos(), "the enqueue is not on the accepting edge: conns are queued after Close")
		}
		// the Add must be accounted on the success edge: no Done between
		if okBlk != nil {
			for _, in := range okBlk.Instrs {
				if r.isWG(in, "Done") {
					oq.Fail(in.Pos(), "the reference of a successfully queued conn is released immediately")
				}
			}
		}
	}

	// R4 drained / refused / accepted conns
	o = c.Obl("R4", r.LT, "a conn leaving the backlog is either handed to the caller of Accept or released: listener Close unregisters every conn it drains and gives its reference back; a conn whose enqueue fails gives it back; Accept returns what it receives", 3)
	if drainRecv == nil || drainBlk == nil {
		o.Fail(r.LCloseFn.Pos(), "listener Close does not drain the backlog: unaccepted conns would keep the socket open forever")
	} else {
		o.Site(drainRecv.Pos(), "drain receive in %s", fname(r.LCloseFn))
		hasDel, hasDone := false, false
		var drained ssa.Value
		for _, in := range drainBlk.Instrs {
			if ex, ok := in.(*ssa.Extract); ok && sameOrigin(ex.Tuple, ssa.Value(drainRecv)) && ex.Index >= 2 {
				drained = ex
			}
		}
		// the drained conn may reach the caller as the result of a polling helper
		drainedSet := map[ssa.Value]bool{}
		if drained != nil {
			drainedSet[drained] = true
			if h := drainRecv.Parent(); isPrivateHelper(h) {
				for k := 0; k < h.Signature.Results().Len(); k++ {
					isRet := false
					for _, rv := range returnedValues(h, k) {
						if rv == drained {
							isRet = true
						}
					}
					if !isRet {
						continue
					}
					for _, site := range curSites.sites[h] {
						call, ok := site.(*ssa.Call)
						if !ok {
							continue
						}
						if h.Signature.Results().Len() == 1 {
							drainedSet[call] = true
							continue
						}
						for _, rf := range *call.Referrers() {
							if ex, ok := rf.(*ssa.Extract); ok && ex.Index == k {
								drainedSet[ex] = true
							}
						}
					}
				}
			}
		}
		for in := range reachU(blockStart(drainBlk), func(x ssa.Instruction) bool { return x == ssa.Instruction(drainRecv) }) {
			if isCall(in, "builtin.delete") {
				args := in.(ssa.CallInstruction).Common().Args
				if isFieldLoad(args[0], r.LT, r.conns) && drained != nil && derivesFrom(args[1], func(v ssa.Value) bool { return drainedSet[v] }, true) {
					hasDel = true
				}
			}
			if r.isWG(in, "Done") {
				hasDone = true
			}
		}
		if !hasDel {
			o.Fail(drainRecv.Pos(), "a drained conn is not unregistered from the table (keyed by its own remote address)")
		}
		if !hasDone {
			o.Fail(drainRecv.Pos(), "a drained conn does not give back the reference it took when it was queued: the socket is never closed")
		}
		if !r.holdsConnLock(la, drainRecv) {
			o.Fail(drainRecv.Pos(), "the backlog is drained outside connLock")
		}
		if drainRecv.Blocking {
			o.Fail(drainRecv.Pos(), "the drain blocks")
		}
	}
	if failBlk != nil {
		okRel := false
		for in := range reachU(blockStart(failBlk), nil) {
			if r.isWG(in, "Done") {
				okRel = true
			}
		}
		o.Site(failBlk.Instrs[0].Pos(), "failed-enqueue edge")
		adds := findU(r.getConn, func(x ssa.Instruction) bool { return r.isWG(x, "Add") })
		if len(adds) > 0 && !okRel {
			o.Fail(failBlk.Instrs[0].Pos(), "when the backlog is full the reference taken for the new conn is leaked")
		}
		if ok, bad := mustPassU(blockStart(failBlk), isReturn, func(in ssa.Instruction) bool { return len(adds) == 0 || r.isWG(in, "Done") }); !ok {
			o.Fail(bad.Pos(), "a path from the failed enqueue returns without giving the reference back")
		}
	}
	// Accept: every path from receiving a conn returns that conn (or releases it)
	for _, cm := range commsOfU(r.Accept) {
		if cm.Dir != types.RecvOnly || chanRole(cm.Chan) != acceptRole {
			continue
		}
		if cm.Sel == nil {
			o.Fail(cm.Instr.Pos(), "Accept receives from the backlog without also waiting for Close")
			continue
		}
		cs, _ := caseBlocks(cm.Sel)
		blk := cs[cm.Index]
		if blk == nil {
			continue
		}
		o.Site(cm.Sel.Pos(), "Accept receives from the backlog")
		var got ssa.Value
		for _, rf := range *cm.Sel.Referrers() {
			if ex, ok := rf.(*ssa.Extract); ok && ex.Index == 2+cm.Index-0 && typeName(ex.Type()) == r.CT {
				got = ex
			}
		}
		for in := range reachU(blockStart(blk), nil) {
			ret, ok := in.(*ssa.Return)
			if !ok {
				continue
			}
			returnsIt := got != nil && derivesFrom(ret.Results[0], func(v ssa.Value) bool { return v == got }, false) && isSuccessReturn(ret)
			if returnsIt {
				continue
			}
			// otherwise the reference must have been released on the way
			if ok2, _ := mustPassU(blockStart(blk), func(x ssa.Instruction) bool { return x == in }, func(x ssa.Instruction) bool { return r.isWG(x, "Done") }); !ok2 {
				o.Fail(ret.Pos(), "Accept takes a conn out of the backlog and then returns without handing it to the caller or releasing its reference: the socket is never closed")
			}
		}
		for in := range reachU(blockStart(blk), nil) {
			if r.isWG(in, "Add") {
				o.Fail(in.Pos(), "Accept takes a reference after the conn left the backlog (unordered with Close)")
			}
		}
	}

	// R5 Conn.Close closes its buffer and unregisters
	o = c.Obl("R5", fname(r.CClose), "Conn.Close closes its buffer (unblocking reads) and unregisters its key under connLock on every path", 2)
	isBufClose := func(in ssa.Instruction) bool {
		if !isCall(in, "(*packetio.Buffer).Close") {
			return false
		}
		return isFieldLoad(in.(ssa.CallInstruction).Common().Args[0], r.CT, r.cBuffer)
	}
	isUnreg := func(in ssa.Instruction) bool {
		if !isCall(in, "builtin.delete") {
			return false
		}
		return isFieldLoad(in.(ssa.CallInstruction).Common().Args[0], r.LT, r.conns)
	}
	for _, in := range findU(r.CCloseFn, isBufClose) {
		o.Site(in.Pos(), "buffer.Close()")
	}
	for _, in := range findU(r.CCloseFn, isUnreg) {
		o.Site(in.Pos(), "delete(conns, key) held=%s", la.heldAt(in))
		if !r.holdsConnLock(la, in) {
			o.Fail(in.Pos(), "Conn.Close unregisters outside connLock")
		}
	}
	if ok, bad := mustPassU(entryPos(r.CCloseFn), isReturn, isBufClose); !ok {
		o.Fail(bad.Pos(), "Conn.Close can return without closing its buffer: pending reads stay blocked")
	}
	if ok, bad := mustPassU(entryPos(r.CCloseFn), isReturn, isUnreg); !ok {
		o.Fail(bad.Pos(), "Conn.Close can return without unregistering the conn")
	}

	// R6 listener Close ordering
	o = c.Obl("R6", fname(r.LClose), "listener Close: accepting cleared and doneCh closed (once) before connLock is taken for the drain; the own reference is released only after the drain's critical section; Accept fails once doneCh is closed", 4)
	var store, closeDone, lock, unlock ssa.Instruction
	forEach(findU(r.LCloseFn, func(ssa.Instruction) bool { return true }), func(in ssa.Instruction) {
		if isCall(in, "(*sync/atomic.Value).Store") || isCall(in, "(*sync/atomic.Bool).Store") {
			if fr, ok := asFieldAddr(in.(ssa.CallInstruction).Common().Args[0]); ok && fr.Field == r.accepting {
				store = in
			}
		}
		if isCall(in, "builtin.close") && isFieldLoad(in.(ssa.CallInstruction).Common().Args[0], r.LT, r.doneCh) {
			closeDone = in
		}
		if r.isConnLock(in, "lock") && lock == nil {
			lock = in
		}
		if r.isConnLock(in, "unlock") {
			unlock = in
		}
	})
	_ = unlock
	if store == nil || closeDone == nil || lock == nil {
		o.Undecide("accepting.Store / close(doneCh) / connLock.Lock not all found in listener Close")
	} else {
		o.Site(store.Pos(), "accepting.Store(false)")
		o.Site(closeDone.Pos(), "close(doneCh)")
		o.Site(lock.Pos(), "connLock.Lock()")
		stored := strip(store.(ssa.CallInstruction).Common().Args[1])
		if !isConstBool(stored, false) {
			o.Fail(store.Pos(), "listener Close does not store false into the accepting flag")
		}
		if !domU(store, lock) {
			o.Fail(store.Pos(), "the accepting flag is cleared after connLock was taken for the drain: a datagram can queue a conn after the drain")
		}
		for _, d := range ownDone {
			o.Site(d.Pos(), "own Done()")
			if !domU(lock, d) {
				o.Fail(d.Pos(), "the listener drops its own reference before taking connLock: the count can reach zero (socket closed) while the read loop is about to queue a conn that Accept will hand out")
			}
			if drainRecv != nil && reachU(posAfter(d), nil)[drainRecv] {
				o.Fail(d.Pos(), "the listener drops its own reference before the backlog is drained")
			}
			if r.holdsConnLock(la, d) {
				o.Fail(d.Pos(), "own Done() is executed inside the drain's critical section")
			}
		}
	}
	// close(doneCh) only inside the Once closure
	for _, f := range p.Funcs {
		if pkgOf(f) != "udp" {
			continue
		}
		for _, in := range findInstrs(f, func(x ssa.Instruction) bool {
			return isCall(x, "builtin.close") && isFieldLoad(x.(ssa.CallInstruction).Common().Args[0], r.LT, r.doneCh)
		}) {
			if !isIn(f, r.LCloseFn) {
				o.Fail(in.Pos(), "doneCh is closed outside the sync.Once closure (double close panics)")
			}
		}
	}
	// Accept has a case on doneCh that returns an error
	accOK := false
	for _, cm := range commsOfU(r.Accept) {
		if cm.Dir == types.RecvOnly && chanRole(cm.Chan) == "field "+r.LT+"."+r.doneCh && cm.Sel != nil {
			cs, _ := caseBlocks(cm.Sel)
			if blk := cs[cm.Index]; blk != nil {
				for _, in := range blk.Instrs {
					if isErrorReturn(in) {
						accOK = true
						o.Site(in.Pos(), "Accept fails after Close")
					}
				}
			}
		}
	}
	if !accOK {
		o.Fail(r.Accept.Pos(), "Accept has no branch that fails once the listener is closed")
	}
	// R7: Close closures run under Once; balance
	for _, f := range []*ssa.Function{r.LCloseFn, r.CCloseFn, r.getConn} {
		ob := c.Obl("R7", fname(f), "lock balance on every path", 1)
		la.lockBalance(ob, f)
	}
	r.readLoopEndRules(c, true, "R8")
	r.wrapperCloseRule(c)
	tickerStopRule(c, "udp", "R10")
	_ = sentConn
	_ = strings.Join
}

func isConstBool(v ssa.Value, want bool) bool {
	c, ok := v.(*ssa.Const)
	if !ok || c.Value == nil {
		return false
	}
	return c.Value.String() == fmt.Sprint(want)
}

// ---------------------------------------------------------------------------------
// C11
// ---------------------------------------------------------------------------------

// keyOrigin: a map key of the form X.String(): returns a description of X.
func (r *udpRoles) keyOrigin(k ssa.Value) (string, ssa.Value) {
	call, ok := k.(*ssa.Call)
	if !ok || !call.Call.IsInvoke() || call.Call.Method.Name() != "String" {
		return "?", nil
	}
	x := call.Call.Value
	if p, ok := x.(*ssa.Parameter); ok {
		return "param " + p.Name(), x
	}
	if fr, ok := asFieldLoad(x); ok {
		return "field " + fr.SName + "." + fr.Field, fr.Base
	}
	return "other", x
}

func runC11(c *Ctx) {
	p := c.P
	r := udpAnchors(c)
	if r == nil {
		return
	}
	la := computeLocksets(p)
	G := r.getConn
	sel, okBlk, _, sentConn := r.backlogSend()

	// R1 key agreement
	o := c.Obl("R1", r.LT+"."+r.conns, "lookup, insert and both deletes on the connection table use String() of the remote address of the same datagram / connection", 4)
	var lookupAddr, insertAddr ssa.Value
	for _, f := range p.Funcs {
		if pkgOf(f) != "udp" {
			continue
		}
		instrsOf(f, func(in ssa.Instruction) {
			switch x := in.(type) {
			case *ssa.Lookup:
				if isFieldLoad(x.X, r.LT, r.conns) {
					d, v := r.keyOrigin(x.Index)
					o.Site(in.Pos(), "lookup key %s.String() in %s", d, fname(f))
					if isIn(f, G) {
						lookupAddr = resolveParam(v)
					}
					if !(strings.HasPrefix(d, "param ") || strings.HasPrefix(d, "other")) || !isIn(f, G) {
						o.Fail(in.Pos(), "table lookup in %s is not keyed by the datagram's remote address", fname(f))
					}
				}
			case *ssa.MapUpdate:
				if isFieldLoad(x.Map, r.LT, r.conns) {
					d, v := r.keyOrigin(x.Key)
					o.Site(in.Pos(), "insert key %s.String() in %s", d, fname(f))
					insertAddr = resolveParam(v)
					if !isIn(f, G) {
						o.Fail(in.Pos(), "connections are registered outside %s", fname(G))
					}
				}
			case *ssa.Call:
				if isCall(in, "builtin.delete") && isFieldLoad(x.Call.Args[0], r.LT, r.conns) {
					d, _ := r.keyOrigin(x.Call.Args[1])
					o.Site(in.Pos(), "delete key %s.String() in %s", d, fname(f))
					if d != "field "+r.CT+"."+r.cRAddr {
						o.Fail(in.Pos(), "table delete in %s is keyed by %s, not by the connection's own remote address", fname(f), d)
					}
				}
			}
		})
	}
	if lookupAddr == nil || insertAddr == nil || lookupAddr != insertAddr {
		o.Fail(G.Pos(), "lookup and insert in %s are not keyed by the same address value", fname(G))
	}
	// newConn stores that address as the conn's remote address and getConn passes it
	okStore := false
	instrsOfU(r.newConn, func(in ssa.Instruction) {
		if st, ok := in.(*ssa.Store); ok && isFieldStore(st, r.CT, r.cRAddr) {
			if _, isP := st.Val.(*ssa.Parameter); isP {
				okStore = true
				o.Site(in.Pos(), "newConn stores its address parameter as rAddr")
			}
		}
	})
	if !okStore {
		o.Fail(r.newConn.Pos(), "the new connection does not record the address it was created for")
	}
	instrsOfU(G, func(in ssa.Instruction) {
		if call, ok := in.(*ssa.Call); ok && call.Call.StaticCallee() == r.newConn {
			passes := false
			for _, a := range call.Call.Args {
				if sameOrigin(a, lookupAddr) {
					passes = true
				}
			}
			if !passes {
				o.Fail(in.Pos(), "the new connection is created for another address than the one looked up")
			}
		}
	})

	// R2 the datagram goes to the conn returned for its own address
	o = c.Obl("R2", fname(r.dispatch), "the datagram is written into the buffer of the connection returned for its own address; address and payload come from the same read (same batch index)", 2)
	D := r.dispatch
	var gcCall *ssa.Call
	instrsOfU(D, func(in ssa.Instruction) {
		if call, ok := in.(*ssa.Call); ok && call.Call.StaticCallee() == G {
			gcCall = call
		}
	})
	nW := 0
	instrsOfU(D, func(in ssa.Instruction) {
		if !isCall(in, "(*packetio.Buffer).Write") {
			return
		}
		nW++
		call := in.(*ssa.Call)
		o.Site(in.Pos(), "buffer.Write in %s", fname(D))
		fr, ok := asFieldLoad(call.Call.Args[0])
		okConn := ok && fr.SName == r.CT && fr.Field == r.cBuffer
		if okConn {
			ex, isEx := fr.Base.(*ssa.Extract)
			okConn = isEx && sameOrigin(ex.Tuple, ssa.Value(gcCall)) && ex.Index == 0
		}
		if !okConn {
			o.Fail(in.Pos(), "the datagram is written to a buffer that is not the one of the conn returned by %s for this datagram", fname(G))
		}
		if gcCall != nil {
			if len(D.Params) < 3 || !sameOrigin(gcCall.Call.Args[1], ssa.Value(D.Params[1])) || !sameOrigin(call.Call.Args[1], ssa.Value(D.Params[2])) {
				o.Fail(in.Pos(), "address looked up and payload written are not the dispatcher's own (addr, buf) pair")
			}
		}
		// only if ok and no error
		if gcCall != nil && !hasFact(in, func(ft fact) bool {
			return boolFact(ft, func(v ssa.Value) bool {
				ex, ok := v.(*ssa.Extract)
				return ok && sameOrigin(ex.Tuple, ssa.Value(gcCall)) && ex.Index == 1 && isBoolType(ex.Type())
			}, true) || nilFact(ft, func(v ssa.Value) bool {
				// no ok result: the conn itself says whether there is one
				ex, ok := v.(*ssa.Extract)
				return ok && sameOrigin(ex.Tuple, ssa.Value(gcCall)) && ex.Index == 0
			}, false)
		}) {
			o.Fail(in.Pos(), "the datagram is written although %s did not report a usable conn", fname(G))
		}
	})
	if nW != 1 {
		o.Fail(D.Pos(), "expected exactly one buffer write per dispatched datagram, found %d", nW)
	}
	// the receive buffers of every read path have the one receive size of the package (a datagram up to that size
	// arrives whole whichever path reads it)
	{
		ob := c.Obl("R2b", "udp.receive-buffers", "every read path receives into buffers of the same constant size, the largest byte-slice size constant of the package's read paths (the receive MTU): batch and plain mode deliver the same datagrams unabridged", 1)
		sizes := map[*ssa.Function][]int64{}
		var all []int64
		// a reader that only dispatches (the per-batch loop extracted into a helper) receives into the buffers
		// its static callers allocate: those callers are scanned on its behalf
		type scanPair struct{ key, scan *ssa.Function }
		var pairs []scanPair
		for _, rd := range r.readers {
			pairs = append(pairs, scanPair{rd, rd})
		}
		for _, rd := range r.readers {
			allocs := false
			instrsOfU(rd, func(in ssa.Instruction) {
				if _, ok := in.(*ssa.MakeSlice); ok {
					allocs = true
				}
			})
			if allocs {
				continue
			}
			for _, e := range p.CG().In[rd] {
				if e.Kind == "static" && e.From != rd && e.From != r.readLoop && inModule(e.From) {
					pairs = append(pairs, scanPair{rd, e.From})
				}
			}
		}
		for _, sp := range pairs {
			rd := sp.key
			instrsOfU(sp.scan, func(in ssa.Instruction) {
				var k int64
				switch mk := in.(type) {
				case *ssa.MakeSlice:
					sl, ok := mk.Type().Underlying().(*types.Slice)
					if !ok {
						return
					}
					if bt, ok := sl.Elem().Underlying().(*types.Basic); !ok || bt.Kind() != types.Byte {
						return
					}
					kk, isC := constInt(mk.Len)
					if !isC {
						// a slab cut into equal shares: every use is a slice data[lo : lo+K] of constant width K
						slab := true
						var widths []int64
						var shares []*ssa.Slice
						if refs := mk.Referrers(); refs != nil {
							for _, rf := range *refs {
								sl, isSl := rf.(*ssa.Slice)
								if _, isDbg := rf.(*ssa.DebugRef); isDbg {
									continue
								}
								if !isSl || sl.X != ssa.Value(mk) || sl.High == nil {
									slab = false
									continue
								}
								lo := linConst(0)
								if sl.Low != nil {
									lo = linOf(sl.Low, nil)
								}
								w := linOf(sl.High, nil).add(lo, -1)
								if !w.OK || len(w.Coef) != 0 {
									slab = false
									continue
								}
								widths = append(widths, w.K)
								shares = append(shares, sl)
							}
						}
						if slab && len(shares) > 0 {
							for i, sl := range shares {
								if isPayloadBuffer(sl) {
									ob.Site(sl.Pos(), "receive buffer of %d bytes (share of a slab) in %s", widths[i], fname(rd))
									sizes[rd] = append(sizes[rd], widths[i])
									all = append(all, widths[i])
								}
							}
							return
						}
						if !isPayloadBuffer(mk) {
							return
						}
						ob.Fail(in.Pos(), "a receive buffer of %s has a size that is not a constant", fname(rd))
						return
					}
					k = kk
				case *ssa.Alloc:
					// make([]byte, constant) is an array allocation that is sliced
					pt, ok := mk.Type().Underlying().(*types.Pointer)
					if !ok || mk.Comment != "makeslice" {
						return
					}
					arr, ok := pt.Elem().Underlying().(*types.Array)
					if !ok {
						return
					}
					if bt, ok := arr.Elem().Underlying().(*types.Basic); !ok || bt.Kind() != types.Byte {
						return
					}
					k = arr.Len()
				default:
					return
				}
				if !isPayloadBuffer(in.(ssa.Value)) {
					return // e.g. the out-of-band buffer of a batch message
				}
				ob.Site(in.Pos(), "receive buffer of %d bytes in %s", k, fname(rd))
				sizes[rd] = append(sizes[rd], k)
				all = append(all, k)
			})
		}
		want := int64(-1)
		if sp := p.SPkgs["udp"]; sp != nil {
			if nc, ok := sp.Members["receiveMTU"].(*ssa.NamedConst); ok {
				if k, isC := constInt(nc.Value); isC {
					want = k
				}
			}
		}
		for _, k := range all {
			if want < 0 || k > want {
				if want < 0 {
					want = k
				}
			}
		}
		for _, rd := range r.readers {
			if len(sizes[rd]) == 0 {
				ob.Undecide("no receive buffer allocation found in %s", fname(rd))
			}
			for _, k := range sizes[rd] {
				if k != want {
					ob.Fail(rd.Pos(), "%s receives into buffers of %d bytes, the package's receive size is %d: larger datagrams are truncated on this path only", fname(rd), k, want)
				}
			}
		}
	}
	// R2c every datagram a read returned is dispatched: inside the innermost loop around a dispatch call no
	// iteration gets back to the loop head without passing the call (an empty datagram, a slot with any field
	// value, is a received datagram; only the failure edge of the read leaves the loop, see R9)
	{
		oc := c.Obl("R2c", "udp.readers", "every datagram a read returned is dispatched: in the innermost loop around the dispatch call every iteration passes the call (no message of a batch, and no datagram of the plain path, is skipped)", 1)
		for _, rd := range r.readers {
			for _, b := range rd.Blocks {
				for _, in := range b.Instrs {
					call, ok := in.(*ssa.Call)
					if !ok || call.Call.StaticCallee() != D {
						continue
					}
					// innermost loop head: the dominator of b closest to it that has a back edge from a block b reaches
					var head *ssa.BasicBlock
					var tails []*ssa.BasicBlock
					for h := b; h != nil && head == nil; h = h.Idom() {
						for _, t := range h.Preds {
							if !h.Dominates(t) {
								continue
							}
							// t is in the loop of h; b belongs to that loop if b reaches t without passing h
							seen := map[*ssa.BasicBlock]bool{h: true}
							var dfs func(x *ssa.BasicBlock) bool
							dfs = func(x *ssa.BasicBlock) bool {
								if x == t {
									return true
								}
								if seen[x] {
									return false
								}
								seen[x] = true
								for _, s := range x.Succs {
									if dfs(s) {
										return true
									}
								}
								return false
							}
							if b == h || dfs(b) {
								head = h
							}
						}
						if head != nil {
							for _, t := range h.Preds {
								if h.Dominates(t) {
									tails = append(tails, t)
								}
							}
						}
					}
					if head == nil {
						oc.Site(in.Pos(), "dispatch call in %s outside any loop of that function", fname(rd))
						continue
					}
					oc.Site(in.Pos(), "dispatch call in %s, innermost loop head block %d, %d back edge(s)", fname(rd), head.Index, len(tails))
					for _, t := range tails {
						if !(b == t || b.Dominates(t)) {
							oc.Fail(in.Pos(), "an iteration of the loop around the dispatch call in %s can return to the loop head without dispatching (block %d reaches the back edge from block %d past the call): a datagram the read returned is skipped", fname(rd), head.Index, t.Index)
						}
					}
				}
			}
		}
	}
	for _, rd := range r.readers {
		instrsOfU(rd, func(in ssa.Instruction) {
			call, ok := in.(*ssa.Call)
			if !ok || call.Call.StaticCallee() != D {
				return
			}
			addr, buf := call.Call.Args[1], call.Call.Args[2]
			o.Site(in.Pos(), "dispatch call in %s", fname(rd))
			// single read: addr is extract #1 of ReadFrom(x), buf is x[:n] with n extract #0 of the same call
			if ex, ok := addr.(*ssa.Extract); ok {
				sl, ok2 := buf.(*ssa.Slice)
				rf, _ := origin(ex.Tuple).(*ssa.Call)
				if !ok2 || rf == nil || !rf.Call.IsInvoke() || rf.Call.Method.Name() != "ReadFrom" {
					o.Fail(in.Pos(), "address/payload pairing of the single-read path not recognised")
					return
				}
				hi, _ := origin(sl.High).(*ssa.Extract)
				if hi == nil || hi.Tuple != ex.Tuple || sl.X != rf.Call.Args[0] {
					o.Fail(in.Pos(), "payload and address do not come from the same ReadFrom call / buffer")
				}
				return
			}
			// a loop that reads once before and once at the end of each round (for ; err == nil; n, addr, err = read()):
			// address and length are phis of the two reads, edge by edge from the same call on the same buffer
			if pa, ok := addr.(*ssa.Phi); ok {
				if sl, ok2 := buf.(*ssa.Slice); ok2 {
					if pn, ok3 := sl.High.(*ssa.Phi); ok3 && pn.Block() == pa.Block() && len(pn.Edges) == len(pa.Edges) {
						okAll := true
						for i := range pa.Edges {
							ea, isA := pa.Edges[i].(*ssa.Extract)
							en, isN := pn.Edges[i].(*ssa.Extract)
							if !isA || !isN || ea.Tuple != en.Tuple {
								okAll = false
								break
							}
							rf, _ := ea.Tuple.(*ssa.Call)
							if rf == nil || !rf.Call.IsInvoke() || rf.Call.Method.Name() != "ReadFrom" || sl.X != rf.Call.Args[0] {
								okAll = false
								break
							}
						}
						if okAll {
							return
						}
					}
				}
			}
			// batch read: msgs[i].Addr, msgs[i].Buffers[0][:msgs[i].N] with the same i
			idxOf := func(v ssa.Value) ssa.Value {
				var found ssa.Value
				derivesFrom(v, func(x ssa.Value) bool {
					if ia, ok := x.(*ssa.IndexAddr); ok {
						if _, isMsg := ia.X.Type().Underlying().(*types.Slice); isMsg && strings.Contains(ia.X.Type().String(), "Message") {
							found = ia.Index
							return true
						}
					}
					return false
				}, false)
				return found
			}
			ia, ib := idxOf(addr), idxOf(buf)
			var in2 ssa.Value
			if sl, ok := buf.(*ssa.Slice); ok && sl.High != nil {
				in2 = idxOf(sl.High)
			}
			if ia == nil || ib == nil || in2 == nil || ia != ib || ia != in2 {
				o.Fail(in.Pos(), "batch path: address, payload and length are not taken from the same message index")
			}
		})
	}

	// R3 registration only on the success edge of the enqueue, after accepting + filter, under the lock
	o = c.Obl("R3", fname(G), "a conn is registered only on the success edge of the non-blocking enqueue, after the accepting test and the accept filter's true edge, under connLock, and it is the conn that was queued", 1)
	nIns := 0
	var registered []ssa.Value
	forEach(findU(G, func(ssa.Instruction) bool { return true }), func(in ssa.Instruction) {
		mu, ok := in.(*ssa.MapUpdate)
		if !ok || !isFieldLoad(mu.Map, r.LT, r.conns) {
			return
		}
		nIns++
		o.Site(in.Pos(), "conns[key] = conn held=%s", la.heldAt(in))
		if !r.holdsConnLock(la, in) {
			o.Fail(in.Pos(), "registration outside connLock")
		}
		// path by path (helpers inlined): the registration follows a select whose send case was taken, and the value
		// registered is the value sent (the enqueue may sit in a helper that reports success as a boolean)
		onSuccess, sameConn := false, false
		if ups, okU := enumIterPathsU(G, 20000); okU {
			onSuccess, sameConn = true, true
			seenPath := false
			for pi := range ups {
				pt := &ups[pi]
				idx := pt.indexOf(in)
				if idx < 0 {
					continue
				}
				seenPath = true
				sentOK, sameOK := false, false
				for j, x := range pt.Instrs[:idx] {
					sl, isSel := x.(*ssa.Select)
					if !isSel {
						continue
					}
					k := selCaseOnPathAt(pt, sl, j)
					if k < 0 || k >= len(sl.States) || sl.States[k].Dir != types.SendOnly {
						continue
					}
					if fr, ok := asFieldLoad(pt.valueAt(sl.States[k].Chan, j)); ok && fr.SName == r.LT && fr.Field == r.acceptCh {
						sentOK = true
						if strip(pt.valueAt(sl.States[k].Send, j)) == strip(pt.valueAt(mu.Value, idx)) {
							sameOK = true
						}
					}
				}
				if !sentOK {
					onSuccess = false
				}
				if !sameOK {
					sameConn = false
				}
			}
			if !seenPath {
				onSuccess, sameConn = false, false
			}
		}
		if !onSuccess && (okBlk == nil || !(okBlk == in.Block() || okBlk.Dominates(in.Block()))) {
			o.Fail(in.Pos(), "registration is not on the success edge of the enqueue: a refused/overflowing datagram creates a connection nobody can accept")
		}
		if mu.Value != sentConn && !sameConn {
			o.Fail(in.Pos(), "the registered conn is not the one offered to Accept")
		}
		if sameConn {
			registered = append(registered, mu.Value)
		}
		if !hasFact(in, func(ft fact) bool { return r.acceptingFact(ft, true) }) {
			o.Fail(in.Pos(), "registration is not on the accepting edge")
		}
		isLookupOK := func(v ssa.Value) bool {
			ex, ok := v.(*ssa.Extract)
			if !ok || ex.Index != 1 {
				return false
			}
			lk, ok := origin(ex.Tuple).(*ssa.Lookup)
			return ok && isFieldLoad(lk.X, r.LT, r.conns)
		}
		notFound := hasFact(in, func(ft fact) bool { return boolFact(ft, isLookupOK, false) })
		if !notFound {
			// the comma-ok result kept in a named result or local cell: the test as seen on each path
			okAll, decided := everyUnitPathTo(G, in, func(conds []fact) bool {
				for _, ft := range conds {
					if boolFact(ft, isLookupOK, false) {
						return true
					}
				}
				return false
			})
			notFound = okAll && decided
		}
		if !notFound {
			o.Fail(in.Pos(), "registration is not on the not-found edge of the table lookup: a second connection can be registered for a remote whose connection is still in the table (Close of the old one then removes the new entry)")
		}
		// filter: every call of the accept filter must dominate-or-skip: if the filter is called its true edge must hold
		instrsOfU(G, func(fi ssa.Instruction) {
			call, ok := fi.(*ssa.Call)
			if !ok || call.Call.IsInvoke() || call.Call.StaticCallee() != nil {
				return
			}
			if _, isB := call.Call.Value.(*ssa.Builtin); isB {
				return
			}
			if fr, ok := asFieldLoad(call.Call.Value); ok && fr.SName == r.LT {
				// dynamic call of a func-typed field = the accept filter
				if canReach(posAfter(fi), in, nil) {
					cut := []cfgEdge{}
					for _, rf := range *call.Referrers() {
						if iff, ok := rf.(*ssa.If); ok {
							cut = append(cut, cfgEdge{iff.Block(), iff.Block().Succs[1]})
						}
					}
					if len(cut) == 0 {
						o.Fail(fi.Pos(), "the accept filter's verdict is ignored")
					} else {
						// registration must be unreachable from the filter's false edge
						for _, e := range cut {
							if canReach(blockStart(e.to), in, nil) && len(e.to.Preds) == 1 {
								o.Fail(fi.Pos(), "a connection is registered although the accept filter refused the datagram")
							}
						}
					}
				}
			}
		})
	})
	if nIns != 1 {
		o.Fail(G.Pos(), "expected exactly one registration site, found %d", nIns)
	}
	// with a filter configured, no path registers a conn without having asked it: every path to the registration
	// has found the filter field nil or the filter's verdict true (a filter skipped for some datagrams - empty
	// ones, say - lets refused remotes in)
	{
		filterField := ""
		instrsOfU(G, func(fi ssa.Instruction) {
			call, ok := fi.(*ssa.Call)
			if !ok || call.Call.IsInvoke() || call.Call.StaticCallee() != nil {
				return
			}
			if fr, ok := asFieldLoad(call.Call.Value); ok && fr.SName == r.LT {
				filterField = fr.Field
			}
		})
		if filterField != "" {
			forEach(findU(G, func(ssa.Instruction) bool { return true }), func(in ssa.Instruction) {
				mu, ok := in.(*ssa.MapUpdate)
				if !ok || !isFieldLoad(mu.Map, r.LT, r.conns) {
					return
				}
				okAll, decided := everyUnitPathTo(G, in, func(conds []fact) bool {
					for _, ft := range conds {
						if nilFact(ft, func(v ssa.Value) bool { return isFieldLoad(v, r.LT, filterField) }, true) {
							return true
						}
						if boolFact(ft, func(v ssa.Value) bool {
							call, ok := v.(*ssa.Call)
							if !ok || call.Call.IsInvoke() || call.Call.StaticCallee() != nil {
								return false
							}
							fr, ok := asFieldLoad(call.Call.Value)
							return ok && fr.SName == r.LT && fr.Field == filterField
						}, true) {
							return true
						}
					}
					return false
				})
				if decided && !okAll {
					o.Fail(in.Pos(), "a conn can be registered on a path that neither found the accept filter unset nor obtained its consent: for some datagrams the filter is not consulted")
				}
			})
		}
	}
	if sel != nil && sel.Blocking {
		o.Fail(sel.Pos(), "the enqueue blocks (the read loop would stall under connLock)")
	}
	// a found conn is returned as is: the lookup's ok edge returns the looked-up conn
	retLeaves := returnedValuesU(G, 0)
	for _, v := range []int{0} {
		_ = v
		for _, e := range retLeaves {
			if isNilConst(e) {
				continue
			}
			isLook := false
			if ex, ok := e.(*ssa.Extract); ok {
				if lk, ok := origin(ex.Tuple).(*ssa.Lookup); ok && isFieldLoad(lk.X, r.LT, r.conns) {
					isLook = true
				}
			}
			for _, rg := range registered {
				if sameOrigin(e, rg) {
					isLook = true // the conn that was queued and registered on this path
				}
			}
			if !isLook && e != sentConn {
				o.Fail(e.Pos(), "%s returns a conn that is neither the registered one for this address nor the newly queued one", fname(G))
			}
		}
	}

	// R4 single dispatcher
	o = c.Obl("R4", fname(D), "datagrams are dispatched by a single goroutine (arrival order = write order): the dispatcher is reached only from the read loop, which is started once by the constructor", 2)
	cg := p.CG()
	for _, e := range cg.In[D] {
		o.Site(e.Site.Pos(), "called from %s (%s)", fname(e.From), e.Kind)
		if e.Kind != "static" {
			o.Fail(e.Site.Pos(), "the dispatcher is started as %s from %s: datagrams of one remote can overtake each other", e.Kind, fname(e.From))
		}
	}
	for _, rd := range r.readers {
		for _, e := range cg.In[rd] {
			if e.Kind != "static" || (e.From != r.readLoop && !(isPrivateHelper(e.From) && isIn(e.From, r.readLoop))) {
				o.Fail(e.Site.Pos(), "reader %s is invoked from %s (%s)", fname(rd), fname(e.From), e.Kind)
			}
		}
	}
	nGo := 0
	for _, e := range cg.In[r.readLoop] {
		o.Site(e.Site.Pos(), "read loop started from %s (%s)", fname(e.From), e.Kind)
		fromCtor := e.From == r.Listen
		if !fromCtor && isPrivateHelper(e.From) && isIn(e.From, r.Listen) {
			// a start helper of the constructor: called from the constructor only, once, outside loops
			ins := cg.In[e.From]
			fromCtor = len(ins) == 1 && ins[0].Kind == "static" && ins[0].From == r.Listen && !inLoop(ins[0].Site)
		}
		if e.Kind == "go" && fromCtor {
			nGo++
			// not inside a loop
			if inLoop(e.Site) {
				o.Fail(e.Site.Pos(), "the read loop is started inside a loop")
			}
		} else {
			o.Fail(e.Site.Pos(), "the read loop is also invoked from %s", fname(e.From))
		}
	}
	if nGo != 1 {
		o.Fail(r.readLoop.Pos(), "the read loop must be started exactly once by the constructor (found %d go statements)", nGo)
	}
	// no go statement on the dispatch path
	for _, f := range append([]*ssa.Function{D, G}, r.readers...) {
		instrsOf(f, func(in ssa.Instruction) {
			if _, ok := in.(*ssa.Go); ok {
				o.Fail(in.Pos(), "%s starts a goroutine on the dispatch path", fname(f))
			}
		})
	}

	// R5 the reused read buffer is not retained
	o = c.Obl("R5", fname(D), "the reused receive buffer is copied, never retained, on its way into the connection's buffer", 1)
	// the user-supplied accept filter (a func-typed field called dynamically) is trusted to be a predicate
	for _, s := range retainedBy(p, D, 2, func(name string) bool { return name == "dynamic" }) {
		o.Fail(s.In.Pos(), "the receive buffer is retained: %s", s.Why)
		for _, ch := range s.Chain {
			o.Note("via %s", ch)
		}
	}
	o.Site(D.Pos(), "taint of %s followed through %s and packetio.Buffer.Write", D.Params[2].Name(), fname(G))

	// R6 Conn.Close unregisters its own key under the lock; Accept returns the queued conn
	o = c.Obl("R6", fname(r.CClose), "Conn.Close removes the connection's own key from the table under connLock (a later datagram creates a fresh connection)", 1)
	found := false
	forEach(findU(r.CCloseFn, func(ssa.Instruction) bool { return true }), func(in ssa.Instruction) {
		if isCall(in, "builtin.delete") && isFieldLoad(in.(ssa.CallInstruction).Common().Args[0], r.LT, r.conns) {
			found = true
			o.Site(in.Pos(), "delete under %s", la.heldAt(in))
			if !r.holdsConnLock(la, in) {
				o.Fail(in.Pos(), "delete outside connLock")
			}
			d, base := r.keyOrigin(in.(ssa.CallInstruction).Common().Args[1])
			if d != "field "+r.CT+"."+r.cRAddr {
				o.Fail(in.Pos(), "Conn.Close deletes key %s, not its own remote address", d)
			}
			_ = base
		}
	})
	if !found {
		o.Fail(r.CCloseFn.Pos(), "Conn.Close does not unregister the connection")
	}
	if ok, bad := mustPassU(entryPos(r.CCloseFn), isReturn, func(in ssa.Instruction) bool {
		return isCall(in, "builtin.delete") && isFieldLoad(in.(ssa.CallInstruction).Common().Args[0], r.LT, r.conns)
	}); !ok {
		o.Fail(bad.Pos(), "Conn.Close can return without unregistering")
	}

	// R7 table accesses only in the three owners (getConn, listener Close, Conn Close): no cached routing state elsewhere
	o = c.Obl("R7", r.LT+"."+r.conns, "routing state lives only in the table: readers keep no per-remote connection cache across datagrams (every datagram is looked up)", 1)
	for _, rd := range append([]*ssa.Function{D}, r.readers...) {
		o.Site(rd.Pos(), "%s", fname(rd))
		instrsOfU(rd, func(in ssa.Instruction) {
			// a *Conn value flowing around a loop (phi of *Conn) in a reader, or a buffer write outside the dispatcher
			if ph, ok := in.(*ssa.Phi); ok && typeName(ph.Type()) == r.CT && rd != D {
				o.Fail(in.Pos(), "%s carries a connection across loop iterations (a cache that is not invalidated by Close)", fname(rd))
			}
			if isCall(in, "(*packetio.Buffer).Write") && rd != D {
				o.Fail(in.Pos(), "%s writes into a connection buffer without going through the table lookup", fname(rd))
			}
		})
	}
	for _, f := range []*ssa.Function{G, D} {
		ob := c.Obl("R8", fname(f), "lock balance on every path", 1)
		la.lockBalance(ob, f)
	}
	r.readLoopEndRules(c, false, "R9")
	// byte-identical, in-order delivery inside a connection is the packet buffer's job: its integrity rules (C06) are part of this property
	c.RulePrefix = "B."
	runC06(c)
	c.RulePrefix = ""
}

func phiLeaves(v ssa.Value) []ssa.Value {
	seen := map[ssa.Value]bool{}
	var out []ssa.Value
	var rec func(v ssa.Value)
	rec = func(v ssa.Value) {
		if seen[v] {
			return
		}
		seen[v] = true
		if ph, ok := v.(*ssa.Phi); ok {
			for _, e := range ph.Edges {
				rec(e)
			}
			return
		}
		out = append(out, v)
	}
	rec(v)
	return out
}

// inLoop: the instruction's block can reach itself.
func inLoop(in ssa.Instruction) bool {
	b := in.Block()
	seen := map[*ssa.BasicBlock]bool{}
	var walk func(x *ssa.BasicBlock) bool
	walk = func(x *ssa.BasicBlock) bool {
		for _, s := range x.Succs {
			if s == b {
				return true
			}
			if !seen[s] {
				seen[s] = true
				if walk(s) {
					return true
				}
			}
		}
		return false
	}
	return walk(b)
}

var _ = token.ADD

// isPayloadBuffer: the allocated bytes end up as the payload buffer of a receive call: handed to ReadFrom, or stored
// (possibly inside a [][]byte literal) into the Buffers field of a batch message.
func isPayloadBuffer(v ssa.Value) bool {
	seen := map[ssa.Value]bool{}
	var rec func(v ssa.Value, d int) bool
	rec = func(v ssa.Value, d int) bool {
		if v == nil || seen[v] || d > 8 {
			return false
		}
		seen[v] = true
		refs := v.Referrers()
		if refs == nil {
			return false
		}
		for _, rf := range *refs {
			switch x := rf.(type) {
			case *ssa.Slice:
				if rec(x, d+1) {
					return true
				}
			case *ssa.Store:
				if x.Val != v {
					continue
				}
				switch a := x.Addr.(type) {
				case *ssa.FieldAddr:
					if st := structOf(a.X.Type()); st != nil && st.Field(a.Field).Name() == "Buffers" {
						return true
					}
				case *ssa.IndexAddr:
					if rec(a.X, d+1) { // element of a literal that is stored on
						return true
					}
				case *ssa.Alloc:
					if rec(a, d+1) {
						return true
					}
				}
			case *ssa.UnOp:
				if x.Op == token.MUL && rec(x, d+1) {
					return true
				}
			case ssa.CallInstruction:
				if x.Common().IsInvoke() && (x.Common().Method.Name() == "ReadFrom" || x.Common().Method.Name() == "Read") {
					return true
				}
			case *ssa.Phi:
				if rec(x, d+1) {
					return true
				}
			}
		}
		return false
	}
	return rec(v, 0)
}

// pathNilTests lists the nil comparisons decided on the path before index upto: the compared value as seen on the
// path (helper parameters bound, phis resolved) and whether the path took the "is nil" edge.
type pathNilTest struct {
	V     ssa.Value
	IsNil bool
	At    int
}

func pathNilTests(p *upath, upto int) []pathNilTest {
	var out []pathNilTest
	ci := 0
	for j, in := range p.Instrs {
		if upto >= 0 && j >= upto {
			break
		}
		if _, isIf := in.(*ssa.If); !isIf {
			continue
		}
		my := ci
		ci++
		if my >= len(p.Conds) {
			break
		}
		ft := p.Conds[my]
		v, eq, ok := nilCmpOf(ft.Cond)
		if !ok {
			continue
		}
		out = append(out, pathNilTest{p.valueAt(v, j), eq == ft.Val, j})
	}
	return out
}

// socketReadErr: v is the error result of a read of the shared socket (a method named Read* that is not the
// package's own, returning an error last).
func socketReadErr(v ssa.Value) (*ssa.Call, bool) {
	ex, ok := v.(*ssa.Extract)
	if !ok {
		return nil, false
	}
	call, ok := ex.Tuple.(*ssa.Call)
	if !ok {
		return nil, false
	}
	name := ""
	if call.Call.IsInvoke() {
		name = call.Call.Method.Name()
	} else if sc := call.Call.StaticCallee(); sc != nil && pkgOf(sc) != "udp" {
		name = sc.Name()
	}
	if !strings.HasPrefix(name, "Read") {
		return nil, false
	}
	res := call.Call.Signature().Results()
	if res.Len() == 0 || ex.Index != res.Len()-1 || res.At(res.Len()-1).Type().String() != "error" {
		return nil, false
	}
	return call, true
}

// readLoopEndRules: the read loop of the listener (readLoop with read/readBatch inlined) ends only on the failure edge
// of a read of the socket (C11: a listener that was closed keeps delivering to its accepted conns; no other
// condition ends the loop), and on every such path the failing read's error - known not to be nil - is stored in
// the field Accept reports after the loop's completion channel is closed (C12: Accept fails, never (nil, nil)).
func (r *udpRoles) readLoopEndRules(c *Ctx, wantStore bool, id string) {
	title := "the read loop returns only on the failure edge of a read of the shared socket (closing the listener, a refused or overflowing datagram do not end it: accepted conns keep receiving)"
	if wantStore {
		title = "a failed Accept reports an error: without a conn Accept returns a sentinel or the read loop's error, which every terminating path of the read loop stores - the failing read's error, not nil - before the completion channel Accept waits on is closed"
	}
	o := c.Obl(id, fname(r.readLoop), title, 2)
	saved := unitExclude
	ex := map[*ssa.Function]bool{}
	for f := range saved {
		ex[f] = true
	}
	for _, rd := range r.readers {
		delete(ex, rd)
	}
	unitExclude = ex
	defer func() { unitExclude = saved }()

	// the error field Accept reports: the value returned without a conn that is loaded from a listener field
	errField := ""
	var doneField string
	accPaths, aok := enumPathsU(r.Accept, 4000)
	if !aok {
		o.Undecide("paths of Accept not enumerable")
		return
	}
	fieldOfLoad := func(v ssa.Value) string {
		v = origin(v)
		if ex, ok := v.(*ssa.Extract); ok {
			v = origin(ex.Tuple)
		}
		if ta, ok := v.(*ssa.TypeAssert); ok {
			v = origin(ta.X)
		}
		if call, ok := v.(*ssa.Call); ok && callName(call) == "(*sync/atomic.Value).Load" {
			if fr, ok := asFieldAddr(call.Call.Args[0]); ok && fr.SName == r.LT {
				return fr.Field
			}
		}
		if fr, ok := asFieldLoad(v); ok && fr.SName == r.LT {
			return fr.Field
		}
		return ""
	}
	// the completion channel: closed (deferred) by the read loop
	var closeDone ssa.Instruction
	deferred := false
	instrsOfU(r.readLoop, func(in ssa.Instruction) {
		ci, ok := in.(ssa.CallInstruction)
		if !ok {
			return
		}
		if b, ok := ci.Common().Value.(*ssa.Builtin); !ok || b.Name() != "close" {
			return
		}
		if fr, ok := asFieldLoad(ci.Common().Args[0]); ok && fr.SName == r.LT {
			doneField = fr.Field
			closeDone = in
			_, deferred = in.(*ssa.Defer)
		}
	})
	if wantStore {
		for i := range accPaths {
			p := &accPaths[i]
			ret, ok := p.last().(*ssa.Return)
			if !ok || len(ret.Results) != 2 {
				continue
			}
			idx := len(p.Instrs) - 1
			conn := strip(p.valueAt(ret.Results[0], idx))
			ev := p.valueAt(ret.Results[1], idx)
			if !isNilConst(conn) {
				continue
			}
			o.Site(ret.Pos(), "Accept fails")
			if isNilConst(strip(ev)) {
				// "if v, ok := l.errRead.Load().(error); ok { err = v }": the edge on which nothing was stored is
				// the one the read loop's side of this rule excludes; the field is checked as on the other edge
				viaUnset := ""
				ci := 0
				for j, in := range p.Instrs {
					if _, isIf := in.(*ssa.If); !isIf {
						continue
					}
					my := ci
					ci++
					if my >= len(p.Conds) {
						break
					}
					ft := p.Conds[my]
					cv, val := ft.Cond, ft.Val
					if u, isU := cv.(*ssa.UnOp); isU && u.Op == token.NOT {
						cv, val = u.X, !val
					}
					ex, isEx := p.valueAt(cv, j).(*ssa.Extract)
					if !isEx || ex.Index != 1 || val {
						continue
					}
					if ta, isTA := ex.Tuple.(*ssa.TypeAssert); isTA && ta.CommaOk {
						if f := fieldOfLoad(ta.X); f != "" {
							viaUnset = f
						}
					}
				}
				if viaUnset == "" {
					o.Fail(ret.Pos(), "Accept returns neither a conn nor an error")
					continue
				}
				ev = nil
				errField = viaUnset
			}
			if ev != nil && (isSentinelErr(c.P, ev) || neverNilCall(strip(ev))) {
				continue
			}
			f := errField
			if ev != nil {
				f = fieldOfLoad(ev)
			}
			if f == "" {
				o.Fail(ret.Pos(), "Accept fails with a value that is not known to be an error (not a sentinel, not the read loop's stored error): it may be nil")
				continue
			}
			errField = f
			// the path has received from the read loop's completion channel
			recv := false
			for j, in := range p.Instrs {
				switch x := in.(type) {
				case *ssa.Select:
					k := selCaseOnPathAt(p, x, j)
					if k >= 0 && k < len(x.States) {
						if fr, ok := asFieldLoad(x.States[k].Chan); ok && fr.SName == r.LT && fr.Field == doneField && doneField != "" {
							recv = true
						}
					}
				case *ssa.UnOp:
					if x.Op == token.ARROW {
						if fr, ok := asFieldLoad(x.X); ok && fr.SName == r.LT && fr.Field == doneField && doneField != "" {
							recv = true
						}
					}
				}
			}
			if !recv {
				o.Fail(ret.Pos(), "Accept reports the read loop's error on a path that has not seen the read loop end: the error may still be unset (nil)")
			}
		}
		if errField != "" && closeDone == nil {
			o.Undecide("the completion channel of the read loop is not closed in %s", fname(r.readLoop))
			return
		}
	}
	paths, pok := enumIterPathsU(r.readLoop, 20000)
	if !pok {
		o.Undecide("paths of the read loop not enumerable")
		return
	}
	nRet := 0
	seenFail := map[token.Pos]bool{}
	for i := range paths {
		p := &paths[i]
		if p.Loop {
			continue
		}
		ret, ok := p.last().(*ssa.Return)
		if !ok {
			continue
		}
		nRet++
		var readErr ssa.Value
		var readCall *ssa.Call
		for _, t := range pathNilTests(p, -1) {
			if call, ok := socketReadErr(t.V); ok && !t.IsNil {
				readErr, readCall = t.V, call
			}
		}
		// the return as written: the last return instruction of the path before the loop function's own
		where := ret.Pos()
		for j := len(p.Instrs) - 1; j >= 0; j-- {
			if rr, ok := p.Instrs[j].(*ssa.Return); ok && rr.Pos().IsValid() {
				where = rr.Pos()
				if rr.Parent() != r.readLoop {
					break
				}
			}
		}
		if readErr == nil {
			if !wantStore && !seenFail[where] {
				seenFail[where] = true
				o.Fail(where, "the read loop can end on a path on which no read of the socket failed: datagrams for the accepted conns are no longer dispatched")
			}
			continue
		}
		o.Site(readCall.Pos(), "loop ends after the failing %s", callName(readCall))
		if !wantStore || errField == "" {
			continue
		}
		stored := false
		for j, in := range p.Instrs {
			if in == closeDone && !deferred && !stored {
				break
			}
			var val ssa.Value
			switch x := in.(type) {
			case *ssa.Call:
				if callName(x) == "(*sync/atomic.Value).Store" {
					if fr, ok := asFieldAddr(p.valueAt(x.Call.Args[0], j)); ok && fr.SName == r.LT && fr.Field == errField {
						val = x.Call.Args[1]
					}
				}
			case *ssa.Store:
				if fr, ok := asFieldAddr(p.valueAt(x.Addr, j)); ok && fr.SName == r.LT && fr.Field == errField {
					val = x.Val
				}
			}
			if val == nil {
				continue
			}
			sv := p.valueAt(strip(p.valueAt(val, j)), j)
			if sv == readErr || neverNilCall(strip(sv)) {
				stored = true
			} else {
				for _, t := range pathNilTests(p, j) {
					if t.V == sv && !t.IsNil {
						stored = true
					}
				}
			}
		}
		if !stored && !seenFail[where] {
			seenFail[where] = true
			o.Fail(where, "the read loop can end without having stored a non-nil error in %s.%s: an Accept woken by the end of the loop returns (nil, nil)", r.LT, errField)
		}
	}
	if nRet == 0 {
		o.Undecide("no terminating path of the read loop found")
	}
}

// isSentinelErr: v is the value of a package-level error variable that is initialised once with errors.New or
// fmt.Errorf and assigned nowhere else.
func isSentinelErr(p *Prog, v ssa.Value) bool {
	u, ok := origin(v).(*ssa.UnOp)
	if !ok || u.Op != token.MUL {
		return false
	}
	g, ok := u.X.(*ssa.Global)
	if !ok || g.Pkg == nil {
		return false
	}
	initFn := g.Pkg.Func("init")
	okInit := false
	for _, f := range p.Funcs {
		if f.Pkg != g.Pkg {
			continue
		}
		bad := false
		instrsOf(f, func(in ssa.Instruction) {
			st, ok := in.(*ssa.Store)
			if !ok || st.Addr != ssa.Value(g) {
				return
			}
			if f == initFn && neverNilCall(strip(st.Val)) {
				okInit = true
			} else {
				bad = true
			}
		})
		if bad {
			return false
		}
	}
	if !okInit && initFn != nil {
		instrsOf(initFn, func(in ssa.Instruction) {
			if st, ok := in.(*ssa.Store); ok && st.Addr == ssa.Value(g) && neverNilCall(strip(st.Val)) {
				okInit = true
			}
		})
	}
	return okInit
}

// wrapperCloseRule: a socket wrapper of this package that the constructor installs as the shared socket (the batch
// conn) closes the wrapped socket on every path of its Close: otherwise the port stays bound and the read loop,
// blocked in its read, never ends.
func (r *udpRoles) wrapperCloseRule(c *Ctx) {
	p := c.P
	var wrappers []types.Type
	instrsOfU(r.Listen, func(in ssa.Instruction) {
		st, ok := in.(*ssa.Store)
		if !ok {
			return
		}
		fr, ok := asFieldAddr(st.Addr)
		if !ok || fr.SName != r.LT || fr.Field != r.pConn {
			return
		}
		mi, ok := st.Val.(*ssa.MakeInterface)
		if !ok {
			return
		}
		t := mi.X.Type()
		if pt, ok := t.Underlying().(*types.Pointer); ok {
			if nt, ok := pt.Elem().(*types.Named); ok && nt.Obj().Pkg() != nil && shortPkg(nt.Obj().Pkg().Path()) == "udp" {
				wrappers = append(wrappers, t)
			}
		}
	})
	for _, wt := range wrappers {
		var closeFn *ssa.Function
		for _, f := range p.Funcs {
			if f.Name() == "Close" && f.Signature.Recv() != nil && types.Identical(f.Signature.Recv().Type(), wt) {
				closeFn = f
			}
		}
		if closeFn == nil {
			continue
		}
		o := c.Obl("R9", fname(closeFn), "the socket wrapper installed by the constructor closes the wrapped socket on every path of its Close (the port is released and the blocked read loop ends whatever the final flush did)", 1)
		seenSite := map[token.Pos]bool{}
		paths, ok := enumIterPathsU(closeFn, 20000)
		if !ok {
			o.Undecide("paths of %s not enumerable", fname(closeFn))
			continue
		}
		for i := range paths {
			pp := &paths[i]
			ret, isRet := pp.last().(*ssa.Return)
			if !isRet || pp.Loop {
				continue
			}
			closed := false
			for j, in := range pp.Instrs {
				ci, ok := in.(ssa.CallInstruction)
				if !ok {
					continue
				}
				if _, isGo := in.(*ssa.Go); isGo {
					continue
				}
				cm := ci.Common()
				var recv ssa.Value
				if cm.IsInvoke() && cm.Method.Name() == "Close" {
					recv = cm.Value
				} else if sc := cm.StaticCallee(); sc != nil && sc.Name() == "Close" && len(cm.Args) > 0 && sc != closeFn {
					recv = cm.Args[0]
				}
				if recv == nil {
					continue
				}
				rv := pp.valueAt(recv, j)
				for k := 0; k < 4; k++ {
					if st := strip(rv); st != rv {
						rv = pp.valueAt(st, j)
						continue
					}
					break
				}
				if fr, ok := asFieldLoad(rv); ok && derefNamed(fr.Base.Type()) == derefNamed(wt) {
					closed = true
					if !seenSite[in.Pos()] {
						seenSite[in.Pos()] = true
						o.Site(in.Pos(), "closes %s", fr.Field)
					}
				}
			}
			if !closed {
				where := ret.Pos()
				for j := len(pp.Instrs) - 1; j >= 0; j-- {
					if rr, ok := pp.Instrs[j].(*ssa.Return); ok && rr.Pos().IsValid() {
						where = rr.Pos()
						break
					}
				}
				o.Fail(where, "%s can return without having closed the wrapped socket", fname(closeFn))
			}
		}
	}
}

func derefNamed(t types.Type) string {
	if pt, ok := t.Underlying().(*types.Pointer); ok {
		t = pt.Elem()
	}
	if nt, ok := t.(*types.Named); ok {
		return nt.Obj().Name()
	}
	return t.String()
}

// isFreshBaseU: isFreshBase, also when the object reaches a private helper as an argument or comes out of a
// private helper that allocates it.
func isFreshBaseU(base ssa.Value, d int) bool {
	if isFreshBase(base) {
		return true
	}
	if d > 4 {
		return false
	}
	r := rootOf(base)
	if o := origin(r); o != r {
		return isFreshBaseU(o, d+1)
	}
	if call, ok := r.(*ssa.Call); ok {
		if h := helperCallee(call); h != nil && h.Signature.Results().Len() == 1 {
			rvs := returnedValues(h, 0)
			if len(rvs) == 0 {
				return false
			}
			for _, rv := range rvs {
				if !isFreshBaseU(rv, d+1) {
					return false
				}
			}
			return true
		}
	}
	return false
}

// tickerStopRule: stopping a ticker does not close its channel. A goroutine that blocks on the channel of a ticker
// held in a struct field never learns that another function stopped it: it stays blocked for good (the goroutine of
// the package is "left running" after everything was closed). Such a ticker may be stopped only by the function
// that receives from it.
func tickerStopRule(c *Ctx, pkg, id string) {
	p := c.P
	o := c.Obl(id, pkg+".tickers", "a ticker whose channel a goroutine of the package blocks on is stopped only by that goroutine itself (Stop does not close the channel: a receiver parked on it would never return)", 0)
	type use struct {
		fn *ssa.Function
		in ssa.Instruction
	}
	recv := map[string][]use{} // struct.field -> functions receiving from <field>.C
	stops := map[string][]use{}
	key := func(v ssa.Value) string {
		if fr, ok := asFieldLoad(v); ok {
			return fr.SName + "." + fr.Field
		}
		return ""
	}
	for _, f := range p.Funcs {
		if pkgOf(f) != pkg {
			continue
		}
		root := f
		for root.Parent() != nil {
			root = root.Parent()
		}
		instrsOf(f, func(in ssa.Instruction) {
			switch x := in.(type) {
			case *ssa.UnOp:
				if x.Op == token.ARROW {
					if fr, ok := asFieldLoad(x.X); ok && fr.SName == "time.Ticker" && fr.Field == "C" {
						if k := key(fr.Base); k != "" {
							recv[k] = append(recv[k], use{f, in})
						}
					}
				}
			case *ssa.Select:
				for _, st := range x.States {
					if st.Dir == types.RecvOnly {
						if fr, ok := asFieldLoad(st.Chan); ok && fr.SName == "time.Ticker" && fr.Field == "C" {
							if k := key(fr.Base); k != "" {
								recv[k] = append(recv[k], use{f, in})
							}
						}
					}
				}
			case ssa.CallInstruction:
				if sc := x.Common().StaticCallee(); sc != nil && fname(sc) == "(*time.Ticker).Stop" && len(x.Common().Args) > 0 {
					if k := key(x.Common().Args[0]); k != "" {
						stops[k] = append(stops[k], use{f, in})
					}
				}
			}
		})
	}
	for k, ss := range stops {
		for _, s := range ss {
			o.Site(s.in.Pos(), "Stop of %s in %s", k, fname(s.fn))
			for _, rc := range recv[k] {
				if rc.fn != s.fn {
					o.Fail(s.in.Pos(), "%s stops the ticker %s while %s blocks on its channel: Stop does not close the channel, the receiver never returns", fname(s.fn), k, fname(rc.fn))
				}
			}
		}
	}
}
