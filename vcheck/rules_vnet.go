package main

// vnet core: C13 (address uniqueness) and C01 (delivery).

import (
	"fmt"
	"go/token"
	"go/types"
	"sort"
	"strings"

	"golang.org/x/tools/go/ssa"
)

func vnetFn(c *Ctx, o **Obligation, recv, name string) *ssa.Function {
	f := c.P.Func("vnet", recv, name)
	if f == nil || len(f.Blocks) == 0 {
		if *o == nil {
			*o = c.Obl("R0", "vnet", "anchors of the virtual network are resolved", 1)
		}
		(*o).Undecide("vnet.%s.%s not found", recv, name)
		return nil
	}
	return f
}

// ---------------------------------------------------------------------------------
// C13
// ---------------------------------------------------------------------------------

func runC13(c *Ctx) {
	p := c.P
	var ao *Obligation
	assign := vnetFn(c, &ao, "Router", "assignIPAddress")
	addNIC := vnetFn(c, &ao, "Router", "addNIC")
	dial := vnetFn(c, &ao, "Net", "_dialUDP")
	assignPort := vnetFn(c, &ao, "Net", "assignPort")
	allocLocal := vnetFn(c, &ao, "Net", "allocateLocalAddr")
	insert := vnetFn(c, &ao, "udpConnMap", "insert")
	find := vnetFn(c, &ao, "udpConnMap", "find")
	del := vnetFn(c, &ao, "udpConnMap", "delete")
	cclose := vnetFn(c, &ao, "UDPConn", "Close")
	onClosed := vnetFn(c, &ao, "Net", "onClosed")
	netIn := vnetFn(c, &ao, "Net", "onInboundChunk")
	if ao != nil {
		return
	}
	vnetExclude(p, assign, addNIC, dial, assignPort, allocLocal, insert, find, del, cclose, onClosed, netIn)
	la := computeLocksets(p)
	// the ephemeral-port search: assignPort, or the function it forwards to with the same result (the search taking
	// the range as a value, assignPort kept as a thin wrapper for its callers)
	portSearch := map[*ssa.Function]bool{assignPort: true}
	if assignPort != nil {
		for _, rv := range returnedValues(assignPort, 0) {
			if ex, ok := rv.(*ssa.Extract); ok {
				if cl, ok := ex.Tuple.(*ssa.Call); ok {
					if sc := cl.Call.StaticCallee(); sc != nil && pkgOf(sc) == "vnet" && sc.Signature.Results().Len() == 2 {
						portSearch[sc] = true
					}
				}
			}
		}
	}
	isPortSearch := func(f *ssa.Function) bool { return f != nil && portSearch[f] }

	// R1 automatic address tested against the NIC table
	o := c.Obl("R1", fname(assign), "every automatically assigned address is returned on the not-present edge of a lookup of that very address in the NIC table (the key used at registration), under the router mutex held by the caller", 1)
	nOK := 0
	for _, in := range findInstrs(assign, func(in ssa.Instruction) bool { return isSuccessReturnOf(in, 1) }) {
		ret := in.(*ssa.Return)
		ip := retValAt(ret, 0)[0]
		if isNilConst(ip) {
			continue
		}
		nOK++
		free := hasFact(ret, func(ft fact) bool {
			return boolFact(ft, func(v ssa.Value) bool {
				ex, ok := v.(*ssa.Extract)
				if !ok || ex.Index != 1 {
					return false
				}
				lk, ok := origin(ex.Tuple).(*ssa.Lookup)
				if !ok || !isFieldLoad(lk.X, "vnet.Router", "nics") {
					return false
				}
				call, ok := origin(lk.Index).(*ssa.Call)
				return ok && callName(call) == "(net.IP).String" && (call.Call.Args[0] == ip || sameOrigin(call.Call.Args[0], ip))
			}, false)
		})
		o.Site(ret.Pos(), "returns %s (not-in-use edge: %v) entry lockset %s", ip.Name(), free, la.fns[assign].entry)
		if !free {
			o.Fail(ret.Pos(), "an automatically assigned address is returned without having been found absent from the NIC table: a host with that static address is silently cut off")
		}
	}
	if nOK == 0 {
		o.Fail(assign.Pos(), "the allocator never returns an address")
	}
	if !la.fns[assign].entry.hasOwner("vnet.Router") {
		o.Fail(assign.Pos(), "the allocator is not always called with the router mutex held (lookup and registration are not one critical section)")
	}
	// exhaustion reported
	exh := false
	for _, in := range findInstrs(assign, isErrorReturn) {
		exh = true
		o.Site(in.Pos(), "exhaustion error")
	}
	if !exh {
		o.Fail(assign.Pos(), "the allocator cannot report exhaustion")
	}
	// the host byte never wraps: the loop test bounds lastID below 255 before the increment
	for _, in := range findU(assign, func(in ssa.Instruction) bool { return isFieldStore(in, "vnet.Router", "lastID") }) {
		okB := hasFact(in, func(ft fact) bool {
			cm, ok := normCmp(ft.Cond, ft.Val)
			if !ok || cm.Op != token.LSS || !isFieldLoad(cm.X, "vnet.Router", "lastID") {
				return false
			}
			k, ok := constInt(cm.Y)
			return ok && k <= 254
		})
		if !okB {
			o.Fail(in.Pos(), "the host byte is advanced without the bound lastID < 0xfe: it wraps around and addresses are reused instead of reporting exhaustion")
		}
	}

	// R2 subnet test dominates registration
	o = c.Obl("R2", fname(addNIC), "an address is registered (and added to the interface) only on the edge where the router's subnet contains that very address; otherwise an error is returned", 1)
	nReg := 0
	for _, in := range findU(addNIC, func(in ssa.Instruction) bool {
		mu, ok := in.(*ssa.MapUpdate)
		return ok && isFieldLoad(mu.Map, "vnet.Router", "nics")
	}) {
		nReg++
		mu := in.(*ssa.MapUpdate)
		kc, _ := origin(mu.Key).(*ssa.Call)
		var ip ssa.Value
		if kc != nil && callName(kc) == "(net.IP).String" {
			ip = kc.Call.Args[0]
		}
		o.Site(in.Pos(), "nics[ip.String()] = nic")
		if ip == nil {
			o.Fail(in.Pos(), "the NIC table is not keyed by the address's String()")
			continue
		}
		if !hasFact(in, func(ft fact) bool {
			return boolFact(ft, func(v ssa.Value) bool {
				cl, ok := v.(*ssa.Call)
				return ok && callName(cl) == "(*net.IPNet).Contains" && cl.Call.Args[1] == ip && isFieldLoad(cl.Call.Args[0], "vnet.Router", "ipv4Net")
			}, true)
		}) {
			o.Fail(in.Pos(), "an address is registered without the subnet test on that address (automatic addresses can fall outside a narrow subnet)")
		}
		if !sameVal(mu.Value, addNIC.Params[1]) {
			o.Fail(in.Pos(), "the registered NIC is not the one being attached")
		}
		if !la.holdsOwner(in, "vnet.Router", true) {
			o.Fail(in.Pos(), "registration outside the router mutex")
		}
	}
	if nReg != 1 {
		o.Fail(addNIC.Pos(), "expected one registration site in addNIC, found %d", nReg)
	}
	// nics written nowhere else
	for _, f := range p.Funcs {
		if pkgOf(f) != "vnet" || isIn(f, addNIC) {
			continue
		}
		instrsOf(f, func(in ssa.Instruction) {
			if mu, ok := in.(*ssa.MapUpdate); ok && isFieldLoad(mu.Map, "vnet.Router", "nics") {
				o.Fail(in.Pos(), "the NIC table is also written in %s", fname(f))
			}
		})
	}

	// R3 bind
	o = c.Obl("R3", fname(dial), "a socket is created and inserted only after the address-ownership test and either a successful ephemeral search in 5000-5999 or the not-found edge of the conflict lookup; every caller holds the host mutex exclusively (search + insert are atomic)", 3)
	for _, in := range findU(dial, func(in ssa.Instruction) bool {
		return isPlainCall(in, "vnet.newUDPConn") || isPlainCall(in, "(*vnet.udpConnMap).insert")
	}) {
		o.Site(in.Pos(), "%s", callName(in.(ssa.CallInstruction)))
		if !hasFact(in, func(ft fact) bool {
			return boolFact(ft, func(v ssa.Value) bool { cl, ok := v.(*ssa.Call); return ok && callName(cl) == "(*vnet.Net).hasIPAddr" }, true)
		}) {
			o.Fail(in.Pos(), "a socket is bound without the test that the host owns the IP")
		}
		// either branch
		okPort := false
		for _, ft := range guards(in) {
			_ = ft
		}
		// port==0 branch: assignPort err == nil ; else branch: find ok == false. The two branches merge, so check by cutting edges.
		var cut []cfgEdge
		for _, b := range dial.Blocks {
			iff, ok := b.Instrs[len(b.Instrs)-1].(*ssa.If)
			if !ok || b.Succs[0] == b.Succs[1] {
				continue
			}
			for k := 0; k < 2; k++ {
				ft := fact{Cond: iff.Cond, Val: k == 0, If: iff}
				if nilFact(ft, func(v ssa.Value) bool {
					ex, ok := v.(*ssa.Extract)
					if !ok {
						return false
					}
					cl, ok := origin(ex.Tuple).(*ssa.Call)
					return ok && isPortSearch(cl.Call.StaticCallee()) && ex.Index == 1
				}, true) {
					cut = append(cut, cfgEdge{b, b.Succs[k]})
				}
				if boolFact(ft, func(v ssa.Value) bool {
					ex, ok := v.(*ssa.Extract)
					if !ok || ex.Index != 1 {
						return false
					}
					cl, ok := origin(ex.Tuple).(*ssa.Call)
					return ok && callName(cl) == "(*vnet.udpConnMap).find"
				}, false) {
					cut = append(cut, cfgEdge{b, b.Succs[k]})
				}
			}
		}
		if len(cut) >= 2 && unreachableWithout(dial, in, cut) {
			okPort = true
		}
		if !okPort {
			// the two outcomes recorded in an error variable that is tested afterwards: decide per path
			isOK := func(ft fact) bool {
				return nilFact(ft, func(v ssa.Value) bool {
					ex, ok := v.(*ssa.Extract)
					if !ok {
						return false
					}
					cl, ok := origin(ex.Tuple).(*ssa.Call)
					return ok && isPortSearch(cl.Call.StaticCallee()) && ex.Index == 1
				}, true) || boolFact(ft, func(v ssa.Value) bool {
					ex, ok := v.(*ssa.Extract)
					if !ok || ex.Index != 1 {
						return false
					}
					cl, ok := origin(ex.Tuple).(*ssa.Call)
					return ok && callName(cl) == "(*vnet.udpConnMap).find"
				}, false)
			}
			okPort = hasFactOnPaths(in, isOK) || hasFact(in, isOK)
		}
		if !okPort {
			o.Fail(in.Pos(), "a socket can be bound without a successful ephemeral-port search or a negative conflict lookup")
		}
	}
	// ephemeral range constants and the value inserted
	for _, in := range findU(dial, func(in ssa.Instruction) bool {
		cl, ok := in.(*ssa.Call)
		return ok && isPortSearch(cl.Call.StaticCallee())
	}) {
		cl := in.(*ssa.Call)
		var lo, hi int64
		ok1, ok2 := false, false
		if len(cl.Call.Args) >= 4 {
			lo, ok1 = constInt(cl.Call.Args[2])
			hi, ok2 = constInt(cl.Call.Args[3])
		} else if len(cl.Call.Args) == 3 {
			// the range handed over as one value: a package-level struct of two integer constants set once by the
			// package initialiser
			if u, isU := cl.Call.Args[2].(*ssa.UnOp); isU && u.Op == token.MUL {
				if g, isG := u.X.(*ssa.Global); isG && g.Pkg != nil {
					var ks []int64
					written := false
					for _, f := range p.Funcs {
						if f.Pkg != g.Pkg || f.Name() == "init" {
							continue
						}
						instrsOf(f, func(x ssa.Instruction) {
							if st, ok := x.(*ssa.Store); ok {
								if fa, ok := st.Addr.(*ssa.FieldAddr); ok && fa.X == ssa.Value(g) {
									written = true
								}
								if st.Addr == ssa.Value(g) {
									written = true
								}
							}
						})
					}
					if initFn := g.Pkg.Func("init"); initFn != nil && !written {
						instrsOf(initFn, func(x ssa.Instruction) {
							if st, ok := x.(*ssa.Store); ok {
								if fa, ok := st.Addr.(*ssa.FieldAddr); ok && fa.X == ssa.Value(g) {
									if k, isC := constInt(st.Val); isC {
										ks = append(ks, k)
									}
								}
							}
						})
					}
					if len(ks) == 2 {
						lo, hi, ok1, ok2 = ks[0], ks[1], true, true
						if lo > hi {
							lo, hi = hi, lo
						}
					}
				}
			}
		}
		o.Site(in.Pos(), "assignPort(ip, %d, %d)", lo, hi)
		if !ok1 || !ok2 || lo != 5000 || hi != 5999 {
			o.Fail(in.Pos(), "the ephemeral range is not 5000-5999")
		}
		// the search runs over the IP of the very address the socket is then bound to
		okIP := false
		if fr, ok := asFieldLoad(cl.Call.Args[1]); ok && fr.SName == "net.UDPAddr" && fr.Field == "IP" {
			for _, nc := range findU(dial, func(x ssa.Instruction) bool { return isPlainCall(x, "vnet.newUDPConn") }) {
				if sameOrigin(fr.Base, nc.(*ssa.Call).Call.Args[0]) || fr.Base == nc.(*ssa.Call).Call.Args[0] {
					okIP = true
				}
			}
		}
		if !okIP {
			o.Fail(in.Pos(), "the free port is searched for another IP than the one of the address the socket is bound to: the chosen port can be taken there (bind fails although ports are free, or two sockets share an address)")
		}
	}
	cg := p.CG()
	for _, e := range cg.In[dial] {
		o.Site(e.Site.Pos(), "called from %s held=%s", fname(e.From), la.heldAt(e.Site))
		if !la.holdsOwner(e.Site, "vnet.Net", true) {
			o.Fail(e.Site.Pos(), "%s binds a socket without holding the host mutex exclusively: two concurrent port-0 binds can pick the same port", fname(e.From))
		}
	}
	// assignPort returns a port only when allocateLocalAddr found it free
	for _, in := range findInstrs(assignPort, func(in ssa.Instruction) bool { return isSuccessReturnOf(in, 1) }) {
		if !hasFact(in, func(ft fact) bool {
			return nilFact(ft, func(v ssa.Value) bool { cl, ok := v.(*ssa.Call); return ok && cl.Call.StaticCallee() == allocLocal }, true)
		}) {
			o.Fail(in.Pos(), "assignPort returns a port that was not found free")
		}
		// port = ((offset+i) % space) + start, the very port probed
		ret := in.(*ssa.Return)
		var probed ssa.Value
		instrsOfU(assignPort, func(x ssa.Instruction) {
			if cl, ok := x.(*ssa.Call); ok && cl.Call.StaticCallee() == allocLocal {
				probed = cl.Call.Args[2]
			}
		})
		if probed == nil || retValAt(ret, 0)[0] != probed {
			o.Fail(in.Pos(), "assignPort returns another port than the one it probed")
		}
	}

	// R4 conflict and match predicates agree
	o = c.Obl("R4", "vnet.udpConnMap", "insert's conflict predicate and find's match predicate are the same (stored address unspecified, or equal IP) on the bucket of the same port; a wildcard bind conflicts with every bind on the port; delete releases by the same predicate", 2)
	predOf := func(f *ssa.Function) (unspec, equal bool) {
		forEach(findU(f, func(ssa.Instruction) bool { return true }), func(in ssa.Instruction) {
			cl, ok := in.(*ssa.Call)
			if !ok {
				return
			}
			fromStored := func(v ssa.Value) bool {
				// IP of conn.LocalAddr().(*net.UDPAddr) of a conn from the bucket (also read directly from the locAddr field)
				return derivesFrom(v, func(x ssa.Value) bool {
					if isFieldLoad(x, "vnet.UDPConn", "locAddr") {
						return true
					}
					c2, ok := x.(*ssa.Call)
					return ok && callName(c2) == "(*vnet.UDPConn).LocalAddr" && resolveParam(c2.Call.Args[0]) != ssa.Value(f.Params[len(f.Params)-1])
				}, true)
			}
			switch callName(cl) {
			case "(net.IP).IsUnspecified":
				if fromStored(cl.Call.Args[0]) {
					unspec = true
				}
			case "(net.IP).Equal":
				if fromStored(cl.Call.Args[0]) || fromStored(cl.Call.Args[1]) {
					equal = true
				}
			}
		})
		return
	}
	for _, f := range []*ssa.Function{insert, find} {
		u, e := predOf(f)
		o.Site(f.Pos(), "%s: stored-unspecified=%v equal-IP=%v", f.Name(), u, e)
		if !u || !e {
			o.Fail(f.Pos(), "%s does not use the predicate (stored IP unspecified || stored IP equals requested IP): bind conflicts and delivery disagree", fname(f))
		}
		// bucket by port
		okB := false
		instrsOf(f, func(in ssa.Instruction) {
			if lk, ok := in.(*ssa.Lookup); ok && isFieldLoad(lk.X, "vnet.udpConnMap", "portMap") {
				if fr, ok := asFieldLoad(lk.Index); ok && fr.SName == "net.UDPAddr" && fr.Field == "Port" {
					okB = true
				}
			}
		})
		if !okB {
			o.Fail(f.Pos(), "%s does not select the bucket by the address's port", fname(f))
		}
	}
	// match edge of find returns the conn whose address matched
	for _, v := range returnedValues(find, 0) {
		_ = v
	}

	// R7 the address a socket reports is the address it is registered and released under
	if la := p.Func("vnet", "UDPConn", "LocalAddr"); la != nil {
		o7 := c.Obl("R7", fname(la), "LocalAddr returns the socket's own local address field on every path: the socket table registers, finds and removes sockets by LocalAddr(), and Close releases that same field", 1)
		for _, v := range returnedValuesU(la, 0) {
			o7.Site(v.Pos(), "returns %s", v.String())
			if !isFieldLoad(strip(v), "vnet.UDPConn", "locAddr") {
				o7.Fail(v.Pos(), "LocalAddr returns something else than the address the socket was bound with (the socket table would register it under one address and release it under another)")
			}
		}
	}

	// R5 Close releases the address exactly once
	o = c.Obl("R5", fname(cclose), "closing a socket releases its own local address exactly on the first close (the !closed edge), and the host removes it from the socket table", 2)
	isRel := func(in ssa.Instruction) bool {
		cl, ok := in.(ssa.CallInstruction)
		return ok && cl.Common().IsInvoke() && cl.Common().Method.Name() == "onClosed"
	}
	nRel := 0
	for _, in := range findU(cclose, isRel) {
		nRel++
		o.Site(in.Pos(), "%s", in.String())
		// (a release deferred after the already-closed guard is registered only on the open edge and runs once)
		if !hasFact(in, func(ft fact) bool {
			return boolFact(ft, func(v ssa.Value) bool { return isFieldLoad(v, "vnet.UDPConn", "closed") }, false)
		}) {
			o.Fail(in.Pos(), "the address is released on a path where the socket was not found open: a second Close evicts whichever socket holds the address now")
		}
		a := in.(ssa.CallInstruction).Common().Args[0]
		if !derivesFrom(a, func(v ssa.Value) bool { return isFieldLoad(v, "vnet.UDPConn", "locAddr") }, false) {
			o.Fail(in.Pos(), "Close releases another address than the socket's own local address")
		}
	}
	if nRel != 1 {
		o.Fail(cclose.Pos(), "expected one release of the address in Close, found %d", nRel)
	}
	if ok, bad := mustPassU(entryPos(cclose), func(in ssa.Instruction) bool { return isSuccessReturnOf(in, 0) }, isRel); !ok {
		o.Fail(bad.Pos(), "Close can succeed without releasing the address")
	}
	okDel := false
	instrsOfU(onClosed, func(in ssa.Instruction) {
		if cl, ok := in.(*ssa.Call); ok && cl.Call.StaticCallee() == del && sameOrigin(cl.Call.Args[1], ssa.Value(onClosed.Params[1])) {
			okDel = true
			o.Site(in.Pos(), "host removes the address from the socket table")
		}
	})
	if !okDel {
		o.Fail(onClosed.Pos(), "the host does not remove the closed socket's address from the socket table")
	}

	// R6 inbound datagram handed to the socket covering its destination
	o = c.Obl("R6", fname(netIn), "an inbound datagram is handed to the socket found for its destination address", 1)
	for _, in := range findU(netIn, func(in ssa.Instruction) bool { return isPlainCall(in, "(*vnet.UDPConn).onInboundChunk") }) {
		cl := in.(*ssa.Call)
		o.Site(in.Pos(), "deliver")
		ex, ok := origin(cl.Call.Args[0]).(*ssa.Extract)
		var fc *ssa.Call
		if ok {
			fc, _ = origin(ex.Tuple).(*ssa.Call)
		}
		if fc == nil || fc.Call.StaticCallee() != find {
			o.Fail(in.Pos(), "the receiving socket is not the result of the table lookup")
			continue
		}
		if addrClass(fc.Call.Args[1]) != "dst" {
			var d *ssa.Call
			ok := false
			okSame := false
			// a delivery helper shared with the loopback path: its parameter is what this function passes
			withRoot(netIn, func() {
				d, ok = origin(fc.Call.Args[1]).(*ssa.Call)
				if ok && d.Call.IsInvoke() {
					okSame = sameOrigin(d.Call.Value, ssa.Value(netIn.Params[1]))
				}
			})
			if !ok || !d.Call.IsInvoke() || d.Call.Method.Name() != "DestinationAddr" || !okSame {
				o.Fail(in.Pos(), "the socket is looked up by something else than the datagram's destination address")
			}
		}
		if !sameOrigin(cl.Call.Args[1], ssa.Value(netIn.Params[1])) {
			o.Fail(in.Pos(), "another chunk than the received one is delivered")
		}
		if !hasFact(in, func(ft fact) bool {
			return boolFact(ft, func(v ssa.Value) bool {
				e, ok := v.(*ssa.Extract)
				return ok && sameOrigin(e.Tuple, ssa.Value(fc)) && e.Index == 1
			}, true)
		}) {
			o.Fail(in.Pos(), "delivery without a found socket")
		}
	}
}

func (s lockSet) hasOwner(owner string) bool {
	for _, e := range s {
		if e.Owner == owner {
			return true
		}
	}
	return false
}

// ---------------------------------------------------------------------------------
// C01
// ---------------------------------------------------------------------------------

// guardKind classifies the condition of a drop edge.
func guardKind(cond ssa.Value, val bool) string {
	for {
		u, ok := cond.(*ssa.UnOp)
		if ok && u.Op == token.NOT {
			cond, val = u.X, !val
			continue
		}
		break
	}
	pol := func(s string) string {
		if val {
			return s
		}
		return "!" + s
	}
	if ph, ok := cond.(*ssa.Phi); ok && ph.Type().String() == "bool" {
		// a flag variable: the edge is taken when the flag has the value val, i.e. after one of the assignments of
		// that constant; the kind is that of the conditions under which those assignments happen
		var kinds []string
		okAll := true
		for i, e := range ph.Edges {
			c, isC := e.(*ssa.Const)
			if !isC || c.Value == nil {
				// the flag takes the value of another condition on this edge
				if e == ssa.Value(ph) {
					continue
				}
				kinds = append(kinds, guardKind(e, val))
				continue
			}
			if (c.Value.String() == "true") != val {
				continue
			}
			pred := ph.Block().Preds[i]
			fs := lastBranchFact(pred, ph.Block())
			if len(fs) == 0 {
				// unconditional jump: the innermost condition guarding the assigning block
				gs := guardsOfBlockNoExpand(pred)
				for _, cand := range gs {
					inner := true
					for _, other := range gs {
						if other.If != cand.If && !other.If.Block().Dominates(cand.If.Block()) {
							inner = false
						}
					}
					if inner {
						fs = []fact{cand}
					}
				}
			}
			if len(fs) == 0 {
				kinds = append(kinds, "always")
				continue
			}
			kinds = append(kinds, guardKind(fs[0].Cond, fs[0].Val))
		}
		if okAll && len(kinds) > 0 {
			set := map[string]bool{}
			for _, k := range kinds {
				for _, part := range strings.Split(strings.TrimPrefix(k, "flag-set-on:"), ",") {
					set[strings.TrimPrefix(part, "flag-set-on:")] = true
				}
			}
			return "flag-set-on:" + strings.Join(sortedKeys(set), ",")
		}
	}
	if cm, ok := normCmp(cond, val); ok {
		desc := func(v ssa.Value) string {
			if isNilConst(v) {
				return "nil"
			}
			if _, ok := v.(*ssa.Const); ok {
				return "const"
			}
			return valueKind(v)
		}
		op := map[token.Token]string{token.EQL: "==", token.NEQ: "!=", token.LSS: "<", token.LEQ: "<="}[cm.Op]
		return desc(cm.X) + op + desc(cm.Y)
	}
	return pol(valueKind(cond))
}

func valueKind(v ssa.Value) string {
	v = strip(v)
	switch x := v.(type) {
	case *ssa.Extract:
		switch t := x.Tuple.(type) {
		case *ssa.Lookup:
			if fr, ok := asFieldLoad(t.X); ok {
				return fmt.Sprintf("lookup(%s.%s)#%d", fr.SName, fr.Field, x.Index)
			}
			return fmt.Sprintf("lookup#%d", x.Index)
		case *ssa.Call:
			return fmt.Sprintf("%s#%d", callName(t), x.Index)
		case *ssa.Select:
			return "select#" + fmt.Sprint(x.Index)
		case *ssa.TypeAssert:
			return fmt.Sprintf("typeassert(%s)#%d", typeName(t.AssertedType), x.Index)
		case *ssa.UnOp:
			return "recv-ok"
		}
	case *ssa.Call:
		n := callName(x)
		if n == "dynamic" {
			if fr, ok := asFieldLoad(x.Call.Value); ok {
				return "dynamic(" + fr.SName + "." + fr.Field + ")"
			}
			if u, ok := origin(x.Call.Value).(*ssa.UnOp); ok {
				if ia, ok := origin(u.X).(*ssa.IndexAddr); ok {
					if fr, ok := asFieldLoad(ia.X); ok {
						return "dynamic(" + fr.SName + "." + fr.Field + "[])"
					}
				}
			}
		}
		return n
	case *ssa.UnOp:
		if fr, ok := asFieldLoad(x); ok {
			return "field(" + fr.SName + "." + fr.Field + ")"
		}
	case *ssa.Phi:
		return "phi(" + x.Comment + ")"
	case *ssa.Parameter:
		return "param"
	case *ssa.BinOp:
		return "expr"
	}
	return fmt.Sprintf("%T", v)
}

// dropEdges lists the conditional edges of the region after which no forward event is
// reachable (before the region's end) while the sibling edge can still reach one. A call
// of a private helper that may forward counts as a forward for reachability and its own
// drop edges are collected recursively; a drop edge guarded by the boolean result of a
// private helper is reported by the kinds of the conditions that decide that result.
func dropEdges(p *Prog, start ipos, end func(ssa.Instruction) bool, fwd func(ssa.Instruction) bool) []string {
	lifted := mayDo(p, fwd)
	seenFn := map[*ssa.Function]bool{}
	var out []string
	var collect func(start ipos, end func(ssa.Instruction) bool)
	collect = func(start ipos, end func(ssa.Instruction) bool) {
		var can func(b *ssa.BasicBlock, seen map[*ssa.BasicBlock]bool) bool
		can = func(b *ssa.BasicBlock, seen map[*ssa.BasicBlock]bool) bool {
			if seen[b] {
				return false
			}
			seen[b] = true
			for _, in := range b.Instrs {
				if lifted(in) {
					return true
				}
				if end(in) {
					return false
				}
			}
			for _, s := range b.Succs {
				if can(s, seen) {
					return true
				}
			}
			return false
		}
		seenB := map[*ssa.BasicBlock]bool{}
		var walk func(ps ipos)
		walk = func(ps ipos) {
			if ps.i == 0 {
				if seenB[ps.b] {
					return
				}
				seenB[ps.b] = true
			}
			for i := ps.i; i < len(ps.b.Instrs); i++ {
				in := ps.b.Instrs[i]
				if h := helperCallee(in); h != nil && lifted(in) && !fwd(in) && !seenFn[h] {
					seenFn[h] = true
					collect(entryPos(h), isReturn)
				}
				if lifted(in) || end(in) {
					return
				}
			}
			if iff, ok := ps.b.Instrs[len(ps.b.Instrs)-1].(*ssa.If); ok && ps.b.Succs[0] != ps.b.Succs[1] {
				c0 := can(ps.b.Succs[0], map[*ssa.BasicBlock]bool{})
				c1 := can(ps.b.Succs[1], map[*ssa.BasicBlock]bool{})
				if c0 != c1 {
					out = append(out, helperGuardKinds(iff.Cond, !c0)...)
				}
			}
			for _, s := range ps.b.Succs {
				walk(ipos{s, 0})
			}
		}
		walk(start)
	}
	collect(start, end)
	sort.Strings(out)
	return out
}

// helperGuardKinds: the kind of a guard; when the guard is the boolean result of a private
// helper, the kinds of the conditions inside the helper that decide its result.
func helperGuardKinds(cond ssa.Value, val bool) []string {
	c := cond
	for {
		u, ok := c.(*ssa.UnOp)
		if ok && u.Op == token.NOT {
			c = u.X
			continue
		}
		break
	}
	if call, ok := c.(*ssa.Call); ok {
		if h := helperCallee(call); h != nil {
			var out []string
			instrsOf(h, func(in ssa.Instruction) {
				if iff, ok := in.(*ssa.If); ok {
					k := guardKind(iff.Cond, true)
					k = strings.TrimPrefix(k, "!")
					if strings.HasPrefix(k, "phi(") && strings.Contains(k, "rangeindex") || strings.Contains(k, "<") {
						return // loop control
					}
					out = append(out, "helper:"+k)
				}
			})
			if len(out) > 0 {
				return out
			}
		}
	}
	// one boolean among several results (chunk, ok := r.translateFromParent(c)): the guards under which the helper
	// returns that boolean with the dropping value are the drop conditions
	if ex, ok := c.(*ssa.Extract); ok {
		neg := false
		for cc := cond; ; {
			u, isU := cc.(*ssa.UnOp)
			if !isU || u.Op != token.NOT {
				break
			}
			neg = !neg
			cc = u.X
		}
		want := val != neg
		if call, ok := ex.Tuple.(*ssa.Call); ok {
			if h := helperCallee(call); h != nil && isBoolType(ex.Type()) {
				var out []string
				okAll := true
				for _, in := range findInstrs(h, isReturn) {
					ret := in.(*ssa.Return)
					if h.Recover != nil && ret.Block() == h.Recover {
						continue
					}
					rv := retValAt(ret, ex.Index)
					if len(rv) != 1 {
						okAll = false
						continue
					}
					if isConstBool(rv[0], !want) {
						continue
					}
					if !isConstBool(rv[0], want) {
						okAll = false
						continue
					}
					gs := guardsOfBlockNoExpand(ret.Block())
					if len(gs) == 0 {
						okAll = false
						continue
					}
					g := gs[len(gs)-1]
					out = append(out, guardKind(g.Cond, g.Val))
				}
				if okAll && len(out) > 0 {
					return out
				}
			}
		}
	}
	return []string{guardKind(cond, val)}
}

func runC01(c *Ctx) {
	p := c.P
	var ao *Obligation
	writeTo := vnetFn(c, &ao, "UDPConn", "WriteTo")
	netWrite := vnetFn(c, &ao, "Net", "write")
	rpush := vnetFn(c, &ao, "Router", "push")
	pc := vnetFn(c, &ao, "Router", "processChunks")
	rIn := vnetFn(c, &ao, "Router", "onInboundChunk")
	netIn := vnetFn(c, &ao, "Net", "onInboundChunk")
	cIn := vnetFn(c, &ao, "UDPConn", "onInboundChunk")
	readFrom := vnetFn(c, &ao, "UDPConn", "ReadFrom")
	start := vnetFn(c, &ao, "Router", "Start")
	cclose := vnetFn(c, &ao, "UDPConn", "Close")
	natOut := vnetFn(c, &ao, "networkAddressTranslator", "translateOutbound")
	natIn := vnetFn(c, &ao, "networkAddressTranslator", "translateInbound")
	find := vnetFn(c, &ao, "udpConnMap", "find")
	if ao != nil {
		return
	}
	vnetExclude(p, writeTo, netWrite, rpush, pc, rIn, netIn, cIn, readFrom, start, cclose, natOut, natIn, find)
	la := computeLocksets(p)
	path := []*ssa.Function{writeTo, netWrite, rpush, pc, rIn, netIn, cIn, natOut, natIn}

	// R1 copy on write
	o := c.Obl("R1", fname(writeTo), "WriteTo copies the caller's payload into a fresh slice: the caller's slice is never stored in the chunk or passed on", 1)
	payload := writeTo.Params[1]
	for _, s := range retainedBy(p, writeTo, 1, nil) {
		o.Fail(s.In.Pos(), "the caller's buffer is retained by the datagram in flight: %s", s.Why)
		for _, ch := range s.Chain {
			o.Note("via %s", ch)
		}
	}
	okCopy := false
	instrsOfU(writeTo, func(in ssa.Instruction) {
		if st, ok := in.(*ssa.Store); ok && isFieldStore(st, "vnet.chunkUDP", "userData") {
			o.Site(in.Pos(), "userData = %s", st.Val.String())
			kind, mk := freshCopyKind(st.Val, func(v ssa.Value) bool { return sameOrigin(v, ssa.Value(payload)) })
			if kind == "append" || kind == "clone" {
				okCopy = true // a fresh slice filled with exactly the caller's bytes
				return
			}
			if kind != "make" {
				o.Fail(in.Pos(), "the chunk's payload is not a freshly allocated slice")
				return
			}
			// filled by copy(fresh, payload)
			instrsOfU(writeTo, func(x ssa.Instruction) {
				if isCall(x, "builtin.copy") {
					a := x.(*ssa.Call).Call.Args
					if derivesFrom(a[0], func(v ssa.Value) bool {
						return sameOrigin(v, ssa.Value(mk)) || isFieldLoad(v, "vnet.chunkUDP", "userData")
					}, false) && sameOrigin(a[1], ssa.Value(payload)) {
						okCopy = true
					}
				}
			})
			if l, ok := mk.Len.(*ssa.Call); !ok || !isLenOf(l, func(v ssa.Value) bool { return sameOrigin(v, ssa.Value(payload)) }) {
				o.Fail(in.Pos(), "the payload copy does not have the caller's length")
			}
		}
	})
	if !okCopy {
		o.Fail(writeTo.Pos(), "WriteTo does not copy the payload into the chunk")
	}
	// every successful WriteTo has handed a chunk to the network (also for an empty payload)
	if ok, bad := mustPassU(entryPos(writeTo), func(in ssa.Instruction) bool { return isSuccessReturnOf(in, 1) }, func(in ssa.Instruction) bool {
		cl, ok := in.(*ssa.Call)
		return ok && cl.Call.IsInvoke() && cl.Call.Method.Name() == "write"
	}); !ok {
		o.Fail(bad.Pos(), "WriteTo reports success on a path that has not handed the datagram to the network: it is silently lost")
	}
	// every NAT translation deep-clones: Clone copies userData into a fresh slice
	if cl := p.Func("vnet", "chunkUDP", "Clone"); cl != nil {
		ok2 := false
		instrsOfU(cl, func(in ssa.Instruction) {
			if isCall(in, "builtin.copy") {
				a := in.(*ssa.Call).Call.Args
				// the whole payload: the field itself or a full re-slice of it (src[:len(src)])
				wholePayload := func(v ssa.Value) bool {
					for i := 0; i < 3; i++ {
						sl, ok := v.(*ssa.Slice)
						if !ok {
							break
						}
						if sl.Low != nil {
							if k, isC := constInt(sl.Low); !isC || k != 0 {
								return false
							}
						}
						if sl.High != nil && !isLenOf(origin(sl.High), func(x ssa.Value) bool { return sameOrigin(x, sl.X) }) {
							return false
						}
						v = sl.X
					}
					return isFieldLoad(v, "vnet.chunkUDP", "userData")
				}
				if _, isMk := rootOf(a[0]).(*ssa.MakeSlice); isMk && wholePayload(a[1]) {
					ok2 = true
				}
				// the fresh slice is first stored as the clone's payload and filled through that field
				if fr, isF := asFieldLoad(a[0]); isF && fr.SName == "vnet.chunkUDP" && fr.Field == "userData" && isFieldLoad(a[1], "vnet.chunkUDP", "userData") {
					if _, fresh := rootOf(fr.Base).(*ssa.Alloc); fresh {
						instrsOfU(cl, func(y ssa.Instruction) {
							if st, ok := y.(*ssa.Store); ok && isFieldStore(st, "vnet.chunkUDP", "userData") {
								if _, isMk := st.Val.(*ssa.MakeSlice); isMk && domU(y, in) {
									ok2 = true
								}
							}
						})
					}
				}
			}
			// or a library/append copy stored as the clone's payload
			if st, ok := in.(*ssa.Store); ok && isFieldStore(st, "vnet.chunkUDP", "userData") {
				if k, _ := freshCopyKind(st.Val, func(v ssa.Value) bool { return isFieldLoad(v, "vnet.chunkUDP", "userData") }); k == "append" || k == "clone" {
					ok2 = true
				}
			}
		})
		if !ok2 {
			o.Fail(cl.Pos(), "chunkUDP.Clone does not deep-copy the payload")
		}
	}

	// forward events per function
	fwdIn := map[*ssa.Function]func(ssa.Instruction) bool{
		pc: func(in ssa.Instruction) bool {
			return isInvoke(in, "onInboundChunk") || isCall(in, "(*vnet.Router).push")
		},
		rIn:   func(in ssa.Instruction) bool { return isCall(in, "(*vnet.Router).push") },
		rpush: func(in ssa.Instruction) bool { return isQueueCall(in, "push") },
		netIn: func(in ssa.Instruction) bool { return isCall(in, "(*vnet.UDPConn).onInboundChunk") },
		netWrite: func(in ssa.Instruction) bool {
			return isCall(in, "(*vnet.UDPConn).onInboundChunk") || isCall(in, "(*vnet.Router).push")
		},
		cIn: func(in ssa.Instruction) bool {
			s, ok := in.(*ssa.Select)
			if ok {
				for _, st := range s.States {
					if st.Dir == types.SendOnly && chanRole(st.Chan) == "field vnet.UDPConn.readCh" {
						return true
					}
				}
			}
			if sd, ok := in.(*ssa.Send); ok && chanRole(sd.Chan) == "field vnet.UDPConn.readCh" {
				return true
			}
			return false
		},
	}
	// R2 at most one forward
	o = c.Obl("R2", "vnet.forwarding", "every function on the datagram path forwards a datagram at most once per call (per dequeued chunk in the router loop)", 6)
	var pop ssa.Instruction
	instrsOfU(pc, func(in ssa.Instruction) {
		if isQueueCall(in, "pop") {
			pop = in
		}
	})
	for _, f := range []*ssa.Function{pc, rIn, rpush, netIn, netWrite, cIn} {
		st := entryPos(f)
		end := isReturn
		if f == pc {
			if pop == nil {
				o.Fail(pc.Pos(), "the router loop does not pop the queue")
				continue
			}
			st = posAfter(popSiteIn(pc, pop))
			end = func(in ssa.Instruction) bool {
				return isReturn(in) || isQueueCall(in, "peek") || isQueueCall(in, "pop") || callsQueueHead(in)
			}
		}
		ev := fwdIn[f]
		m, inf := maxEventsU(st, end, func(in ssa.Instruction) int { return b2i(ev(in)) })
		o.Site(f.Pos(), "%s: max forwards per datagram = %d", fname(f), m)
		if m > 1 || inf {
			o.Fail(f.Pos(), "%s can forward the same datagram more than once (duplicate delivery)", fname(f))
		}
		if m == 0 {
			o.Fail(f.Pos(), "%s never forwards", fname(f))
		}
	}
	// the forwarded chunk in processChunks is the popped one (or its outbound translation)
	if pop != nil {
		var popped ssa.Value
		for _, rf := range *pop.(*ssa.Call).Referrers() {
			if ex, ok := rf.(*ssa.Extract); ok && ex.Index == 0 {
				popped = ex
			}
		}
		instrsOfU(pc, func(in ssa.Instruction) {
			if isInvoke(in, "onInboundChunk") {
				if !sameOrigin(in.(*ssa.Call).Call.Args[0], popped) {
					o.Fail(in.Pos(), "the router delivers another chunk than the one it dequeued")
				}
			}
		})
	}

	// R3 drop edges
	o = c.Obl("R3", "vnet.drop-edges", "a datagram is dropped only on the enumerated edges (user filter refused, destination NIC not found, no parent, NAT refused/returned nothing, router stopped, queue full, not UDP, no socket bound, socket closed, receive queue full); any other drop edge loses an admissible datagram", 6)
	allowed := map[*ssa.Function][]string{
		pc: {"flag-set-on:!dynamic(vnet.Router.chunkFilters[])", "!dynamic(vnet.Router.chunkFilters[])", "helper:dynamic(vnet.Router.chunkFilters[])", "helper:dynamic", "!lookup(vnet.Router.nics)#1", "field(vnet.Router.parent)==nil", "(*vnet.networkAddressTranslator).translateOutbound#1!=nil", "(*vnet.networkAddressTranslator).translateOutbound#0==nil",
			"!(*vnet.chunkQueue).pop#1" /* nothing was dequeued */},
		rpush:    {"field(vnet.Router.stopFunc)==nil", "!(*vnet.chunkQueue).push"},
		rIn:      {"(*vnet.networkAddressTranslator).translateInbound#1!=nil"},
		netIn:    {"invoke (vnet.Chunk).Network!=const", "!(*vnet.udpConnMap).find#1"},
		netWrite: {"!(*vnet.udpConnMap).find#1", "!typeassert(vnet.chunkUDP)#1", "field(vnet.Net.router)==nil"},
		cIn:      {"field(vnet.UDPConn.closed)", "select#0!=const"},
	}
	for _, f := range []*ssa.Function{pc, rpush, rIn, netIn, netWrite, cIn} {
		st := entryPos(f)
		end := isReturn
		if f == pc {
			if pop == nil {
				continue
			}
			st = posAfter(pop)
			end = func(in ssa.Instruction) bool {
				return isReturn(in) || isQueueCall(in, "peek") || isQueueCall(in, "pop")
			}
		}
		got := dropEdges(p, st, end, fwdIn[f])
		o.Site(f.Pos(), "%s: drop edges %v", fname(f), got)
		al := map[string]bool{}
		for _, a := range allowed[f] {
			al[a] = true
		}
		for _, g := range got {
			if !al[g] {
				o.Fail(f.Pos(), "%s drops a datagram on an edge guarded by [%s], which is not one of the enumerated drop conditions %v", fname(f), g, allowed[f])
			}
		}
	}

	// R4 FIFO + single consumer
	fifoShape(c, "R4")
	o = c.Obl("R4c", fname(pc), "the router queue is consumed only by processChunks, which runs only in the goroutine started by Start on the not-started edge under the mutex", 2)
	for _, f := range p.Funcs {
		if pkgOf(f) != "vnet" {
			continue
		}
		instrsOf(f, func(in ssa.Instruction) {
			if (isQueueCall(in, "pop") || isQueueCall(in, "peek")) && queueOf(in) == "vnet.Router.queue" {
				o.Site(in.Pos(), "%s in %s", callName(in.(ssa.CallInstruction)), fname(f))
				if !isIn(f, pc) {
					o.Fail(in.Pos(), "the router queue is consumed in %s", fname(f))
				}
			}
		})
	}
	cg := p.CG()
	// the forwarding goroutine: the function literal or the method started by Start's go statement; a method
	// must have no other caller
	var loopFn *ssa.Function
	instrsOfU(start, func(in ssa.Instruction) {
		if g, ok := in.(*ssa.Go); ok {
			if sc := g.Call.StaticCallee(); sc != nil && sc.Parent() == nil && inModule(sc) {
				loopFn = sc
				for _, e := range cg.In[sc] {
					if e.Site != ssa.Instruction(g) {
						o.Fail(e.Site.Pos(), "the forwarding loop %s is also run from %s", fname(sc), fname(e.From))
					}
				}
			}
		}
	})
	// the loop looks at the queue before it waits for the first time: Stop leaves queued chunks in place and a
	// later Start must forward them without a new arrival (a loop that waits first strands them)
	if pos, bad := routerLoopWaitsFirst(start, pc, loopFn); bad {
		o.Fail(pos, "the forwarding loop waits before it has looked at the queue: chunks queued before Start (left by a Stop) are forwarded only when something else arrives")
	}
	for _, e := range cg.In[pc] {
		o.Site(e.Site.Pos(), "processChunks called from %s", fname(e.From))
		inLoopFn := loopFn != nil && (e.From == loopFn || isIn(e.From, loopFn))
		if (e.From.Parent() != start && !inLoopFn) || e.Kind != "static" {
			o.Fail(e.Site.Pos(), "processChunks is also run from %s", fname(e.From))
		}
	}
	nGo := 0
	instrsOfU(start, func(in ssa.Instruction) {
		if g, ok := in.(*ssa.Go); ok {
			nGo++
			if !hasFact(g, func(ft fact) bool {
				return nilFact(ft, func(v ssa.Value) bool { return isFieldLoad(v, "vnet.Router", "stopFunc") }, true)
			}) {
				o.Fail(in.Pos(), "Start can launch a second forwarding goroutine on an already started router (two consumers reorder datagrams)")
			}
			if !la.holdsOwner(in, "vnet.Router", true) {
				o.Fail(in.Pos(), "the forwarding goroutine is started outside the router mutex")
			}
			if inLoop(in) {
				o.Fail(in.Pos(), "the forwarding goroutine is started in a loop")
			}
		}
	})
	if nGo != 1 {
		o.Fail(start.Pos(), "Start must launch exactly one forwarding goroutine, found %d go statements", nGo)
	}

	// R5 demultiplexing: lookup by destination (C13.R6 shape) and bucket by port
	o = c.Obl("R5", fname(netIn), "the host hands an inbound datagram to the socket looked up by the datagram's destination address; the loopback path does the same", 2)
	for _, f := range []*ssa.Function{netIn, netWrite} {
		for _, in := range findU(f, func(in ssa.Instruction) bool { return isPlainCall(in, "(*vnet.UDPConn).onInboundChunk") }) {
			cl := in.(*ssa.Call)
			o.Site(in.Pos(), "deliver in %s", fname(f))
			ex, _ := origin(cl.Call.Args[0]).(*ssa.Extract)
			var fc *ssa.Call
			if ex != nil {
				fc, _ = origin(ex.Tuple).(*ssa.Call)
			}
			if fc == nil || fc.Call.StaticCallee() != find {
				o.Fail(in.Pos(), "the receiving socket is not the result of the table lookup")
				continue
			}
			var d *ssa.Call
			ok := false
			withRoot(f, func() { d, ok = origin(fc.Call.Args[1]).(*ssa.Call) })
			isDst := ok && (d.Call.IsInvoke() && d.Call.Method.Name() == "DestinationAddr" || callName(d) == "(*vnet.chunkUDP).DestinationAddr")
			if !isDst {
				o.Fail(in.Pos(), "the socket is looked up by something else than the datagram's destination address")
			}
			if !hasFact(in, func(ft fact) bool {
				return boolFact(ft, func(v ssa.Value) bool {
					e, ok := v.(*ssa.Extract)
					return ok && sameOrigin(e.Tuple, ssa.Value(fc)) && e.Index == 1
				}, true)
			}) {
				o.Fail(in.Pos(), "delivery without a found socket")
			}
		}
	}

	// the loopback shortcut of the host is taken on the datagram's destination
	isDstLoopback := func(v ssa.Value) bool {
		cl, ok := v.(*ssa.Call)
		if !ok || callName(cl) != "(net.IP).IsLoopback" {
			return false
		}
		if fr, ok := asFieldLoad(cl.Call.Args[0]); ok && fr.SName == "vnet.chunkIP" && fr.Field == "destinationIP" {
			return true // the accessor looked through
		}
		d, ok := cl.Call.Args[0].(*ssa.Call)
		if !ok {
			d, ok = origin(cl.Call.Args[0]).(*ssa.Call)
		}
		if !ok {
			return false
		}
		name := ""
		if d.Call.IsInvoke() {
			name = d.Call.Method.Name()
		} else if sc := d.Call.StaticCallee(); sc != nil {
			name = sc.Name()
		}
		return name == "getDestinationIP"
	}
	nLoop := 0
	instrsOfU(netWrite, func(in ssa.Instruction) {
		if cl, ok := in.(*ssa.Call); ok && callName(cl) == "(net.IP).IsLoopback" {
			nLoop++
			o.Site(in.Pos(), "loopback test in %s", fname(netWrite))
			if !isDstLoopback(cl) {
				o.Fail(in.Pos(), "the host decides between local delivery and the router by something else than the destination IP of the datagram (a datagram to a remote address from a loopback-bound socket would be delivered locally, one to 127.0.0.1 from another socket would leave the host)")
			}
		}
	})
	withRoot(netWrite, func() {
		for _, in := range findU(netWrite, func(in ssa.Instruction) bool { return isPlainCall(in, "(*vnet.UDPConn).onInboundChunk") }) {
			if !hasFact(in, func(ft fact) bool { return boolFact(ft, isDstLoopback, true) }) {
				o.Fail(in.Pos(), "the host delivers a datagram locally on a path that has not found its destination to be a loopback address")
			}
		}
	})
	if nLoop == 0 {
		o.Fail(netWrite.Pos(), "no loopback test in %s: datagrams to 127.0.0.1 would be sent to the router", fname(netWrite))
	}

	// R6 what NAT returns is what travels (outbound)
	o = c.Obl("R6", fname(pc), "towards the parent the router pushes exactly the outbound translation's result, only if it is non-nil and no error was returned; an error stops... only the enumerated cases", 1)
	var tout *ssa.Call
	instrsOfU(pc, func(in ssa.Instruction) {
		if cl, ok := in.(*ssa.Call); ok && cl.Call.StaticCallee() == natOut {
			tout = cl
		}
	})
	for _, in := range findU(pc, func(in ssa.Instruction) bool { return isCall(in, "(*vnet.Router).push") }) {
		cl := in.(ssa.CallInstruction)
		o.Site(in.Pos(), "push to parent")
		if _, isGo := in.(*ssa.Go); isGo {
			o.Fail(in.Pos(), "the router pushes from a new goroutine (reordering)")
		}
		ex, ok := origin(cl.Common().Args[1]).(*ssa.Extract)
		if !ok || tout == nil || !sameOrigin(ex.Tuple, ssa.Value(tout)) || ex.Index != 0 {
			o.Fail(in.Pos(), "the chunk pushed to the parent is not the result of the outbound translation")
		}
		if !isFieldLoad(cl.Common().Args[0], "vnet.Router", "parent") {
			o.Fail(in.Pos(), "the translated chunk is not pushed to the parent router")
		}
		if tout != nil && !hasFact(in, func(ft fact) bool {
			return nilFact(ft, func(v ssa.Value) bool {
				e, ok := v.(*ssa.Extract)
				return ok && sameOrigin(e.Tuple, ssa.Value(tout)) && e.Index == 1
			}, true)
		}) {
			o.Fail(in.Pos(), "the router forwards although the outbound translation failed")
		}
	}
	if tout != nil && tout.Call.Args[1] != nil {
		// the translated chunk is the dequeued one
		var poppedV ssa.Value
		if refs := pop.(*ssa.Call).Referrers(); refs != nil {
			for _, rf := range *refs {
				if ex, ok := rf.(*ssa.Extract); ok && ex.Index == 0 {
					poppedV = ex
				}
			}
		}
		if ex, ok := origin(tout.Call.Args[1]).(*ssa.Extract); (!ok || !sameOrigin(ex.Tuple, ssa.Value(pop.(*ssa.Call)))) && !(poppedV != nil && sameOrigin(tout.Call.Args[1], poppedV)) {
			o.Fail(tout.Pos(), "the router translates another chunk than the one it dequeued")
		}
	}

	// R7 wake-up of the router loop
	o = c.Obl("R7", fname(rpush), "the router's wake-up channel has capacity >= 1 and a token is posted (without blocking) after every successful enqueue, under the mutex", 2)
	for _, mk := range chanMakesForField(p, "vnet.Router", "pushCh") {
		o.Site(mk.Pos, "make(chan, %d)", mk.Cap)
		if !mk.Const || mk.Cap < 1 {
			o.Fail(mk.Pos, "the wake-up channel has capacity %d: a token posted while the loop is busy is lost and the datagram waits for the next arrival", mk.Cap)
		}
	}
	isTok := func(in ssa.Instruction) bool { return isNonBlockingSendOn(in, "field vnet.Router.pushCh") }
	for _, in := range findU(rpush, isTok) {
		o.Site(in.Pos(), "token send")
	}
	for _, qp := range findU(rpush, func(in ssa.Instruction) bool { return isQueueCall(in, "push") }) {
		// from the true edge of the push result, every path to return posts a token
		var okBlk *ssa.BasicBlock
		for _, rf := range *qp.(*ssa.Call).Referrers() {
			if iff, ok := rf.(*ssa.If); ok {
				okBlk = iff.Block().Succs[0]
			}
		}
		if okBlk == nil {
			o.Fail(qp.Pos(), "the result of the enqueue is not examined")
			continue
		}
		if ok, bad := mustPassU(blockStart(okBlk), isReturn, isTok); !ok {
			o.Fail(bad.Pos(), "a datagram can be enqueued without waking the router loop")
		}
	}
	for _, cm := range commsOfU(rpush) {
		if cm.Dir == types.SendOnly && (cm.Sel == nil || cm.Sel.Blocking) {
			o.Fail(cm.Instr.Pos(), "push blocks on a channel while holding the router mutex")
		}
	}

	// R8 open socket only
	o = c.Obl("R8", fname(cIn), "a datagram is queued to a socket only under its mutex on the !closed edge without blocking; the receive queue is closed once, under the mutex, together with the closed flag", 2)
	for _, in := range findU(cIn, fwdIn[cIn]) {
		o.Site(in.Pos(), "send on readCh held=%s", la.heldAt(in))
		if !la.holdsOwner(in, "vnet.UDPConn", true) {
			o.Fail(in.Pos(), "send on the receive queue outside the socket mutex (races with close: send on closed channel)")
		}
		if !hasFact(in, func(ft fact) bool {
			return boolFact(ft, func(v ssa.Value) bool { return isFieldLoad(v, "vnet.UDPConn", "closed") }, false)
		}) {
			o.Fail(in.Pos(), "send on the receive queue without the !closed test (panics after Close / delivers to a closed socket)")
		}
		if s, ok := in.(*ssa.Select); !ok || s.Blocking {
			o.Fail(in.Pos(), "the send on the receive queue can block the router")
		}
		// the value sent is the parameter chunk
		if s, ok := in.(*ssa.Select); ok {
			for _, st := range s.States {
				if st.Dir == types.SendOnly && !sameOrigin(st.Send, ssa.Value(cIn.Params[1])) {
					o.Fail(in.Pos(), "another chunk than the received one is queued")
				}
			}
		}
	}
	nClose := 0
	for _, f := range p.Funcs {
		if isPrivateHelper(f) && !unitExclude[f] {
			continue // analysed as part of the functions that call it
		}
		if pkgOf(f) != "vnet" {
			continue
		}
		for _, in := range findU(f, func(in ssa.Instruction) bool {
			return isCall(in, "builtin.close") && chanRole(in.(ssa.CallInstruction).Common().Args[0]) == "field vnet.UDPConn.readCh"
		}) {
			nClose++
			o.Site(in.Pos(), "close(readCh) in %s", fname(f))
			if f != cclose || !la.holdsOwner(in, "vnet.UDPConn", true) || !hasFact(in, func(ft fact) bool {
				return boolFact(ft, func(v ssa.Value) bool { return isFieldLoad(v, "vnet.UDPConn", "closed") }, false)
			}) {
				o.Fail(in.Pos(), "the receive queue is closed outside Close's guarded critical section")
			}
		}
	}
	if nClose != 1 {
		o.Fail(cclose.Pos(), "expected one close of the receive queue, found %d", nClose)
	}
	// ReadFrom returns the payload and source of the received chunk
	o = c.Obl("R8r", fname(readFrom), "ReadFrom returns the received chunk's payload (copied) and source address, and discards only datagrams from another peer on a connected socket", 1)
	for _, in := range findU(readFrom, func(in ssa.Instruction) bool { return isSuccessReturnOf(in, 2) || isCall(in, "builtin.copy") }) {
		o.Site(in.Pos(), "%s", in.String())
	}
	okCopyR := false
	instrsOfU(readFrom, func(in ssa.Instruction) {
		if isCall(in, "builtin.copy") {
			a := in.(*ssa.Call).Call.Args
			if sameOrigin(a[0], ssa.Value(readFrom.Params[1])) {
				if ud, ok := a[1].(*ssa.Call); ok && ud.Call.IsInvoke() && ud.Call.Method.Name() == "UserData" {
					okCopyR = true
				}
			}
		}
	})
	if !okCopyR {
		o.Fail(readFrom.Pos(), "ReadFrom does not copy the chunk's payload into the caller's buffer")
	}

	// R12 the outbound translation fails only for what is not a NAT decision: its error ends the router's
	// forwarding goroutine (processChunks hands it up and the loop stops), so a datagram the NAT merely cannot map
	// must be dropped with (nil, nil), not reported as an error
	if natOut != nil {
		o = c.Obl("R12", fname(natOut), "the outbound translation reports an error (which stops the router's forwarding loop) only for a protocol it does not translate or for an error handed up by a callee; a datagram it cannot map is dropped without error", 1)
		isCalleeErr := func(v ssa.Value) bool {
			switch x := origin(v).(type) {
			case *ssa.Extract:
				_, isCall := x.Tuple.(*ssa.Call)
				return isCall && x.Type().String() == "error"
			case *ssa.Call:
				return !neverNilCall(x) && x.Type().String() == "error"
			}
			return false
		}
		notUDP := func(ft fact) bool {
			cm, ok := normCmp(ft.Cond, ft.Val)
			if !ok || cm.Op != token.NEQ {
				return false
			}
			for _, sd := range []ssa.Value{cm.X, cm.Y} {
				if cl, ok := origin(sd).(*ssa.Call); ok && cl.Call.IsInvoke() && cl.Call.Method.Name() == "Network" {
					return true
				}
			}
			return false
		}
		for _, in := range findU(natOut, isReturn) {
			ret := in.(*ssa.Return)
			if ret.Parent() != natOut || (natOut.Recover != nil && ret.Block() == natOut.Recover) || len(ret.Results) != 2 {
				continue
			}
			for _, ev := range retValAt(ret, 1) {
				for _, lf := range phiLeavesWithPred(ev) {
					if isNilConst(lf.v) {
						continue
					}
					o.Site(ret.Pos(), "error return: %s", lf.v.String())
					facts := guardsOfBlock(ret.Block())
					if lf.pred != nil {
						facts = lf.edgeFacts()
					}
					okLeaf := isCalleeErr(lf.v)
					if !okLeaf {
						if cl, isC := strip(lf.v).(*ssa.Call); isC && callName(cl) == "fmt.Errorf" {
							// wrapping a callee's error
							for _, a := range cl.Call.Args {
								if derivesFrom(a, func(x ssa.Value) bool { return isCalleeErr(x) }, false) {
									okLeaf = true
								}
							}
							if sl, isSl := cl.Call.Args[len(cl.Call.Args)-1].(*ssa.Slice); isSl {
								if arr, isA := sl.X.(*ssa.Alloc); isA && arr.Referrers() != nil {
									for _, rf := range *arr.Referrers() {
										ia, ok := rf.(*ssa.IndexAddr)
										if !ok || ia.Referrers() == nil {
											continue
										}
										for _, r2 := range *ia.Referrers() {
											if st, ok := r2.(*ssa.Store); ok && isCalleeErr(strip(st.Val)) {
												okLeaf = true
											}
										}
									}
								}
							}
						}
					}
					if !okLeaf {
						for _, ft := range facts {
							if notUDP(ft) {
								okLeaf = true
							}
						}
					}
					if !okLeaf {
						o.Fail(ret.Pos(), "the outbound translation fails with an error of its own for a datagram it cannot map: the router's forwarding loop ends on it and every later datagram through this router is lost")
					}
				}
			}
		}
	}

	// R9 lock balance
	for _, f := range []*ssa.Function{rpush, pc, netIn, cIn, cclose, start} {
		ob := c.Obl("R9", fname(f), "lock balance on every path", 1)
		la.lockBalance(ob, f)
	}

	// R10 no goroutine / deferred forwarding on the datagram path
	o = c.Obl("R10", "vnet.datagram-path", "no function on the datagram path starts a goroutine or defers a forward: datagrams of one flow are handed on synchronously, in order", 9)
	for _, f := range path {
		o.Site(f.Pos(), "%s", fname(f))
		instrsOf(f, func(in ssa.Instruction) {
			switch in.(type) {
			case *ssa.Go:
				o.Fail(in.Pos(), "%s starts a goroutine on the datagram path: two datagrams of one flow can overtake each other", fname(f))
			case *ssa.Defer:
				cl := in.(*ssa.Defer)
				if op, _ := lockOp(cl); op == "" {
					o.Fail(in.Pos(), "%s defers %s on the datagram path", fname(f), callName(cl))
				}
			}
		})
	}

	// R11 source/destination of the chunk built by WriteTo
	o = c.Obl("R11", fname(writeTo), "the chunk is created with the socket's source (determined source IP, local port) and the destination given by the caller, and handed to the host exactly once", 1)
	for _, in := range findU(writeTo, func(in ssa.Instruction) bool { return isPlainCall(in, "vnet.newChunkUDP") }) {
		cl := in.(*ssa.Call)
		o.Site(in.Pos(), "newChunkUDP")
		dst := cl.Call.Args[1]
		if ta, ok := dst.(*ssa.Extract); !ok || !sameOrigin(origin(ta.Tuple).(*ssa.TypeAssert).X, ssa.Value(writeTo.Params[2])) {
			o.Fail(in.Pos(), "the chunk's destination is not the address given to WriteTo")
		}
		src := cl.Call.Args[0]
		al, ok := src.(*ssa.Alloc)
		okSrc := false
		if ok {
			var ipOK, portOK bool
			for _, rf := range *al.Referrers() {
				if fa, ok := rf.(*ssa.FieldAddr); ok {
					fr, _ := asFieldAddr(fa)
					for _, rr := range *fa.Referrers() {
						if st, ok := rr.(*ssa.Store); ok {
							if fr.Field == "IP" {
								if d, ok := origin(st.Val).(*ssa.Call); ok && d.Call.IsInvoke() && d.Call.Method.Name() == "determineSourceIP" {
									ipOK = true
								}
							}
							if fr.Field == "Port" {
								if pf, ok := asFieldLoad(st.Val); ok && pf.SName == "net.UDPAddr" && pf.Field == "Port" && isFieldLoad(pf.Base, "vnet.UDPConn", "locAddr") {
									portOK = true
								}
							}
						}
					}
				}
			}
			okSrc = ipOK && portOK
		}
		if !okSrc {
			o.Fail(in.Pos(), "the chunk's source is not (determined source IP, the socket's local port)")
		}
	}
	if m, inf := maxEventsU(entryPos(writeTo), isReturn, func(in ssa.Instruction) int { return b2i(isInvoke(in, "write")) }); m != 1 || inf {
		o.Fail(writeTo.Pos(), "WriteTo hands the chunk to the host %d times", m)
	}
	_ = strings.Join
	// "shows as source the sender's address as translated by the NATs on the path, so that a datagram sent back
	// to that source reaches the original sender": the NAT mapping and filtering rules are part of this property
	c.RulePrefix = "Delay."
	routerDelayRules(c, pc, rpush)
	c.RulePrefix = "NATmap."
	runC02(c)
	c.RulePrefix = "NATfilter."
	runC03(c)
	c.RulePrefix = ""
}

// vnetExclude: the anchored functions of the virtual network (and the helpers that other
// rule sets check by role) are units of their own; any other private helper is treated as
// part of its caller.
func vnetExclude(p *Prog, anchors ...*ssa.Function) {
	ex := append([]*ssa.Function{}, anchors...)
	for _, n := range [][2]string{{"chunkQueue", "push"}, {"chunkQueue", "pop"}, {"chunkQueue", "peek"}, {"Net", "hasIPAddr"}, {"Net", "getAllIPAddrs"},
		{"networkAddressTranslator", "findOutboundMapping"}, {"networkAddressTranslator", "findInboundMapping"}, {"networkAddressTranslator", "removeMapping"},
		{"networkAddressTranslator", "allocateMappedAddr"}, {"networkAddressTranslator", "getPairedMappedIP"}, {"networkAddressTranslator", "getPairedLocalIP"},
		{"Router", "push"}, {"Router", "processChunks"}, {"Router", "onInboundChunk"}, {"Net", "onInboundChunk"}, {"UDPConn", "onInboundChunk"},
		{"Router", "assignIPAddress"}, {"Router", "addNIC"}, {"Router", "setRouter"}, {"Net", "_dialUDP"}, {"Net", "assignPort"}, {"Net", "allocateLocalAddr"},
		{"Net", "determineSourceIP"}, {"Net", "write"}, {"Net", "onClosed"}, {"udpConnMap", "insert"}, {"udpConnMap", "find"}, {"udpConnMap", "delete"}, {"chunkUDP", "Clone"}} {
		ex = append(ex, p.Func("vnet", n[0], n[1]))
	}
	ex = append(ex, p.Func("vnet", "", "newChunkUDP"), p.Func("vnet", "", "newUDPConn"), p.Func("vnet", "", "newNAT"))
	setUnitExclude(ex...)
}

// popSiteIn: the instruction of f through which the dequeue is reached: the pop itself, or the call (in f) of the
// private helper that contains it.
func popSiteIn(f *ssa.Function, pop ssa.Instruction) ssa.Instruction {
	site := pop
	for d := 0; d < unitDepth && site.Parent() != f; d++ {
		h := site.Parent()
		if !isPrivateHelper(h) || curSites == nil {
			break
		}
		var up ssa.Instruction
		for _, s := range curSites.sites[h] {
			if s.Parent() == f || isIn(s.Parent(), f) {
				up = s
			}
		}
		if up == nil {
			break
		}
		site = up
	}
	return site
}

// callsQueueHead: a call of a private helper that peeks or pops the queue (the next iteration's dequeue).
func callsQueueHead(in ssa.Instruction) bool {
	h := helperCallee(in)
	if h == nil {
		return false
	}
	found := false
	instrsOfU(h, func(x ssa.Instruction) {
		if isQueueCall(x, "peek") || isQueueCall(x, "pop") {
			found = true
		}
	})
	return found
}

// routerLoopWaitsFirst: the router's forwarding goroutine (the closure or method Start launches) reaches a blocking
// wait on some path before its first call of processChunks.
func routerLoopWaitsFirst(start, pc, loopFn *ssa.Function) (token.Pos, bool) {
	body := loopFn
	if body == nil {
		instrsOfU(start, func(in ssa.Instruction) {
			if g, ok := in.(*ssa.Go); ok {
				if mc, ok := g.Call.Value.(*ssa.MakeClosure); ok {
					body, _ = mc.Fn.(*ssa.Function)
				} else if sc := g.Call.StaticCallee(); sc != nil && inModule(sc) {
					body = sc
				}
			}
		})
	}
	if body == nil {
		return token.NoPos, false
	}
	lps, okL := enumIterPathsU(body, 50000)
	if !okL {
		return token.NoPos, false
	}
	for pi := range lps {
		pt := &lps[pi]
		firstWait, firstPC := -1, -1
		for idx, in := range pt.Instrs {
			if sel, ok := in.(*ssa.Select); ok && sel.Blocking && firstWait < 0 {
				firstWait = idx
			}
			if cl, ok := in.(*ssa.Call); ok && cl.Call.StaticCallee() == pc && firstPC < 0 {
				firstPC = idx
			}
		}
		if firstWait >= 0 && (firstPC < 0 || firstPC > firstWait) {
			return pt.Instrs[firstWait].Pos(), true
		}
	}
	return token.NoPos, false
}
