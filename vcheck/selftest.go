package main

// Mutation self-test (thorough tier): see mutants.go. Stub until mutants are defined.

func selfTest(id string, d *propDef) map[string]interface{} { return runSelfTest(id, d) }
