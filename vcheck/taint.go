package main

// Engine E4: does a caller-owned []byte escape (is it retained) beyond the call?
// Source: a slice parameter. The slice value (not its contents) is followed through
// slicing, phi, conversion and into module callees. Sinks: the slice value is stored
// anywhere, sent on a channel, put in a map/slice/interface/closure, or passed to a
// function outside the module that is not known to be non-retaining.

import (
	"fmt"
	"go/types"

	"golang.org/x/tools/go/ssa"
)

type taintSink struct {
	In    ssa.Instruction
	Why   string
	Chain []string
}

var nonRetaining = map[string]bool{
	"(*sync.Mutex).Lock": true,
}

func isByteSlice(t types.Type) bool {
	s, ok := t.Underlying().(*types.Slice)
	if !ok {
		return false
	}
	b, ok := s.Elem().Underlying().(*types.Basic)
	return ok && b.Kind() == types.Byte
}

// retainedBy reports the sinks reached by parameter number idx of f.
// allowCall lets a rule accept specific external callees as non-retaining
// (e.g. net.PacketConn.WriteTo, which copies into the kernel).
func retainedBy(p *Prog, f *ssa.Function, idx int, allowCall func(name string) bool) []taintSink {
	var sinks []taintSink
	type key struct {
		f *ssa.Function
		i int
	}
	seenFn := map[key]bool{}
	var analyse func(f *ssa.Function, idx int, depth int, chain []string)
	analyse = func(f *ssa.Function, idx int, depth int, chain []string) {
		if f == nil || len(f.Blocks) == 0 || idx >= len(f.Params) {
			return
		}
		if seenFn[key{f, idx}] {
			return
		}
		seenFn[key{f, idx}] = true
		seen := map[ssa.Value]bool{}
		var follow func(v ssa.Value, chain []string)
		follow = func(v ssa.Value, chain []string) {
			if seen[v] {
				return
			}
			seen[v] = true
			refs := v.Referrers()
			if refs == nil {
				return
			}
			for _, r := range *refs {
				here := append(append([]string{}, chain...), fmt.Sprintf("%s: %s", p.Pos(r.Pos()), r.String()))
				switch x := r.(type) {
				case *ssa.Slice:
					if x.X == v {
						follow(x, here)
					}
				case *ssa.Phi:
					follow(x, here)
				case *ssa.ChangeType:
					follow(x, here)
				case *ssa.Convert:
					// []byte -> string copies
					if isByteSlice(x.Type()) {
						follow(x, here)
					}
				case *ssa.MakeInterface:
					sinks = append(sinks, taintSink{r, "slice converted to an interface value (may be retained)", here})
				case *ssa.Store:
					if x.Val == v {
						// storing into a local cell that is only read back is followed
						if cell, ok := x.Addr.(*ssa.Alloc); ok && !cellEscapes(cell) {
							for _, rr := range *cell.Referrers() {
								if u, ok := rr.(*ssa.UnOp); ok {
									follow(u, here)
								}
							}
							continue
						}
						sinks = append(sinks, taintSink{r, "slice header stored in memory that outlives the call", here})
					}
				case *ssa.Send:
					if x.X == v {
						sinks = append(sinks, taintSink{r, "slice sent on a channel", here})
					}
				case *ssa.Select:
					for _, st := range x.States {
						if st.Send == v {
							sinks = append(sinks, taintSink{r, "slice sent on a channel", here})
						}
					}
				case *ssa.MapUpdate:
					if x.Value == v || x.Key == v {
						sinks = append(sinks, taintSink{r, "slice stored in a map", here})
					}
				case *ssa.MakeClosure:
					sinks = append(sinks, taintSink{r, "slice captured by a closure", here})
				case *ssa.Return:
					// returning the caller's own slice to the caller retains nothing
				case *ssa.IndexAddr, *ssa.Index, *ssa.Lookup:
					// element access reads contents only
				case ssa.CallInstruction:
					c := x.Common()
					if b, ok := c.Value.(*ssa.Builtin); ok {
						switch b.Name() {
						case "len", "cap":
						case "copy":
							// copy(dst, v) reads v; copy(v, src) writes into the caller's buffer (not retention)
						case "append":
							// append(x, v...) copies elements when element types are bytes; append([][]byte, v) retains
							if len(c.Args) == 2 && c.Args[1] == v && !isByteSlice(x.Value().Type()) {
								sinks = append(sinks, taintSink{r, "slice appended as an element (header retained)", here})
							} else if len(c.Args) >= 1 && c.Args[0] == v {
								follow(x.Value(), here) // result may alias the caller's array
							}
						default:
						}
						continue
					}
					name := callName(x)
					sc := c.StaticCallee()
					if sc != nil && inModule(sc) && len(sc.Blocks) > 0 {
						if depth >= 4 {
							sinks = append(sinks, taintSink{r, "call depth bound reached while following the slice into " + name, here})
							continue
						}
						for i, a := range c.Args {
							if a == v {
								analyse(sc, i, depth+1, here)
							}
						}
						continue
					}
					if _, isGo := r.(*ssa.Go); isGo {
						sinks = append(sinks, taintSink{r, "slice passed to a new goroutine", here})
						continue
					}
					if allowCall != nil && allowCall(name) {
						continue
					}
					if nonRetaining[name] {
						continue
					}
					sinks = append(sinks, taintSink{r, "slice passed to " + name + ", which is not known to copy it", here})
				}
			}
		}
		follow(f.Params[idx], chain)
	}
	analyse(f, idx, 0, nil)
	return sinks
}

// cellEscapes: a local variable cell whose address is used other than by load/store.
func cellEscapes(a *ssa.Alloc) bool {
	for _, r := range *a.Referrers() {
		switch x := r.(type) {
		case *ssa.Store:
			if x.Val == ssa.Value(a) {
				return true
			}
		case *ssa.UnOp, *ssa.DebugRef:
		default:
			return true
		}
	}
	return false
}
