package main

// "Unit" awareness: a function together with its private helpers is analysed as one
// unit, so that extracting statements into an unexported helper (or splitting a long
// function) does not change a verdict. A private helper is a top-level unexported
// function/method of the module that is only ever called by plain static calls (never
// through an interface, as a func value, with go or defer) and is not recursive.

import (
	"fmt"
	"go/constant"
	"go/token"
	"go/types"
	"sort"
	"strings"

	"golang.org/x/tools/go/ssa"
)

const unitDepth = 4

func isPrivateHelper(f *ssa.Function) bool {
	if curSites == nil || f == nil || f.Parent() != nil || len(f.Blocks) == 0 || !inModule(f) {
		return false
	}
	obj, _ := f.Object().(*types.Func)
	if obj == nil || obj.Exported() {
		return false
	}
	if curSites.addrTaken[f] || len(curSites.sites[f]) == 0 {
		return false
	}
	if curSites.iface[f] {
		return false
	}
	return true
}

// unitExclude lists functions that are never entered by the unit-aware primitives: the
// helpers a rule set knows by role and checks separately (e.g. the ring's grow/available
// helpers, the NAT's lookup helpers). Every other private helper - in particular one
// created by a refactoring - is treated as part of its caller.
var unitExclude = map[*ssa.Function]bool{}

func setUnitExclude(fs ...*ssa.Function) {
	unitExclude = map[*ssa.Function]bool{}
	for _, f := range fs {
		if f != nil {
			unitExclude[f] = true
		}
	}
}

// helperCallee returns the private helper a plain call instruction invokes, or nil.
func helperCallee(in ssa.Instruction) *ssa.Function {
	c, ok := in.(*ssa.Call)
	if !ok {
		return nil
	}
	sc := c.Call.StaticCallee()
	if sc == nil || unitExclude[sc] || !isPrivateHelper(sc) {
		return nil
	}
	return sc
}

// unitOf lists f and the private helpers it (transitively) calls.
func unitOf(f *ssa.Function) []*ssa.Function {
	seen := map[*ssa.Function]bool{f: true}
	out := []*ssa.Function{f}
	var rec func(g *ssa.Function, d int)
	rec = func(g *ssa.Function, d int) {
		if d >= unitDepth {
			return
		}
		instrsOf(g, func(in ssa.Instruction) {
			if h := helperCallee(in); h != nil && !seen[h] {
				seen[h] = true
				out = append(out, h)
				rec(h, d+1)
			}
		})
	}
	rec(f, 0)
	return out
}

// findU collects the instructions of f's unit that satisfy pred.
func findU(f *ssa.Function, pred func(ssa.Instruction) bool) []ssa.Instruction {
	var out []ssa.Instruction
	withRoot(f, func() {
		for _, g := range unitOf(f) {
			out = append(out, findInstrs(g, pred)...)
		}
	})
	return out
}

// inUnit reports whether in belongs to the unit of f.
func inUnit(f *ssa.Function, in ssa.Instruction) bool {
	for _, g := range unitOf(f) {
		if in.Parent() == g {
			return true
		}
	}
	return false
}

func stackKey(st []ssa.Instruction) string {
	var sb strings.Builder
	for _, s := range st {
		fmt.Fprintf(&sb, "%p,", s)
	}
	return sb.String()
}

// reachU is reach across a unit: a plain call of a private helper is entered (the call
// instruction itself is visited first; if stop(call) holds the walk stops there), the
// helper's returns continue after the call. Returns of helpers entered from a call are
// not reported. When the walk starts inside a helper, its returns are reported and the
// walk continues after every call site of that helper.
func reachU(start ipos, stop func(ssa.Instruction) bool) map[ssa.Instruction]bool {
	out := map[ssa.Instruction]bool{}
	seen := map[string]bool{}
	var walk func(p ipos, stack []ssa.Instruction, known knownResults)
	walk = func(p ipos, stack []ssa.Instruction, known knownResults) {
		if p.i == 0 {
			k := fmt.Sprintf("%p|%s|%s", p.b, stackKey(stack), known.key())
			if seen[k] {
				return
			}
			seen[k] = true
		}
		for i := p.i; i < len(p.b.Instrs); i++ {
			in := p.b.Instrs[i]
			if ret, isRet := in.(*ssa.Return); isRet {
				if len(stack) > 0 {
					top := stack[len(stack)-1]
					walk(posAfter(top), stack[:len(stack)-1], known.withReturn(top, ret))
					return
				}
				out[in] = true
				if stop != nil && stop(in) {
					return
				}
				fn := in.Parent()
				if isPrivateHelper(fn) {
					k := fmt.Sprintf("ret %p %p %s", fn, ret, known.key())
					if !seen[k] {
						seen[k] = true
						for _, s := range curSites.sites[fn] {
							walk(posAfter(s), nil, known.withReturn(s, ret))
						}
					}
				}
				return
			}
			out[in] = true
			if stop != nil && stop(in) {
				return
			}
			if h := helperCallee(in); h != nil && len(stack) < unitDepth && !onStack(stack, h) {
				walk(entryPos(h), append(append([]ssa.Instruction{}, stack...), in), known)
				return
			}
			if iff, isIf := in.(*ssa.If); isIf && len(p.b.Succs) == 2 {
				if val, ok := known.decide(iff.Cond); ok {
					// the helper that produced the tested value returned a constant on this path
					if val {
						walk(ipos{p.b.Succs[0], 0}, stack, known.enter(p.b, p.b.Succs[0]))
					} else {
						walk(ipos{p.b.Succs[1], 0}, stack, known.enter(p.b, p.b.Succs[1]))
					}
					return
				}
			}
		}
		for _, s := range p.b.Succs {
			walk(ipos{s, 0}, stack, known.enter(p.b, s))
		}
	}
	walk(start, nil, knownResults{})
	return out
}

// knownResults: what the walk knows about results of the private helpers it has returned from: a result that is
// the constant nil / a value that cannot be nil / a boolean constant at the return taken. A later test of that
// result in the caller ("if err != nil") then has one feasible branch.
type knownResults struct {
	m map[ssa.Value]int8 // 1 nil, 2 not nil, 3 true, 4 false
}

func (k knownResults) key() string {
	if len(k.m) == 0 {
		return ""
	}
	var parts []string
	for v, c := range k.m {
		parts = append(parts, fmt.Sprintf("%p=%d", v, c))
	}
	sort.Strings(parts)
	return strings.Join(parts, ",")
}

func classifyResult(rv ssa.Value) int8 { return classifyResultD(rv, 0) }

func classifyResultD(rv ssa.Value, depth int) int8 {
	if rv == nil {
		return 0
	}
	// the single result of a function or closure of this module all of whose returns hand back a value that is
	// not nil (an error constructor such as func(err error) error { return &net.OpError{...} })
	if call, ok := rv.(*ssa.Call); ok && depth < 3 {
		if fn := call.Call.StaticCallee(); fn != nil && len(fn.Blocks) > 0 && inModule(fn) && fn.Signature.Results().Len() == 1 {
			all, n := true, 0
			for _, b := range fn.Blocks {
				if fn.Recover == b {
					continue
				}
				for _, in := range b.Instrs {
					ret, isRet := in.(*ssa.Return)
					if !isRet {
						continue
					}
					n++
					vs := retValAt(ret, 0)
					if len(vs) != 1 || classifyResultD(vs[0], depth+1) != 2 {
						all = false
					}
				}
			}
			if all && n > 0 {
				return 2
			}
		}
	}
	if isNilConst(rv) {
		return 1
	}
	if c, ok := rv.(*ssa.Const); ok && c.Value != nil && isBoolType(c.Type()) {
		if c.Value.String() == "true" {
			return 3
		}
		return 4
	}
	switch x := rv.(type) {
	case *ssa.MakeInterface, *ssa.Alloc, *ssa.MakeMap, *ssa.MakeChan, *ssa.MakeSlice, *ssa.MakeClosure:
		return 2
	case *ssa.UnOp:
		if _, isG := x.X.(*ssa.Global); isG && x.Op == token.MUL && rv.Type().String() == "error" {
			return 2 // sentinel errors are not nil
		}
	}
	if neverNilCall(rv) {
		return 2
	}
	return 0
}

func (k knownResults) withReturn(call ssa.Instruction, ret *ssa.Return) knownResults {
	cv, ok := call.(*ssa.Call)
	if !ok {
		return k
	}
	n := knownResults{m: map[ssa.Value]int8{}}
	for v, c := range k.m {
		n.m[v] = c
	}
	set := func(v ssa.Value, rv ssa.Value) {
		c := classifyResult(rv)
		if c == 0 {
			if pc, had := k.m[rv]; had {
				c = pc
			}
		}
		if c == 0 && rv != nil {
			// "if err != nil { return err }": the return is guarded by a test of the returned value
			for _, g := range guardsOfBlock(ret.Block()) {
				if gv, eq, isCmp := nilCmpOf(g.Cond); isCmp && gv == rv {
					if eq == g.Val {
						c = 1
					} else {
						c = 2
					}
				}
			}
		}
		if c == 0 {
			delete(n.m, v)
		} else {
			n.m[v] = c
		}
	}
	one := func(i int) ssa.Value {
		vs := retValAt(ret, i)
		if len(vs) == 1 {
			return vs[0]
		}
		return nil
	}
	if len(ret.Results) == 1 {
		set(cv, one(0))
		return n
	}
	if refs := cv.Referrers(); refs != nil {
		for _, rf := range *refs {
			if ex, ok := rf.(*ssa.Extract); ok && ex.Index < len(ret.Results) {
				set(ex, one(ex.Index))
			}
		}
	}
	return n
}

// enter: the phis of block to, entered from block from, take what is known about the value on that edge
// (dst, err = helperA(x) in one branch, = helperB(x) in the other, tested after the join).
func (k knownResults) enter(from, to *ssa.BasicBlock) knownResults {
	idx := -1
	for i, p := range to.Preds {
		if p == from {
			idx = i
		}
	}
	if idx < 0 {
		return k
	}
	var n *knownResults
	for _, in := range to.Instrs {
		ph, ok := in.(*ssa.Phi)
		if !ok {
			break
		}
		c, had := k.m[ph.Edges[idx]]
		if !had {
			c = classifyResult(ph.Edges[idx])
		}
		old, hadOld := k.m[ph]
		if c == old && (c != 0) == hadOld {
			continue
		}
		if n == nil {
			n = &knownResults{m: map[ssa.Value]int8{}}
			for v, cc := range k.m {
				n.m[v] = cc
			}
		}
		if c == 0 {
			delete(n.m, ph)
		} else {
			n.m[ph] = c
		}
	}
	if n == nil {
		return k
	}
	return *n
}

// decide evaluates a branch condition that tests a known helper result.
func (k knownResults) decide(cond ssa.Value) (val, ok bool) {
	if len(k.m) == 0 {
		return false, false
	}
	neg := false
	for d := 0; d < 4; d++ {
		if u, isU := cond.(*ssa.UnOp); isU && u.Op == token.NOT {
			cond, neg = u.X, !neg
			continue
		}
		break
	}
	if v, eq, isCmp := nilCmpOf(cond); isCmp {
		switch k.m[v] {
		case 1:
			return eq != neg, true
		case 2:
			return !eq != neg, true
		}
		return false, false
	}
	switch k.m[cond] {
	case 3:
		return !neg, true
	case 4:
		return neg, true
	}
	return false, false
}

func onStack(stack []ssa.Instruction, h *ssa.Function) bool {
	for _, s := range stack {
		if c, ok := s.(*ssa.Call); ok && c.Call.StaticCallee() == h {
			return true
		}
	}
	return false
}

// mustPassU: mustPass over the unit.
func mustPassU(start ipos, target, through func(ssa.Instruction) bool) (bool, ssa.Instruction) {
	r := reachU(start, func(in ssa.Instruction) bool { return through(in) })
	var bad ssa.Instruction
	for in := range r {
		if through(in) {
			continue
		}
		if target(in) && (bad == nil || in.Pos() < bad.Pos()) {
			if hasFact(in, errorOfNeverFailing) {
				continue // only reachable if a function that always returns a nil error returned one
			}
			bad = in
		}
	}
	return bad == nil, bad
}

// errorOfNeverFailing: the fact says that the error result of a module function all of whose returns yield a nil
// error is not nil (an infeasible edge: `if err := c.SetWriteDeadline(t); err != nil { return err }`).
func errorOfNeverFailing(ft fact) bool {
	return nilFact(ft, func(v ssa.Value) bool {
		var call *ssa.Call
		idx := 0
		switch x := v.(type) {
		case *ssa.Call:
			call = x
		case *ssa.Extract:
			call, _ = x.Tuple.(*ssa.Call)
			idx = x.Index
		}
		if call == nil || v.Type().String() != "error" {
			return false
		}
		sc := call.Call.StaticCallee()
		if sc == nil || !inModule(sc) || len(sc.Blocks) == 0 || idx >= sc.Signature.Results().Len() {
			return false
		}
		vals := returnedValues(sc, idx)
		if len(vals) == 0 {
			return false
		}
		for _, rv := range vals {
			if !isNilConst(rv) {
				return false
			}
		}
		return true
	}, false)
}

// mustExec: instruction a is executed on every entry→return path of its function.
func mustExec(a ssa.Instruction) bool {
	ok, _ := mustPass(entryPos(a.Parent()), isReturn, func(in ssa.Instruction) bool { return in == a })
	return ok
}

// domU: a is executed before b on every path to b, where a and b may live in different
// functions of one unit.
func domU(a, b ssa.Instruction) bool {
	return domURec(a, b, 0)
}

func domURec(a, b ssa.Instruction, d int) bool {
	if d > unitDepth {
		return false
	}
	fa, fb := a.Parent(), b.Parent()
	if fa == fb {
		return dominates(a, b)
	}
	// b inside a helper: a must dominate every call site of that helper
	if isPrivateHelper(fb) {
		sites := curSites.sites[fb]
		if scanRoot != nil {
			// while a unit is being scanned only the call sites inside that unit count
			var inRoot []ssa.Instruction
			for _, s := range sites {
				for _, g := range unitOf(scanRoot) {
					if s.Parent() == g {
						inRoot = append(inRoot, s)
					}
				}
			}
			if len(inRoot) > 0 {
				sites = inRoot
			}
		}
		all := true
		for _, s := range sites {
			if !(s == a || domURec(a, s, d+1)) {
				all = false
			}
		}
		if all && len(sites) > 0 {
			return true
		}
	}
	// a inside a helper that is called (and a always executed in it) before b
	if isPrivateHelper(fa) && mustExec(a) {
		for _, s := range curSites.sites[fa] {
			if domURec(s, b, d+1) {
				return true
			}
		}
	}
	return false
}

// maxEventsU: maxEvents where a plain call of a private helper weighs as much as the
// heaviest path through the helper.
func maxEventsU(start ipos, end func(ssa.Instruction) bool, event func(ssa.Instruction) int) (int, bool) {
	memo := map[*ssa.Function]int{}
	infAny := false
	var weigh func(in ssa.Instruction, d int) int
	var fnMax func(g *ssa.Function, d int) int
	fnMax = func(g *ssa.Function, d int) int {
		if v, ok := memo[g]; ok {
			return v
		}
		memo[g] = 0
		m, inf := maxEvents(entryPos(g), isReturn, func(in ssa.Instruction) int { return weigh(in, d+1) })
		if inf {
			infAny = true
		}
		memo[g] = m
		return m
	}
	weigh = func(in ssa.Instruction, d int) int {
		w := event(in)
		if h := helperCallee(in); h != nil && d < unitDepth {
			w += fnMax(h, d)
		}
		return w
	}
	m, inf := maxEvents(start, end, func(in ssa.Instruction) int { return weigh(in, 0) })
	return m, inf || infAny
}

// ---- paths through a unit ------------------------------------------------------------

// upath is an acyclic path through a function with the private helpers it calls spliced in.
type upath struct {
	Instrs []ssa.Instruction
	Conds  []fact                  // one per *ssa.If in Instrs, in order
	Arg    map[ssa.Value]ssa.Value // helper parameter -> actual argument (innermost binding on this path)
	Ret    map[ssa.Value]ssa.Value // helper call -> value returned on this path (single-result helpers; first result otherwise)
	RetAll map[ssa.Value][]ssa.Value
	Loop   bool            // the path ends where it would re-enter a block it already visited (only with cutLoops)
	LoopTo *ssa.BasicBlock // that block
	Frames []uframe        // one per helper call entered on the path: which stretch of Instrs is the helper's body
}

// uframe: the instructions Instrs[Start..End] are the body of the helper called by Call (End < 0: still open).
type uframe struct {
	Call       *ssa.Call
	Start, End int
}

// valueAt resolves v as seen by the instruction at index idx of the path: a helper parameter is the argument of
// the call whose body contains idx (a helper called twice on one path has two frames).
func (p *upath) valueAt(v ssa.Value, idx int) ssa.Value {
	for i := 0; i < 16; i++ {
		if prm, ok := v.(*ssa.Parameter); ok {
			found := false
			for k := len(p.Frames) - 1; k >= 0; k-- {
				fr := p.Frames[k]
				if fr.Call.Call.StaticCallee() != prm.Parent() || fr.Start > idx || (fr.End >= 0 && idx > fr.End) {
					continue
				}
				for j, q := range prm.Parent().Params {
					if q == prm && j < len(fr.Call.Call.Args) {
						v, idx, found = fr.Call.Call.Args[j], fr.Start-1, true
					}
				}
				break
			}
			if !found {
				// a parameter that left its helper as (part of) the result: the most recent completed call
				for k := len(p.Frames) - 1; k >= 0 && !found; k-- {
					fr := p.Frames[k]
					if fr.Call.Call.StaticCallee() != prm.Parent() || fr.Start > idx {
						continue
					}
					for j, q := range prm.Parent().Params {
						if q == prm && j < len(fr.Call.Call.Args) {
							v, idx, found = fr.Call.Call.Args[j], fr.Start-1, true
						}
					}
					break
				}
			}
			if found {
				continue
			}
			return v
		}
		r := p.resolve(v)
		if ph, ok := r.(*ssa.Phi); ok {
			if e := p.phiAt(ph, idx); e != nil {
				r = e
			}
		}
		if u, ok := r.(*ssa.UnOp); ok && u.Op == token.MUL {
			// a load from a local cell that does not escape (a result spilled because of a defer): the value
			// of the last store on the path before the load
			if cell, isA := u.X.(*ssa.Alloc); isA && !cellEscapes(cell) {
				at := idx
				if k := p.indexOf(u); k >= 0 && k <= idx {
					at = k
				}
				found := false
				for j := at; j >= 0 && j < len(p.Instrs); j-- {
					if st, isSt := p.Instrs[j].(*ssa.Store); isSt && st.Addr == ssa.Value(cell) {
						r, idx, found = st.Val, j, true
						break
					}
					if p.Instrs[j] == ssa.Instruction(cell) {
						break // the cell was created here: nothing stored since
					}
				}
				if !found && cell.Parent() != nil {
					// never assigned on this path: the zero value (a named result left alone by a bare return)
					if z := zeroConstOf(u.Type()); z != nil {
						return z
					}
				}
			}
		}
		if r == v {
			return v
		}
		v = r
	}
	return v
}

// resolve chases helper parameters to arguments and helper calls to returned values.
func (p *upath) resolve(v ssa.Value) ssa.Value {
	for i := 0; i < 16; i++ {
		if a, ok := p.Arg[v]; ok {
			v = a
			continue
		}
		if r, ok := p.Ret[v]; ok {
			v = r
			continue
		}
		if ex, ok := v.(*ssa.Extract); ok {
			if rs, ok := p.RetAll[ex.Tuple]; ok && ex.Index < len(rs) {
				v = rs[ex.Index]
				continue
			}
		}
		break
	}
	return v
}

// phi resolves a phi node by the block from which its block was entered on this path.
func (p *upath) phi(ph *ssa.Phi) ssa.Value { return p.phiAt(ph, -1) }

// phiAt resolves the phi as seen at index at of the path: the occurrence of the phi at or before that index
// (a helper called twice on one path executes its phis twice); at < 0 selects the first occurrence.
func (p *upath) phiAt(ph *ssa.Phi, at int) ssa.Value {
	// find the position of the phi's block entry in Instrs, then the previous instruction of the same function in another block
	idx := -1
	for i, in := range p.Instrs {
		if in == ssa.Instruction(ph) {
			if at < 0 {
				idx = i
				break
			}
			if i <= at {
				idx = i
			}
		}
	}
	if idx < 0 && at >= 0 {
		for i, in := range p.Instrs {
			if in == ssa.Instruction(ph) {
				idx = i
				break
			}
		}
	}
	if idx < 0 {
		// phi instructions are part of Instrs; if absent the phi is outside the path
		return nil
	}
	for j := idx - 1; j >= 0; j-- {
		pj := p.Instrs[j]
		if pj.Parent() == ph.Parent() && pj.Block() != ph.Block() {
			for k, pred := range ph.Block().Preds {
				if pred == pj.Block() {
					return ph.Edges[k]
				}
			}
			return nil
		}
	}
	return nil
}

// enumPathsU enumerates the acyclic entry→return paths of f with private helpers inlined.
func enumPathsU(f *ssa.Function, limit int) ([]upath, bool) { return enumPathsOpt(f, limit, false) }

// enumIterPathsU: like enumPathsU, but a path that would re-enter a block it has already visited ends there
// (Loop/LoopTo are set). Every block of a loop body is thus covered by a path from the entry that visits it once.
func enumIterPathsU(f *ssa.Function, limit int) ([]upath, bool) { return enumPathsOpt(f, limit, true) }

func enumPathsOpt(f *ssa.Function, limit int, cutLoops bool) ([]upath, bool) {
	return enumPathsCfg(f, limit, cutLoops, false)
}

// enumPathsFlat enumerates the entry→return paths of f alone: helper calls stay calls.
func enumPathsFlat(f *ssa.Function, limit int) ([]upath, bool) {
	return enumPathsCfg(f, limit, false, true)
}

// neverNilCall: constructors of the standard library whose result is not nil.
func neverNilCall(v ssa.Value) bool {
	c, ok := v.(*ssa.Call)
	if !ok {
		return false
	}
	switch callName(c) {
	case "fmt.Errorf", "errors.New":
		return true
	}
	return false
}

// nilCmpOf: cond is "v == nil" (eq true) or "v != nil".
func nilCmpOf(cond ssa.Value) (v ssa.Value, eq bool, ok bool) {
	b, isB := cond.(*ssa.BinOp)
	if !isB || (b.Op != token.EQL && b.Op != token.NEQ) {
		return nil, false, false
	}
	if isNilConst(b.Y) {
		return b.X, b.Op == token.EQL, true
	}
	if isNilConst(b.X) {
		return b.Y, b.Op == token.EQL, true
	}
	return nil, false, false
}

func enumPathsCfg(f *ssa.Function, limit int, cutLoops, noInline bool) ([]upath, bool) {
	ok := true
	var out []upath
	type frame struct {
		call *ssa.Call
		on   map[*ssa.BasicBlock]bool
	}
	cur := upath{Arg: map[ssa.Value]ssa.Value{}, Ret: map[ssa.Value]ssa.Value{}, RetAll: map[ssa.Value][]ssa.Value{}}
	var run func(p ipos, on map[*ssa.BasicBlock]bool, stack []frame)
	visits := map[*ssa.BasicBlock]int{}
	snapshot := func() upath {
		c := upath{Instrs: append([]ssa.Instruction(nil), cur.Instrs...), Conds: append([]fact(nil), cur.Conds...),
			Arg: map[ssa.Value]ssa.Value{}, Ret: map[ssa.Value]ssa.Value{}, RetAll: map[ssa.Value][]ssa.Value{},
			Frames: append([]uframe(nil), cur.Frames...)}
		for k, v := range cur.Arg {
			c.Arg[k] = v
		}
		for k, v := range cur.Ret {
			c.Ret[k] = v
		}
		for k, v := range cur.RetAll {
			c.RetAll[k] = v
		}
		return c
	}
	run = func(p ipos, on map[*ssa.BasicBlock]bool, stack []frame) {
		if !ok {
			return
		}
		if p.i == 0 {
			if on[p.b] && visits[p.b] < 40 && constLoopHeader(&cur, p.b) {
				// a loop whose trip count is a constant (for i := range hdr): unrolled, the induction variable is
				// evaluated along the path
				visits[p.b]++
				defer func() { visits[p.b]-- }()
				// a new iteration: the blocks of the previous one may be visited again
				on2 := map[*ssa.BasicBlock]bool{}
				for k, v := range on {
					on2[k] = v
				}
				first := p.b.Instrs[0]
				for i := len(cur.Instrs) - 1; i >= 0; i-- {
					in := cur.Instrs[i]
					if in.Parent() == p.b.Parent() {
						delete(on2, in.Block())
					}
					if in == first {
						break
					}
				}
				on2[p.b] = true
				on = on2
			} else if on[p.b] {
				if cutLoops {
					sn := snapshot()
					sn.Loop, sn.LoopTo = true, p.b
					out = append(out, sn)
					if len(out) > limit {
						ok = false
					}
					return
				}
				ok = false // loop
				return
			} else {
				on[p.b] = true
				defer func() { on[p.b] = false }()
			}
		}
		nI, nC := len(cur.Instrs), len(cur.Conds)
		defer func() { cur.Instrs, cur.Conds = cur.Instrs[:nI], cur.Conds[:nC] }()
		for i := p.i; i < len(p.b.Instrs); i++ {
			in := p.b.Instrs[i]
			cur.Instrs = append(cur.Instrs, in)
			switch x := in.(type) {
			case *ssa.Return:
				if len(stack) > 0 {
					top := stack[len(stack)-1]
					var saved []ssa.Value
					if old, had := cur.RetAll[top.call]; had {
						saved = old
					}
					var rs []ssa.Value
					for k := range x.Results {
						// a result spilled to a cell (defer, named results): what this very path stored last - or
						// the zero value when a bare return left the named result alone
						if u, isU := x.Results[k].(*ssa.UnOp); isU && u.Op == token.MUL {
							if al, isA := u.X.(*ssa.Alloc); isA && !cellEscapes(al) {
								if pv := cur.valueAt(u, len(cur.Instrs)-1); pv != ssa.Value(u) {
									rs = append(rs, pv)
									continue
								}
							}
						}
						vs := retValAt(x, k)
						if len(vs) == 1 {
							rs = append(rs, vs[0])
						} else {
							rs = append(rs, x.Results[k])
						}
					}
					cur.RetAll[top.call] = rs
					oldRet, hadRet := cur.Ret[top.call]
					if len(rs) >= 1 {
						cur.Ret[top.call] = rs[0]
					}
					closed := -1
					for k := len(cur.Frames) - 1; k >= 0; k-- {
						if cur.Frames[k].Call == top.call && cur.Frames[k].End < 0 {
							cur.Frames[k].End = len(cur.Instrs) - 1
							closed = k
							break
						}
					}
					run(posAfter(top.call), top.on, stack[:len(stack)-1])
					if closed >= 0 && closed < len(cur.Frames) {
						cur.Frames[closed].End = -1
					}
					if hadRet {
						cur.Ret[top.call] = oldRet
					} else {
						delete(cur.Ret, top.call)
					}
					if saved != nil {
						cur.RetAll[top.call] = saved
					} else {
						delete(cur.RetAll, top.call)
					}
					return
				}
				out = append(out, snapshot())
				if len(out) > limit {
					ok = false
				}
				return
			case *ssa.Panic:
				return
			case *ssa.Call:
				if h := helperCallee(x); h != nil && len(stack) < unitDepth && !noInline {
					rec := false
					for _, fr := range stack {
						if fr.call.Call.StaticCallee() == h {
							rec = true
						}
					}
					if !rec {
						old := map[ssa.Value]ssa.Value{}
						for k, prm := range h.Params {
							if k < len(x.Call.Args) {
								if ov, had := cur.Arg[prm]; had {
									old[prm] = ov
								}
								cur.Arg[prm] = x.Call.Args[k]
							}
						}
						nFr := len(cur.Frames)
						cur.Frames = append(cur.Frames, uframe{Call: x, Start: len(cur.Instrs), End: -1})
						run(entryPos(h), map[*ssa.BasicBlock]bool{}, append(append([]frame{}, stack...), frame{x, on}))
						cur.Frames = cur.Frames[:nFr]
						for _, prm := range h.Params {
							if ov, had := old[prm]; had {
								cur.Arg[prm] = ov
							} else {
								delete(cur.Arg, prm)
							}
						}
						return
					}
				}
			case *ssa.If:
				// resolve a boolean phi (short-circuit conditions assigned to a value) along this path:
				// a constant prunes the infeasible branch, anything else replaces the phi
				cond := x.Cond
				neg := false
				for d := 0; d < 8; d++ {
					if u, ok := cond.(*ssa.UnOp); ok && u.Op == token.NOT {
						cond, neg = u.X, !neg
						continue
					}
					if ph, ok := cond.(*ssa.Phi); ok {
						if e := cur.phiAt(ph, len(cur.Instrs)-1); e != nil {
							cond = e
							continue
						}
					}
					if r := cur.resolve(cond); r != cond {
						cond = r // result of a helper on this path
						continue
					}
					break
				}
				known, knownVal := false, false
				if b, ok := cond.(*ssa.BinOp); ok && (b.Op == token.EQL || b.Op == token.NEQ) {
					// comparison of a helper's result with nil, decided by what the helper returned on this path
					var other ssa.Value
					if isNilConst(b.Y) {
						other = b.X
					} else if isNilConst(b.X) {
						other = b.Y
					}
					if other != nil {
						if rv := cur.valueAt(other, len(cur.Instrs)-1); rv != other {
							switch strip(rv).(type) {
							case *ssa.Alloc, *ssa.MakeClosure, *ssa.MakeMap, *ssa.MakeChan, *ssa.MakeSlice, *ssa.Function, *ssa.Global:
								known, knownVal = true, b.Op == token.NEQ
							case *ssa.Const:
								if isNilConst(rv) {
									known, knownVal = true, b.Op == token.EQL
								}
							default:
								if _, isMI := rv.(*ssa.MakeInterface); isMI || neverNilCall(rv) {
									known, knownVal = true, b.Op == token.NEQ
								}
								// a package-level error value (io.EOF, context.DeadlineExceeded, ErrFull, ...): sentinel errors are not nil
								if u, isU := rv.(*ssa.UnOp); isU && u.Op == token.MUL {
									if _, isG := u.X.(*ssa.Global); isG && rv.Type().String() == "error" {
										known, knownVal = true, b.Op == token.NEQ
									}
								}
							}
						}
					}
				}
				if b, isB := cond.(*ssa.BinOp); isB && !known {
					// both sides are integers known on this path (the counter of an unrolled constant loop)
					here := len(cur.Instrs) - 1
					if x, okx := cur.evalInt(b.X, here, 0); okx {
						if y, oky := cur.evalInt(b.Y, here, 0); oky {
							switch b.Op {
							case token.LSS:
								known, knownVal = true, x < y
							case token.LEQ:
								known, knownVal = true, x <= y
							case token.GTR:
								known, knownVal = true, x > y
							case token.GEQ:
								known, knownVal = true, x >= y
							case token.EQL:
								known, knownVal = true, x == y
							case token.NEQ:
								known, knownVal = true, x != y
							}
						}
					}
				}
				if !known {
					// the same value of the root function was already tested on this path (each block is visited
					// once, so it is the same dynamic value): the outcome repeats
					here := len(cur.Instrs) - 1
					if cv, ceq, isCmp := nilCmpOf(cond); isCmp {
						rv := cur.valueAt(cv, here)
						if in, isI := rv.(ssa.Instruction); isI && occursOnce(cur.Instrs, in) {
							for _, pc := range cur.Conds {
								pv, peq, isP := nilCmpOf(pc.Cond)
								if !isP {
									continue
								}
								at := here
								if pc.If != nil {
									if k := cur.indexOf(pc.If); k >= 0 {
										at = k
									}
								}
								if cur.valueAt(pv, at) == rv {
									isNil := pc.Val == peq
									known, knownVal = true, isNil == ceq
								}
							}
						}
					} else if in, isI := cond.(ssa.Instruction); isI && (in.Parent() == f || func() bool {
						// inside a helper entered once on this path the same holds
						n := 0
						for _, fr := range cur.Frames {
							if fr.Call.Call.StaticCallee() == in.Parent() {
								n++
							}
						}
						return n == 1
					}()) {
						// the same boolean tested again, possibly through negations (!flag … case flag:)
						base := func(v ssa.Value) (ssa.Value, bool) {
							neg := false
							for k := 0; k < 6; k++ {
								u, ok := v.(*ssa.UnOp)
								if !ok || u.Op != token.NOT {
									break
								}
								v, neg = u.X, !neg
							}
							return v, neg
						}
						cb, cneg := base(cond)
						for _, pc := range cur.Conds {
							if pb, pneg := base(pc.Cond); pb == cb {
								if _, isC := cb.(*ssa.Const); isC {
									continue
								}
								known, knownVal = true, pc.Val != (pneg != cneg)
							}
						}
					}
				}
				if b, ok := cond.(*ssa.BinOp); ok && !known {
					// comparison of a value with itself (a phi resolved along this path)
					if x, y := cur.valueAt(b.X, len(cur.Instrs)-1), cur.valueAt(b.Y, len(cur.Instrs)-1); x == y && isIntegerType(x.Type()) {
						switch b.Op {
						case token.LSS, token.GTR, token.NEQ:
							known, knownVal = true, false
						case token.LEQ, token.GEQ, token.EQL:
							known, knownVal = true, true
						}
					}
				}
				for k, s := range p.b.Succs {
					val := k == 0
					if neg {
						val = !val
					}
					if known && knownVal != val {
						continue // infeasible on this path
					}
					cres := cond
					if _, isC := cres.(*ssa.Const); !isC {
						cres = cur.valueAt(cond, len(cur.Instrs)-1)
					}
					if cst, ok := cres.(*ssa.Const); ok && cst.Value != nil && (cst.Value.String() == "true" || cst.Value.String() == "false") {
						if (cst.Value.String() == "true") != val {
							continue // infeasible on this path
						}
					}
					cur.Conds = append(cur.Conds, fact{Cond: cond, Val: val, If: x})
					run(ipos{s, 0}, on, stack)
					cur.Conds = cur.Conds[:len(cur.Conds)-1]
				}
				return
			}
		}
		for _, s := range p.b.Succs {
			run(ipos{s, 0}, on, stack)
		}
	}
	run(entryPos(f), map[*ssa.BasicBlock]bool{}, nil)
	return out, ok
}

// enumPathsB adapts enumPathsU to the block-path interface used by the helper-shape
// rules (functions without inlined helpers keep their block structure).
func enumPathsB(f *ssa.Function, limit int) ([]cfgPath, bool) {
	return enumPaths(f, limit)
}

// resolveParam maps a parameter of a private helper that has exactly one call site to
// the argument passed there (transitively); other values are returned unchanged.
func resolveParam(v ssa.Value) ssa.Value {
	for i := 0; i < unitDepth; i++ {
		p, ok := v.(*ssa.Parameter)
		if !ok {
			return v
		}
		fn := p.Parent()
		if !isPrivateHelper(fn) || unitExclude[fn] {
			return v
		}
		sites := curSites.sites[fn]
		if len(sites) != 1 && scanSite != nil {
			for _, s := range sites {
				if s == scanSite {
					sites = []ssa.Instruction{s}
					break
				}
			}
		}
		if len(sites) != 1 && scanRoot != nil {
			// several call sites: the one inside the unit being scanned
			var in []ssa.Instruction
			for _, s := range sites {
				for _, g := range unitOf(scanRoot) {
					if s.Parent() == g {
						in = append(in, s)
					}
				}
			}
			sites = in
		}
		if len(sites) != 1 {
			return v
		}
		call, ok := sites[0].(*ssa.Call)
		if !ok {
			return v
		}
		idx := -1
		for k, q := range fn.Params {
			if q == p {
				idx = k
			}
		}
		if idx < 0 || idx >= len(call.Call.Args) {
			return v
		}
		v = call.Call.Args[idx]
	}
	return v
}

// sameVal: identity of values up to helper-parameter binding.
func sameVal(a, b ssa.Value) bool {
	return a == b || resolveParam(a) == resolveParam(b)
}

// commsOfU lists the channel communications of the unit of f.
func commsOfU(f *ssa.Function) []selCase {
	var out []selCase
	for _, g := range unitOf(f) {
		out = append(out, commsOf(g)...)
	}
	return out
}

// rootEvents returns the instructions of f itself (not of its helpers) that perform the
// event directly or are calls of a private helper that performs it on every path.
func rootEvents(p *Prog, f *ssa.Function, pred func(ssa.Instruction) bool) []ssa.Instruction {
	lifted := mustDo(p, pred)
	return findInstrs(f, lifted)
}

// unitRoots: the non-helper functions from which a (possibly helper) function is reached
// through plain calls of private helpers.
func unitRoots(f *ssa.Function) []*ssa.Function {
	seen := map[*ssa.Function]bool{}
	var out []*ssa.Function
	var rec func(g *ssa.Function, d int)
	rec = func(g *ssa.Function, d int) {
		if seen[g] {
			return
		}
		seen[g] = true
		if d > unitDepth || !isPrivateHelper(g) || unitExclude[g] {
			out = append(out, g)
			return
		}
		for _, s := range curSites.sites[g] {
			rec(s.Parent(), d+1)
		}
	}
	rec(f, 0)
	return out
}

// isIn: every root of f's unit membership is role (f is role itself, or a private helper
// reached only from role).
func isIn(f, role *ssa.Function) bool {
	if role == nil {
		return false
	}
	rs := unitRoots(f)
	if len(rs) == 0 {
		return false
	}
	for _, r := range rs {
		if r != role {
			return false
		}
	}
	return true
}

func debugHelper(f *ssa.Function) string {
	obj, _ := f.Object().(*types.Func)
	return fmt.Sprintf("%s: parent=%v blocks=%d inModule=%v obj=%v exported=%v addrTaken=%v sites=%d iface=%v excl=%v", fname(f), f.Parent() != nil, len(f.Blocks), inModule(f), obj != nil, obj != nil && obj.Exported(), curSites.addrTaken[f], len(curSites.sites[f]), curSites.iface[f], unitExclude[f])
}

func forEach(ins []ssa.Instruction, f func(ssa.Instruction)) {
	for _, in := range ins {
		f(in)
	}
}

// index of an instruction on the path (-1 if absent).
func (p *upath) indexOf(in ssa.Instruction) int {
	for i, x := range p.Instrs {
		if x == in {
			return i
		}
	}
	return -1
}

// last returns the final instruction of the path.
func (p *upath) last() ssa.Instruction {
	if len(p.Instrs) == 0 {
		return nil
	}
	return p.Instrs[len(p.Instrs)-1]
}

// value resolves v along the path: helper parameters, helper results and phis (by the edge taken).
func (p *upath) value(v ssa.Value) ssa.Value {
	for i := 0; i < 16; i++ {
		r := p.resolve(v)
		if ph, ok := r.(*ssa.Phi); ok {
			if e := p.phi(ph); e != nil {
				r = e
			}
		}
		if r == v {
			return v
		}
		v = r
	}
	return v
}

// scanRoot is the function whose unit is being scanned: while it is set, a parameter of a helper
// with several call sites is resolved through the call site inside this unit (if there is exactly one).
var scanRoot *ssa.Function

// scanSite: while set, a parameter of the helper called at this site is resolved through this very call
// (one instantiation of a helper that is called once per direction / per sibling).
var scanSite ssa.Instruction

// withSite runs fn with scanSite set.
func withSite(site ssa.Instruction, fn func()) {
	old := scanSite
	scanSite = site
	defer func() { scanSite = old }()
	fn()
}

// withRoot runs fn with scanRoot set to root.
func withRoot(root *ssa.Function, fn func()) {
	old := scanRoot
	scanRoot = root
	defer func() { scanRoot = old }()
	fn()
}

// instrsOfU visits the instructions of f and of the private helpers it calls.
func instrsOfU(f *ssa.Function, fn func(in ssa.Instruction)) {
	withRoot(f, func() {
		for _, g := range unitOf(f) {
			instrsOf(g, fn)
		}
	})
}

// singleReturn: the value a private helper returns as result i, if it has exactly one return
// (outside the recover block) and that return yields one value; nil otherwise.
func singleReturn(h *ssa.Function, i int) ssa.Value {
	var ret *ssa.Return
	n := 0
	for _, b := range h.Blocks {
		if b == h.Recover {
			continue
		}
		if r, ok := b.Instrs[len(b.Instrs)-1].(*ssa.Return); ok {
			ret = r
			n++
		}
	}
	if n != 1 || i >= len(ret.Results) {
		return nil
	}
	vs := retValAt(ret, i)
	if len(vs) != 1 {
		return nil
	}
	return vs[0]
}

// origin follows a value to where it comes from across the boundaries a refactoring
// introduces without changing the value: a parameter of a private helper is the argument
// (of the call being looked through, or of the helper's only call site), the result of a
// private helper with a single return is the value returned there, a local assigned once
// is the value assigned. Conversions that keep the value are not removed (use strip).
func origin(v ssa.Value) ssa.Value {
	if curSites == nil {
		return v
	}
	bind := map[ssa.Value]ssa.Value{}
	for i := 0; i < 16; i++ {
		switch x := v.(type) {
		case *ssa.Parameter:
			if a, ok := bind[x]; ok {
				v = a
				continue
			}
			if r := resolveParam(x); r != v {
				v = r
				continue
			}
			return v
		case *ssa.Call:
			h := helperCallee(x)
			if h == nil || h.Signature.Results().Len() != 1 {
				return v
			}
			rv := singleReturn(h, 0)
			if rv == nil {
				return v
			}
			for k, prm := range h.Params {
				if k < len(x.Call.Args) {
					bind[prm] = x.Call.Args[k]
				}
			}
			v = rv
			continue
		case *ssa.Extract:
			call, ok := x.Tuple.(*ssa.Call)
			if !ok {
				return v
			}
			h := helperCallee(call)
			if h == nil {
				return v
			}
			rv := singleReturn(h, x.Index)
			if rv == nil {
				return v
			}
			for k, prm := range h.Params {
				if k < len(call.Call.Args) {
					bind[prm] = call.Call.Args[k]
				}
			}
			v = rv
			continue
		case *ssa.UnOp:
			if d := derefLocal(v); d != v {
				v = d
				continue
			}
			return v
		default:
			return v
		}
	}
	return v
}

// sameOrigin: the two values are the same value up to helper boundaries and single-assignment locals.
// A parameter of a helper with several call sites is identified with a value of a calling function when
// every call site inside that function passes this value.
func sameOrigin(a, b ssa.Value) bool {
	if a == nil || b == nil {
		return a == b
	}
	if a == b {
		return true
	}
	oa, ob := origin(a), origin(b)
	if oa == ob || sameVal(a, b) {
		return true
	}
	if paramIs(oa, ob) || paramIs(ob, oa) {
		return true
	}
	// "the value, or nil": a helper that hands back one value on its successful returns and the constant nil
	// on the others (chunk, wait, ok := r.popDue(...))
	na, nb := originOrNil(oa), originOrNil(ob)
	return (na != oa || nb != ob) && (na == nb || origin(na) == origin(nb))
}

// originOrNil: v is the result of a private helper all of whose returns yield either the constant nil or one and
// the same value (after origin): that value. Only for identity comparisons - the result may be nil where the
// value is not.
func originOrNil(v ssa.Value) ssa.Value {
	var call *ssa.Call
	idx := 0
	switch x := v.(type) {
	case *ssa.Call:
		call = x
	case *ssa.Extract:
		call, _ = x.Tuple.(*ssa.Call)
		idx = x.Index
	}
	if call == nil {
		return v
	}
	h := helperCallee(call)
	if h == nil || idx >= h.Signature.Results().Len() {
		return v
	}
	switch h.Signature.Results().At(idx).Type().Underlying().(type) {
	case *types.Pointer, *types.Interface, *types.Slice, *types.Map, *types.Chan:
	default:
		return v
	}
	var one ssa.Value
	for _, rv := range returnedValues(h, idx) {
		if isNilConst(rv) {
			continue
		}
		o := origin(rv)
		if one != nil && o != one {
			return v
		}
		one = o
	}
	if one == nil {
		return v
	}
	if _, isPrm := one.(*ssa.Parameter); isPrm {
		return v // would need the binding of this call
	}
	return one
}

// paramIs: p is a parameter of a private helper and every call site of that helper within the
// function of v (and the helpers that function calls) passes v for it.
func paramIs(p, v ssa.Value) bool {
	prm, ok := p.(*ssa.Parameter)
	if !ok || curSites == nil {
		return false
	}
	h := prm.Parent()
	fv := valFunc(v)
	if fv == nil {
		if q, ok := v.(*ssa.Parameter); ok {
			fv = q.Parent()
		}
		if q, ok := v.(*ssa.FreeVar); ok {
			fv = q.Parent()
		}
	}
	if h == nil || fv == nil || h == fv || !isPrivateHelper(h) || unitExclude[h] {
		return false
	}
	idx := -1
	for k, q := range h.Params {
		if q == prm {
			idx = k
		}
	}
	n := 0
	for _, s := range curSites.sites[h] {
		in := false
		for _, root := range unitRoots(s.Parent()) {
			if root == fv || s.Parent() == fv {
				in = true
			}
		}
		if !in {
			continue
		}
		args := s.(ssa.CallInstruction).Common().Args
		if idx < 0 || idx >= len(args) {
			return false
		}
		oa := origin(args[idx])
		if !(oa == origin(v) || paramIs(oa, v)) {
			return false
		}
		n++
	}
	return n > 0
}

// originsAll: the possible origins of v over all call sites when v is (or leads to) a parameter of a
// private helper with several call sites; otherwise the single origin.
func originsAll(v ssa.Value) []ssa.Value {
	var out []ssa.Value
	seen := map[ssa.Value]bool{}
	var rec func(v ssa.Value, d int)
	rec = func(v ssa.Value, d int) {
		o := origin(v)
		if seen[o] {
			return
		}
		seen[o] = true
		prm, ok := o.(*ssa.Parameter)
		if ok && d < unitDepth && curSites != nil && isPrivateHelper(prm.Parent()) && !unitExclude[prm.Parent()] {
			h := prm.Parent()
			idx := -1
			for k, q := range h.Params {
				if q == prm {
					idx = k
				}
			}
			sites := curSites.sites[h]
			if idx >= 0 && len(sites) > 0 {
				for _, s := range sites {
					args := s.(ssa.CallInstruction).Common().Args
					if idx < len(args) {
						rec(args[idx], d+1)
					}
				}
				return
			}
		}
		out = append(out, o)
	}
	rec(v, 0)
	return out
}

// returnedValuesU: the values f can return as result i, looking through results that are themselves
// results of private helpers (return h(x) / v, ok := h(x); return v).
func returnedValuesU(f *ssa.Function, i int) []ssa.Value {
	var out []ssa.Value
	seen := map[ssa.Value]bool{}
	var expand func(v ssa.Value, d int)
	expand = func(v ssa.Value, d int) {
		for _, e := range phiLeaves(v) {
			if seen[e] {
				continue
			}
			seen[e] = true
			if d < unitDepth {
				if call, ok := e.(*ssa.Call); ok {
					if h := helperCallee(call); h != nil && h.Signature.Results().Len() == 1 {
						for _, rv := range returnedValues(h, 0) {
							expand(rv, d+1)
						}
						continue
					}
				}
				if ex, ok := e.(*ssa.Extract); ok {
					if call, ok := ex.Tuple.(*ssa.Call); ok {
						if h := helperCallee(call); h != nil {
							for _, rv := range returnedValues(h, ex.Index) {
								expand(rv, d+1)
							}
							continue
						}
					}
				}
			}
			out = append(out, e)
		}
	}
	for _, v := range returnedValues(f, i) {
		expand(v, 0)
	}
	return out
}

// pathLoadSource: v is a load on the path; the value most recently stored to the same address earlier on the
// path (nil if v is not a load or no such store precedes it). Sound for variables no other goroutine writes.
func pathLoadSource(p *upath, v ssa.Value) ssa.Value {
	ld, ok := v.(*ssa.UnOp)
	if !ok || ld.Op != token.MUL {
		return nil
	}
	idx := p.indexOf(ld)
	if idx < 0 {
		return nil
	}
	for i := idx - 1; i >= 0; i-- {
		if st, ok := p.Instrs[i].(*ssa.Store); ok && (st.Addr == ld.X || (cellOf(st.Addr) != nil && cellOf(st.Addr) == cellOf(ld.X))) {
			return st.Val
		}
	}
	return nil
}

// occursOnce: the instruction is executed exactly once on the path (a helper inlined twice executes its
// instructions twice: two dynamic values for one SSA value).
func occursOnce(ins []ssa.Instruction, in ssa.Instruction) bool {
	n := 0
	for _, x := range ins {
		if x == in {
			n++
		}
	}
	return n == 1
}

// evalInt evaluates an integer value along the path: constants, phis by the edge taken at their occurrence at or
// before index at (so the counter of an unrolled loop has its value of that iteration), sums and differences.
func (p *upath) evalInt(v ssa.Value, at int, depth int) (int64, bool) {
	if depth > 80 || v == nil {
		return 0, false
	}
	if !isIntegerType(v.Type()) {
		return 0, false
	}
	if k, ok := constInt(v); ok {
		return k, true
	}
	if at >= len(p.Instrs) {
		at = len(p.Instrs) - 1
	}
	occ := func(in ssa.Instruction) int {
		for i := at; i >= 0; i-- {
			if p.Instrs[i] == in {
				return i
			}
		}
		return -1
	}
	switch x := v.(type) {
	case *ssa.Phi:
		o := occ(x)
		if o < 0 {
			return 0, false
		}
		e := p.phiAt(x, o)
		if e == nil {
			return 0, false
		}
		return p.evalInt(e, o-1, depth+1)
	case *ssa.BinOp:
		o := occ(x)
		if o < 0 {
			return 0, false
		}
		a, ok1 := p.evalInt(x.X, o, depth+1)
		if !ok1 {
			return 0, false
		}
		b, ok2 := p.evalInt(x.Y, o, depth+1)
		if !ok2 {
			return 0, false
		}
		switch x.Op {
		case token.ADD:
			return a + b, true
		case token.SUB:
			return a - b, true
		case token.MUL:
			return a * b, true
		}
	case *ssa.Convert:
		return p.evalInt(x.X, at, depth+1)
	case *ssa.Parameter:
		if r := p.valueAt(x, at); r != ssa.Value(x) {
			return p.evalInt(r, at, depth+1)
		}
	}
	return 0, false
}

// constLoopHeader: b (already on the path) ends in a branch on a comparison that evaluates to a constant if the
// path re-enters b now.
func constLoopHeader(cur *upath, b *ssa.BasicBlock) bool {
	iff, ok := b.Instrs[len(b.Instrs)-1].(*ssa.If)
	if !ok {
		return false
	}
	cond := iff.Cond
	for d := 0; d < 4; d++ {
		if u, isU := cond.(*ssa.UnOp); isU && u.Op == token.NOT {
			cond = u.X
			continue
		}
		break
	}
	bo, ok := cond.(*ssa.BinOp)
	if !ok {
		return false
	}
	switch bo.Op {
	case token.LSS, token.LEQ, token.GTR, token.GEQ, token.EQL, token.NEQ:
	default:
		return false
	}
	n := len(cur.Instrs)
	cur.Instrs = append(cur.Instrs, b.Instrs...)
	_, ok1 := cur.evalInt(bo.X, len(cur.Instrs)-1, 0)
	_, ok2 := cur.evalInt(bo.Y, len(cur.Instrs)-1, 0)
	cur.Instrs = cur.Instrs[:n]
	return ok1 && ok2
}

// siteAt: the call of the innermost inlined helper whose body contains index idx of the path (nil: the root).
func (p *upath) siteAt(idx int) ssa.Instruction {
	var best *uframe
	for k := range p.Frames {
		fr := &p.Frames[k]
		if fr.Start <= idx && (fr.End < 0 || idx <= fr.End) {
			if best == nil || fr.Start >= best.Start {
				best = fr
			}
		}
	}
	if best == nil {
		return nil
	}
	return best.Call
}

// zeroConstOf: the zero value of a basic, pointer, interface, channel, map, slice or function type as a constant.
func zeroConstOf(t types.Type) ssa.Value {
	switch u := t.Underlying().(type) {
	case *types.Basic:
		switch {
		case u.Info()&types.IsBoolean != 0:
			return ssa.NewConst(constant.MakeBool(false), t)
		case u.Info()&types.IsInteger != 0:
			return ssa.NewConst(constant.MakeInt64(0), t)
		case u.Info()&types.IsString != 0:
			return ssa.NewConst(constant.MakeString(""), t)
		}
	case *types.Pointer, *types.Interface, *types.Chan, *types.Map, *types.Slice, *types.Signature:
		return ssa.NewConst(nil, t)
	}
	return nil
}
